"""Generators of programs (Appendix C of DESIGN.md) and job configurations.

A generated program is legal by construction: the typing rules below mirror the panics and notes
of the API documentation (zip/merge need equally replicated inputs, order dependent operators need
a sequential producer path, keyed stateful operators need a key-partitioned stream, loops need an
unlimited input)."""
import json
import random

MAPS = ["inc", "mul3p1", "mod7", "half", "add10"]
FILTERS = ["odd", "even", "lt50", "ge5", "ne3"]
FLATS = ["dup", "drop_even", "range3", "one"]
AGGS = ["sum", "max", "min", "count"]
WAGGS = ["sum", "count", "max", "min", "first", "last", "digest"]
SINKS_S = ["collect_vec", "collect_vec", "collect", "collect_count", "collect_channel", "for_each",
           "collect_vec_all", "collect_all"]
SINKS_K = ["collect_vec", "collect_vec", "collect", "collect_channel", "for_each"]


class St:
    """A stream value during generation."""

    def __init__(self, ref, keyed=False, ordered=False, repl="unlimited", part=False, kord=False,
                 nonempty_hint=True):
        self.ref = ref          # node reference
        self.keyed = keyed      # KeyedStream?
        self.ordered = ordered  # every producer on the path is sequential: order is defined
        self.repl = repl        # replication of the current block: unlimited | one
        self.part = part        # keyed and partitioned by key (equal keys on one replica)
        self.kord = kord        # per-key arrival order is defined


class ProgGen:
    def __init__(self, rng, max_ops=4, allow_loops=True, allow_windows=True, allow_joins=True,
                 input_max=40):
        self.rng = rng
        self.nodes = []
        self.next_id = 0
        self.max_ops = max_ops
        self.allow_loops = allow_loops
        self.allow_windows = allow_windows
        self.allow_joins = allow_joins
        self.input_max = input_max
        self.sinks = {}
        self.prefix = ""

    def nid(self):
        self.next_id += 1
        return f"{self.prefix}n{self.next_id}"

    def add(self, node):
        self.nodes.append(node)
        return node["id"]

    # ---- sources
    def source(self):
        r = self.rng
        if r.random() < 0.6:
            lo = r.choice([0, 0, 3, 10])
            hi = lo + r.choice([0, 1, 2, 5, 12, 20, self.input_max])
            i = self.add({"id": self.nid(), "op": "src", "kind": "par_range", "lo": lo, "hi": hi})
            return St(i, ordered=False, repl="unlimited")
        n = r.choice([0, 1, 3, 8, 15, self.input_max])
        data = [r.randrange(0, 60) for _ in range(n)]
        i = self.add({"id": self.nid(), "op": "src", "kind": "iter", "data": data})
        return St(i, ordered=True, repl="one")

    # ---- unary steps
    def step(self, s, in_loop=False):
        r = self.rng
        if not s.keyed:
            choices = ["map", "filter", "flat_map", "shuffle", "group_by", "fold", "reduce",
                       "fold_assoc", "reduce_assoc", "gb", "replicate_one", "key_by_fold", "map_memo", "unique"]
            if s.ordered and s.repl == "one":
                choices += ["rich_map"]
            if in_loop:
                choices += ["map_st", "map_st"]
            op = r.choice(choices)
            i = self.nid()
            if op == "map":
                self.add({"id": i, "op": "map", "f": r.choice(MAPS), "in": [s.ref]})
                return St(i, ordered=s.ordered, repl=s.repl)
            if op == "map_memo":
                self.add({"id": i, "op": "map_memo", "f": r.choice(MAPS), "cap": r.choice([1, 2, 8]), "in": [s.ref]})
                return St(i, ordered=s.ordered, repl=s.repl)
            if op == "unique":
                self.add({"id": i, "op": "unique", "in": [s.ref]})
                return St(i, ordered=False, repl="unlimited")
            if op == "rich_map":
                self.add({"id": i, "op": "rich_map", "agg": r.choice(["sum", "max", "count"]), "in": [s.ref]})
                return St(i, ordered=True, repl="one")
            if op == "map_st":
                self.add({"id": i, "op": "map_st", "f": r.choice(["add_state", "mix_state"]), "in": [s.ref]})
                return St(i, ordered=s.ordered, repl=s.repl)
            if op == "filter":
                self.add({"id": i, "op": "filter", "p": r.choice(FILTERS), "in": [s.ref]})
                return St(i, ordered=s.ordered, repl=s.repl)
            if op == "flat_map":
                self.add({"id": i, "op": "flat_map", "g": r.choice(FLATS), "in": [s.ref]})
                return St(i, ordered=s.ordered, repl=s.repl)
            if op == "shuffle":
                self.add({"id": i, "op": "shuffle", "in": [s.ref]})
                return St(i, ordered=False, repl="unlimited")
            if op == "replicate_one":
                self.add({"id": i, "op": "replicate", "repl": "one", "in": [s.ref]})
                return St(i, ordered=s.ordered, repl="one")
            if op == "group_by":
                self.add({"id": i, "op": "group_by", "m": r.choice([1, 2, 3, 5, 7]), "in": [s.ref]})
                return St(i, keyed=True, repl="unlimited", part=True, kord=s.ordered)
            if op == "key_by_fold":
                # key_by without repartitioning is only meaningful on a single replica
                if s.repl != "one":
                    return self.step(s, in_loop)
                self.add({"id": i, "op": "key_by", "m": r.choice([2, 3, 5]), "in": [s.ref]})
                return St(i, keyed=True, repl="one", part=True, kord=s.ordered)
            if op in ("fold", "fold_assoc"):
                self.add({"id": i, "op": op, "agg": r.choice(AGGS), "in": [s.ref]})
                return St(i, ordered=True, repl="one")
            if op in ("reduce", "reduce_assoc"):
                self.add({"id": i, "op": op, "agg": r.choice(["sum", "max", "min"]), "in": [s.ref]})
                return St(i, ordered=True, repl="one")
            if op == "gb":
                kind = r.choice(["gb_fold", "gb_reduce", "gb_sum", "gb_count", "gb_min", "gb_max", "gb_avg"])
                node = {"id": i, "op": kind, "m": r.choice([1, 2, 3, 5]), "in": [s.ref]}
                if kind == "gb_fold":
                    node["agg"] = r.choice(AGGS)
                if kind == "gb_reduce":
                    node["agg"] = r.choice(["sum", "max", "min"])
                self.add(node)
                return St(i, keyed=True, repl="unlimited", part=True, kord=False)
        else:
            choices = ["kmap", "kfilter", "kflat_map", "kfold", "kreduce", "unkey", "drop_key"]
            if s.kord and self.allow_windows:
                choices += ["count_window", "count_window", "krich_map"]
            op = r.choice(choices)
            i = self.nid()
            if op == "kmap":
                self.add({"id": i, "op": "kmap", "f": r.choice(MAPS), "in": [s.ref]})
                return St(i, keyed=True, repl=s.repl, part=s.part, kord=s.kord)
            if op == "kfilter":
                self.add({"id": i, "op": "kfilter", "p": r.choice(FILTERS), "in": [s.ref]})
                return St(i, keyed=True, repl=s.repl, part=s.part, kord=s.kord)
            if op == "kflat_map":
                self.add({"id": i, "op": "kflat_map", "g": r.choice(FLATS), "in": [s.ref]})
                return St(i, keyed=True, repl=s.repl, part=s.part, kord=s.kord)
            if op == "kfold":
                self.add({"id": i, "op": "kfold", "agg": r.choice(AGGS), "in": [s.ref]})
                return St(i, keyed=True, repl=s.repl, part=s.part, kord=False)
            if op == "kreduce":
                self.add({"id": i, "op": "kreduce", "agg": r.choice(["sum", "max", "min"]), "in": [s.ref]})
                return St(i, keyed=True, repl=s.repl, part=s.part, kord=False)
            if op == "krich_map":
                self.add({"id": i, "op": "krich_map", "agg": r.choice(["sum", "max", "count"]), "in": [s.ref]})
                return St(i, keyed=True, repl=s.repl, part=s.part, kord=s.kord)
            if op == "count_window":
                n = r.choice([1, 2, 3, 4, 5])
                sl = r.randint(1, n)
                self.add({"id": i, "op": "count_window", "n": n, "s": sl, "exact": r.random() < 0.5,
                          "agg": r.choice(WAGGS), "in": [s.ref]})
                return St(i, keyed=True, repl=s.repl, part=s.part, kord=s.kord)
            if op == "unkey":
                self.add({"id": i, "op": "unkey", "in": [s.ref]})
                return St(i, ordered=False, repl=s.repl)
            if op == "drop_key":
                self.add({"id": i, "op": "drop_key", "in": [s.ref]})
                return St(i, ordered=False, repl=s.repl)
        raise AssertionError(op)

    def chain(self, s, n, in_loop=False):
        for _ in range(n):
            s = self.step(s, in_loop)
        return s

    def to_plain(self, s):
        if s.keyed:
            i = self.nid()
            self.add({"id": i, "op": self.rng.choice(["unkey", "drop_key"]), "in": [s.ref]})
            return St(i, ordered=False, repl=s.repl)
        return s

    def sink(self, s):
        r = self.rng
        i = self.nid()
        kind = r.choice(SINKS_K if s.keyed else SINKS_S)
        self.add({"id": i, "op": "sink", "kind": kind, "in": [s.ref]})
        # for_each may run in parallel: only the bag is defined
        ordered = (not s.keyed) and s.ordered and kind in ("collect_vec", "collect", "collect_channel",
                                                           "collect_vec_all", "collect_all")
        self.sinks[i] = {"kind": kind, "ordered": bool(ordered)}

    # ---- binary / structural
    def binary(self, a, b):
        r = self.rng
        if a.keyed and b.keyed and a.part and b.part and a.repl == "unlimited" and b.repl == "unlimited" \
                and r.random() < 0.7:
            # keyed join / merge: forward connections, both sides rely on the same key partitioning
            i = self.nid()
            op = r.choice(["kjoin", "kmerge"])
            self.add({"id": i, "op": op, "variant": r.choice(["inner", "outer"]), "in": [a.ref, b.ref]})
            return St(i, keyed=True, repl="unlimited", part=True, kord=False)
        a = self.to_plain(a)
        b = self.to_plain(b)
        ops = ["merge"]
        if self.allow_joins:
            ops += ["join", "join", "join"]
        if a.ordered and b.ordered and a.repl == b.repl:
            ops += ["zip", "zip"]
        op = r.choice(ops)
        i = self.nid()
        if op == "merge":
            if a.repl != b.repl:
                # bring both to the same replication with a shuffle
                def shuf(x):
                    j = self.nid()
                    self.add({"id": j, "op": "shuffle", "in": [x.ref]})
                    return St(j, ordered=False, repl="unlimited")
                a = a if a.repl == "unlimited" else shuf(a)
                b = b if b.repl == "unlimited" else shuf(b)
            self.add({"id": i, "op": "merge", "in": [a.ref, b.ref]})
            return St(i, ordered=False, repl=a.repl)
        if op == "zip":
            self.add({"id": i, "op": "zip", "in": [a.ref, b.ref]})
            return St(i, ordered=True, repl="one")
        if op == "join":
            ship = r.choice(["hash", "hash", "bcast"])
            local = r.choice(["hash", "sortmerge"])
            variant = r.choice(["inner", "left", "outer"] if ship == "hash" else ["inner", "left"])
            self.add({"id": i, "op": "join", "ship": ship, "local": local, "variant": variant,
                      "ml": r.choice([1, 2, 3, 5]), "mr": r.choice([1, 2, 3, 5]), "in": [a.ref, b.ref]})
            return St(i, ordered=False, repl="unlimited" if ship == "hash" else a.repl)
        raise AssertionError(op)

    def fanout(self, s):
        """split or route; returns the branch streams"""
        r = self.rng
        s = self.to_plain(s)
        i = self.nid()
        if r.random() < 0.5:
            n = r.choice([2, 2, 3])
            self.add({"id": i, "op": "split", "n": n, "in": [s.ref]})
            return [St(f"{i}.{k}", ordered=s.ordered, repl=s.repl) for k in range(n)]
        preds = r.sample(FILTERS + ["all", "none"], r.choice([1, 2, 3]))
        self.add({"id": i, "op": "route", "preds": preds, "in": [s.ref]})
        return [St(f"{i}.{k}", ordered=s.ordered, repl=s.repl) for k in range(len(preds))]

    def loop(self, s):
        r = self.rng
        s = self.to_plain(s)
        if s.repl != "unlimited":
            j = self.nid()
            self.add({"id": j, "op": "shuffle", "in": [s.ref]})
            s = St(j, ordered=False, repl="unlimited")
        i = self.nid()
        kind = r.choice(["replay", "replay", "iterate"])
        # body: a short chain of element-wise operators, optionally with a shuffle in the middle;
        # no amplification inside iterate bodies (F9)
        saved_nodes, self.nodes = self.nodes, []
        saved_prefix = self.prefix
        self.prefix = f"{i}_"
        b = St("$in", ordered=False, repl="unlimited")
        for _ in range(r.choice([1, 2, 3])):
            opk = r.choice(["map", "map_st", "map_st", "filter", "shuffle", "flat"])
            j = self.nid()
            if opk == "map":
                self.add({"id": j, "op": "map", "f": r.choice(MAPS), "in": [b.ref]})
            elif opk == "map_st":
                self.add({"id": j, "op": "map_st", "f": r.choice(["add_state", "mix_state"]), "in": [b.ref]})
            elif opk == "filter":
                self.add({"id": j, "op": "filter", "p": r.choice(FILTERS), "in": [b.ref]})
            elif opk == "shuffle":
                self.add({"id": j, "op": "shuffle", "in": [b.ref]})
            else:
                g = r.choice(["drop_even", "one"]) if kind == "iterate" else r.choice(FLATS)
                self.add({"id": j, "op": "flat_map", "g": g, "in": [b.ref]})
            b = St(j, ordered=False, repl="unlimited")
        body, self.nodes = self.nodes, saved_nodes
        self.prefix = saved_prefix
        fam = r.choice([("sum", "sum"), ("max", "max"), ("count", "count")])
        self.add({"id": i, "op": kind, "rounds": r.choice([1, 2, 3, 4]), "init": r.choice([0, 1, 5]),
                  "lfold": fam[0], "gfold": fam[1], "cond": r.choice(["always", "always", "lt1000", "lt100"]),
                  "body": body, "out": b.ref, "in": [s.ref]})
        # the final state leaves the leader through a random split: a fresh unlimited block
        outs = [St(f"{i}.state", ordered=False, repl="unlimited")]
        if kind == "iterate":
            outs.append(St(f"{i}.out", ordered=False, repl="unlimited"))
        return outs

    def program(self):
        r = self.rng
        live = [self.source()]
        budget = r.randint(1, self.max_ops)
        while budget > 0:
            budget -= 1
            k = r.randrange(len(live))
            s = live.pop(k)
            x = r.random()
            if x < 0.62:
                live.append(self.step(s))
            elif x < 0.74:
                other = live.pop(r.randrange(len(live))) if live and r.random() < 0.5 else self.chain(self.source(), r.randint(0, 1))
                if s.keyed and s.part and s.repl == "unlimited" and not other.keyed and r.random() < 0.6:
                    j = self.nid()
                    kind = r.choice(["group_by", "gb_count", "gb_sum", "gb_fold"])
                    node = {"id": j, "op": kind, "m": r.choice([2, 3, 5, 11]), "in": [other.ref]}
                    if kind == "gb_fold":
                        node["agg"] = r.choice(AGGS)
                    self.add(node)
                    other = St(j, keyed=True, repl="unlimited", part=True, kord=False)
                live.append(self.binary(s, other))
            elif x < 0.86:
                live.extend(self.fanout(s))
            elif self.allow_loops:
                live.extend(self.loop(s))
            else:
                live.append(self.step(s))
        for s in live:
            self.sink(s)
        return {"nodes": self.nodes}, self.sinks


def gen_program(seed, **kw):
    rng = random.Random(seed)
    g = ProgGen(rng, **kw)
    prog, sinks = g.program()
    return prog, sinks


CONFIGS_LOCAL = [{"mode": "local", "par": p} for p in (1, 2, 3, 4)]
CONFIGS_REMOTE = [{"mode": "remote", "hosts": h} for h in ([1, 1], [2, 1], [2, 2], [1, 3], [2, 1, 1])]
BATCHES = ["default", "single", "fixed:1", "fixed:3", "fixed:1024", "adaptive:2:1000"]


def config_matrix(rng, n_local=2, n_remote=1, n_batch=2):
    cfgs = rng.sample(CONFIGS_LOCAL, n_local) + rng.sample(CONFIGS_REMOTE, n_remote)
    out = []
    for c in cfgs:
        for b in rng.sample(BATCHES, n_batch):
            out.append((c, b))
    return out


# ------------------------------------------------------------------------------------------------
# focused program families (one per property): templates with randomised parameters

def _sinks(nodes, ordered=()):
    return {n["id"]: {"kind": n["kind"], "ordered": n["id"] in ordered} for n in nodes if n["op"] == "sink"}


def _src(rng, i, shape=None):
    """A source with a data shape: skewed / single key / many keys / empty / range."""
    shape = shape or rng.choice(["range", "range", "skew", "single", "many", "empty", "one"])
    if shape == "range":
        lo = rng.choice([0, 0, 5])
        return {"id": i, "op": "src", "kind": "par_range", "lo": lo, "hi": lo + rng.choice([1, 7, 20, 45])}
    if shape == "empty":
        return rng.choice([{"id": i, "op": "src", "kind": "par_range", "lo": 3, "hi": 3},
                           {"id": i, "op": "src", "kind": "iter", "data": []}])
    if shape == "one":
        return {"id": i, "op": "src", "kind": "iter", "data": [rng.randrange(0, 50)]}
    n = rng.choice([5, 12, 30])
    if shape == "skew":
        data = [rng.choice([0, 0, 0, 0, 7, 14, 3]) * 1 + rng.choice([0, 21, 42]) for _ in range(n)]
    elif shape == "single":
        data = [rng.choice([4, 11, 18, 25]) for _ in range(n)]    # equal mod 7
    else:
        data = [rng.randrange(0, 200) for _ in range(n)]
    return {"id": i, "op": "src", "kind": "iter", "data": data}


def agg_programs(rng, n):
    """C07: every aggregation API, on varied key distributions, inside short pipelines."""
    out = []
    kinds = ["fold", "reduce", "fold_assoc", "reduce_assoc", "gb+kfold", "gb+kreduce", "gb_fold", "gb_reduce",
             "gb_sum", "gb_count", "gb_avg", "gb_min", "gb_max", "krich_map"]
    for i in range(n):
        kind = kinds[i % len(kinds)]
        nodes = [_src(rng, "s")]
        cur = "s"
        if rng.random() < 0.5:
            nodes.append({"id": "p", "op": rng.choice(["map", "shuffle"]), "f": rng.choice(MAPS), "in": [cur]})
            cur = "p"
        m = rng.choice([1, 2, 3, 5, 7])
        agg = rng.choice(AGGS)
        ragg = rng.choice(["sum", "max", "min"])
        keyed = True
        if kind in ("fold", "fold_assoc"):
            nodes.append({"id": "a", "op": kind, "agg": agg, "in": [cur]}); keyed = False
        elif kind in ("reduce", "reduce_assoc"):
            nodes.append({"id": "a", "op": kind, "agg": ragg, "in": [cur]}); keyed = False
        elif kind == "gb+kfold":
            nodes += [{"id": "g", "op": "group_by", "m": m, "in": [cur]}, {"id": "a", "op": "kfold", "agg": agg, "in": ["g"]}]
        elif kind == "gb+kreduce":
            nodes += [{"id": "g", "op": "group_by", "m": m, "in": [cur]}, {"id": "a", "op": "kreduce", "agg": ragg, "in": ["g"]}]
        elif kind == "krich_map":
            # per-key running aggregate needs a defined per-key order: sequential producer
            nodes = [{"id": "s", "op": "src", "kind": "iter", "data": [rng.randrange(0, 40) for _ in range(rng.choice([0, 6, 15]))]},
                     {"id": "g", "op": "group_by", "m": m, "in": ["s"]},
                     {"id": "a", "op": "krich_map", "agg": rng.choice(["sum", "max", "count"]), "in": ["g"]}]
        elif kind in ("gb_fold",):
            nodes.append({"id": "a", "op": kind, "m": m, "agg": agg, "in": [cur]})
        elif kind == "gb_reduce":
            nodes.append({"id": "a", "op": kind, "m": m, "agg": ragg, "in": [cur]})
        else:
            nodes.append({"id": "a", "op": kind, "m": m, "in": [cur]})
        cur = "a"
        if rng.random() < 0.3:
            if keyed:
                nodes.append({"id": "q", "op": "kmap", "f": rng.choice(MAPS), "in": [cur]})
            else:
                nodes.append({"id": "q", "op": "map", "f": rng.choice(MAPS), "in": [cur]})
            cur = "q"
        nodes.append({"id": "k", "op": "sink", "kind": rng.choice(["collect_vec", "collect", "collect_vec_all"]), "in": [cur]})
        out.append({"name": f"agg{i}_{kind}", "prog": {"nodes": nodes}, "sinks": _sinks(nodes)})
    return out


def join_programs(rng, n, keyed_mixed=False):
    """C08: every ship x local x variant, duplicate keys, one-sided keys, an empty side.
    keyed_mixed: only keyed-stream joins whose sides were partitioned by DIFFERENT API calls."""
    out = []
    combos = [(s, l, v) for s in ("hash", "bcast") for l in ("hash", "sortmerge")
              for v in (("inner", "left", "outer") if s == "hash" else ("inner", "left"))]
    for i in range(n):
        ship, local, variant = combos[i % len(combos)]
        shapes = rng.choice([("many", "many"), ("skew", "many"), ("range", "range"), ("empty", "range"),
                             ("range", "empty"), ("single", "skew"), ("one", "many"), ("empty", "empty")])
        nodes = [_src(rng, "l", shapes[0]), _src(rng, "r", shapes[1])]
        a, b = "l", "r"
        if rng.random() < 0.4:
            nodes.append({"id": "lm", "op": rng.choice(["map", "shuffle"]), "f": rng.choice(MAPS), "in": ["l"]}); a = "lm"
        if rng.random() < 0.4:
            nodes.append({"id": "rm", "op": rng.choice(["map", "shuffle"]), "f": rng.choice(MAPS), "in": ["r"]}); b = "rm"
        if keyed_mixed or i % 7 in (5, 6):
            # keyed-stream join: both sides must be partitioned alike, whichever API call partitioned them
            # (group_by, or one of the two-phase group_by_* aggregations)
            mk = rng.choice([2, 3, 5, 11, 17])
            def keyed(side, src):
                kind = rng.choice(["group_by", "gb_count", "gb_fold", "gb_reduce", "gb_sum", "gb_max"]) if i % 7 == 5 \
                    else "group_by"
                if keyed_mixed:
                    kind = rng.choice(["gb_count", "gb_fold", "gb_reduce", "gb_sum", "gb_max"])
                n = {"id": side, "op": kind, "m": mk, "in": [src]}
                if kind == "gb_fold":
                    n["agg"] = rng.choice(AGGS)
                if kind == "gb_reduce":
                    n["agg"] = rng.choice(["sum", "max", "min"])
                return n
            nodes += [keyed("gl", a), {"id": "gr", "op": "group_by", "m": mk, "in": [b]},
                      {"id": "j", "op": "kjoin" if keyed_mixed else rng.choice(["kjoin", "kjoin", "kmerge"]),
                       "variant": rng.choice(["inner", "outer"]), "in": ["gl", "gr"]}]
        else:
            nodes.append({"id": "j", "op": "join", "ship": ship, "local": local, "variant": variant,
                          "ml": rng.choice([1, 2, 3, 5, 7]), "mr": rng.choice([1, 2, 3, 5, 7]), "in": [a, b]})
        nodes.append({"id": "k", "op": "sink", "kind": "collect_vec", "in": ["j"]})
        out.append({"name": f"join{i}_{ship}_{local}_{variant}", "prog": {"nodes": nodes}, "sinks": _sinks(nodes)})
    return out


def fan_programs(rng, n):
    """C09: split / route / merge / zip combined with shuffles (diamonds), per-branch sinks."""
    out = []
    for i in range(n):
        t = i % 7
        nodes = []
        ordered = set()
        if t == 6:      # zip behind blocks with a LIMITED replication requirement (zip must still gather on one replica);
            # the two sides are spread differently over the replicas (contiguous chunks, different filters)
            hi = rng.choice([60, 100, 160])
            lim = rng.choice(["limited:8", "limited:16"])   # not "host": forward n -> fewer-but-several is finding F2
            nodes = [{"id": "a", "op": "src", "kind": "par_range", "lo": 0, "hi": hi},
                     {"id": "b", "op": "src", "kind": "par_range", "lo": 0, "hi": hi},
                     {"id": "af", "op": "filter", "p": rng.choice(["lt50", "odd", "ge5"]), "in": ["a"]},
                     {"id": "bf", "op": "filter", "p": rng.choice(["ge5", "even", "ne3"]), "in": ["b"]},
                     {"id": "ar", "op": "replicate", "repl": lim, "in": ["af"]},
                     {"id": "br", "op": "replicate", "repl": lim, "in": ["bf"]},
                     {"id": "z", "op": "zip", "in": ["ar", "br"]},
                     {"id": "k", "op": "sink", "kind": "collect_count", "in": ["z"]}]
        elif t == 0:      # split n -> per branch sink
            nb = rng.choice([1, 2, 3, 4])
            nodes = [_src(rng, "s"), {"id": "sp", "op": "split", "n": nb, "in": ["s"]}]
            for b in range(nb):
                x = f"sp.{b}"
                if rng.random() < 0.5:
                    nodes.append({"id": f"m{b}", "op": rng.choice(["map", "shuffle", "filter"]), "f": rng.choice(MAPS),
                                  "p": rng.choice(FILTERS), "in": [x]}); x = f"m{b}"
                nodes.append({"id": f"k{b}", "op": "sink", "kind": "collect_vec", "in": [x]})
        elif t == 1:    # route
            preds = rng.sample(FILTERS + ["all", "none"], rng.choice([1, 2, 3, 4]))
            nodes = [_src(rng, "s"), {"id": "rt", "op": "route", "preds": preds, "in": ["s"]}]
            for b in range(len(preds)):
                nodes.append({"id": f"k{b}", "op": "sink", "kind": "collect_vec", "in": [f"rt.{b}"]})
        elif t == 2:    # diamond: split -> two different branches -> merge
            nodes = [_src(rng, "s", "range"), {"id": "sp", "op": "split", "n": 2, "in": ["s"]},
                     {"id": "a", "op": "map", "f": rng.choice(MAPS), "in": ["sp.0"]},
                     {"id": "b0", "op": "shuffle", "in": ["sp.1"]},
                     {"id": "b", "op": "flat_map", "g": rng.choice(FLATS), "in": ["b0"]},
                     {"id": "a1", "op": "shuffle", "in": ["a"]},
                     {"id": "mg", "op": "merge", "in": ["a1", "b"]},
                     {"id": "k", "op": "sink", "kind": "collect_vec", "in": ["mg"]}]
        elif t == 3:    # merge of differently shaped inputs (one possibly empty)
            nodes = [_src(rng, "a", rng.choice(["range", "empty"])), _src(rng, "b", rng.choice(["range", "empty"])),
                     {"id": "a1", "op": "shuffle", "in": ["a"]}, {"id": "b1", "op": "shuffle", "in": ["b"]},
                     {"id": "mg", "op": "merge", "in": ["a1", "b1"]},
                     {"id": "k", "op": "sink", "kind": rng.choice(["collect_vec", "collect_count"]), "in": ["mg"]}]
        elif t == 4:    # zip of two sequential inputs: positional
            la, lb = rng.choice([(0, 5), (8, 8), (12, 3), (1, 30), (40, 37)])
            nodes = [{"id": "a", "op": "src", "kind": "iter", "data": [rng.randrange(0, 90) for _ in range(la)]},
                     {"id": "b", "op": "src", "kind": "iter", "data": [rng.randrange(0, 90) for _ in range(lb)]},
                     {"id": "am", "op": "map", "f": rng.choice(MAPS), "in": ["a"]},
                     {"id": "z", "op": "zip", "in": ["am", "b"]},
                     {"id": "k", "op": "sink", "kind": "collect_vec", "in": ["z"]}]
            ordered = {"k"}
        else:           # zip of parallel inputs: min(|a|,|b|) pairs -> count only
            nodes = [_src(rng, "a", "range"), _src(rng, "b", "range"),
                     {"id": "z", "op": "zip", "in": ["a", "b"]},
                     {"id": "k", "op": "sink", "kind": "collect_count", "in": ["z"]}]
        out.append({"name": f"fan{i}", "prog": {"nodes": nodes}, "sinks": _sinks(nodes, ordered)})
    return out


def _body(rng, kind, prefix, allow_amplify, force=None):
    """A loop body over `$in`; returns (nodes, out ref).  force: an operator kind the body must contain."""
    nodes = []
    cur = "$in"
    ln = rng.choice([1, 2, 3, 4])
    at = rng.randrange(ln)
    for j in range(ln):
        opk = rng.choice(["map", "map_st", "map_st", "filter", "shuffle", "flat", "gbsum", "gbwin"])
        if force and j == at:
            opk = force
        nid = f"{prefix}b{j}"
        if opk == "map":
            nodes.append({"id": nid, "op": "map", "f": rng.choice(MAPS), "in": [cur]})
        elif opk == "map_st":
            nodes.append({"id": nid, "op": "map_st", "f": rng.choice(["add_state", "mix_state"]), "in": [cur]})
        elif opk == "filter":
            nodes.append({"id": nid, "op": "filter", "p": rng.choice(FILTERS), "in": [cur]})
        elif opk == "shuffle":
            nodes.append({"id": nid, "op": "shuffle", "in": [cur]})
        elif opk == "flat":
            g = rng.choice(FLATS) if allow_amplify else rng.choice(["drop_even", "one"])
            nodes.append({"id": nid, "op": "flat_map", "g": g, "in": [cur]})
        elif opk == "gbwin":
            # a count window inside the body (what an iteration leaves in the window must not reach the next
            # one); the aggregate `count` does not depend on the arrival order within a key
            n = rng.choice([2, 3, 4])
            nodes.append({"id": nid + "g", "op": "group_by", "m": rng.choice([1, 2, 3, 5]), "in": [cur]})
            nodes.append({"id": nid + "w", "op": "count_window", "n": n, "s": rng.choice([n, n, 1, 2]),
                          "exact": rng.random() < 0.6, "agg": "count", "in": [nid + "g"]})
            nodes.append({"id": nid, "op": "drop_key", "in": [nid + "w"]})
        else:
            # an aggregation inside the body: group_by_fold + drop_key
            nodes.append({"id": nid + "g", "op": "gb_fold", "m": rng.choice([2, 3]), "agg": rng.choice(["sum", "max"]), "in": [cur]})
            nodes.append({"id": nid, "op": "drop_key", "in": [nid + "g"]})
        cur = nid
    return nodes, cur


def loop_programs(rng, n, nested=True, side=False, force=None):
    """C10 / C11: replay and iterate with varied bodies, bounds and conditions; nested loops; side
    inputs (an outside stream joined / merged / zipped with the loop stream inside the body)."""
    out = []
    for i in range(n):
        kind = rng.choice(["replay", "replay", "iterate"])
        fam = rng.choice([("sum", "sum"), ("max", "max"), ("count", "count")])
        nodes = [{"id": "s", "op": "src", "kind": "par_range", "lo": 0, "hi": rng.choice([0, 1, 6, 15] if not force else [7, 15, 22])}]
        body, bout = _body(rng, kind, "L_", allow_amplify=(kind == "replay"), force=force)
        loop = {"id": "L", "op": kind, "rounds": rng.choice([1, 2, 3, 5]), "init": rng.choice([0, 1, 7]),
                "lfold": fam[0], "gfold": fam[1], "cond": rng.choice(["always", "always", "lt1000", "lt100"]),
                "body": body, "out": bout, "in": ["s"]}
        if side:
            # side input: an outside stream combined with the loop stream inside the body
            sz = rng.choice([0, 1, 4, 12])
            how = rng.choice(["join", "join", "merge", "zip"])
            if how == "zip":
                # zip needs equally replicated inputs: both unlimited; count-insensitive use (gb count)
                nodes.append({"id": "o", "op": "src", "kind": "par_range", "lo": 100, "hi": 100 + sz})
                comb = [{"id": "L_z", "op": "merge", "in": [bout, "o"]}]
            elif how == "merge":
                nodes.append({"id": "o", "op": "src", "kind": "par_range", "lo": 100, "hi": 100 + sz})
                comb = [{"id": "L_z", "op": "merge", "in": [bout, "o"]}]
            else:
                nodes.append({"id": "o", "op": "src", "kind": "par_range", "lo": 0, "hi": sz})
                comb = [{"id": "L_z", "op": "join", "ship": "hash", "local": rng.choice(["hash", "sortmerge"]),
                         "variant": rng.choice(["inner", "left"]), "ml": rng.choice([1, 2, 3]), "mr": rng.choice([1, 2, 3]),
                         "in": [bout, "o"]}]
            loop["body"] = body + comb
            loop["out"] = "L_z"
            loop["side"] = ["o"]
            if kind == "iterate":
                loop["op"] = "replay"   # keep feedback volume bounded with joins in the body
                kind = "replay"
        elif nested and i % 4 == 3:
            # nested loop: the inner loop's final state is mapped back into the outer body stream
            ibody, ibout = _body(rng, "replay", "L_I_", allow_amplify=False)
            # the inner loop ends by its bound OR by its condition (small thresholds: it stops after a
            # different number of rounds in different outer rounds, so a run must not inherit anything -
            # state, round counter - from the previous run of the same loop)
            inner = {"id": "L_I", "op": "replay", "rounds": rng.choice([1, 2, 3, 4, 5]), "init": rng.choice([0, 2]),
                     "lfold": "sum", "gfold": "sum",
                     "cond": rng.choice(["always", "lt10", "lt30", "lt100", "lt30", "lt1000"]),
                     "body": ibody, "out": ibout, "in": [bout]}
            loop["body"] = body + [inner, {"id": "L_x", "op": "map", "f": "id", "in": ["L_I.state"]}]
            loop["out"] = "L_x"
            loop["op"] = "replay"
            kind = "replay"
        elif nested and i % 8 == 1:
            # nested loop whose inner run ends by its CONDITION after a number of rounds that the
            # thresholds spread over 1..bound (state grows by a fixed amount per round): every run of the
            # inner loop must count its rounds from zero and start from its initial state
            nodes[0]["hi"] = rng.choice([3, 6, 15])
            inner = {"id": "L_I", "op": "replay", "rounds": rng.choice([3, 4, 5]), "init": 0,
                     "lfold": "sum", "gfold": "sum", "cond": rng.choice(["lt10", "lt30", "lt100"]),
                     "body": [{"id": "L_I_b0", "op": "map", "f": "mod7", "in": ["$in"]}], "out": "L_I_b0",
                     "in": ["L_o"]}
            loop["body"] = [{"id": "L_o", "op": "map", "f": "id", "in": ["$in"]}, inner,
                            {"id": "L_x", "op": "map", "f": "id", "in": ["L_I.state"]}]
            loop["out"] = "L_x"
            loop["op"] = "replay"
            loop["rounds"] = rng.choice([2, 3])
            loop["cond"] = "always"
            kind = "replay"
        nodes.append(loop)
        nodes.append({"id": "ks", "op": "sink", "kind": "collect_vec", "in": ["L.state"]})
        if kind == "iterate":
            nodes.append({"id": "ko", "op": "sink", "kind": "collect_vec", "in": ["L.out"]})
        out.append({"name": f"loop{i}_{kind}", "prog": {"nodes": nodes}, "sinks": _sinks(nodes)})
    return out


def ordered_programs(rng, n, big=False):
    """C16: single-replica chains of length 1..6; the result must be equal as a sequence."""
    out = []
    for i in range(n):
        ln = rng.choice([0, 1, 17, 100, 1500] if not big else [0, 1, 100, 1500, 3000])
        data = [rng.randrange(0, 1000) for _ in range(ln)]
        nodes = [{"id": "s", "op": "src", "kind": "iter", "data": data}]
        cur = "s"
        for j in range(rng.randint(1, 6)):
            opk = rng.choice(["map", "filter", "flat_map", "replicate", "replicate"])
            nid = f"c{j}"
            if opk == "map":
                nodes.append({"id": nid, "op": "map", "f": rng.choice(MAPS), "in": [cur]})
            elif opk == "filter":
                nodes.append({"id": nid, "op": "filter", "p": rng.choice(FILTERS), "in": [cur]})
            elif opk == "flat_map":
                nodes.append({"id": nid, "op": "flat_map", "g": rng.choice(FLATS), "in": [cur]})
            else:
                nodes.append({"id": nid, "op": "replicate", "repl": "one", "in": [cur]})
            cur = nid
        nodes.append({"id": "k", "op": "sink", "kind": rng.choice(["collect_vec", "collect", "collect_channel"]), "in": [cur]})
        out.append({"name": f"ord{i}", "prog": {"nodes": nodes}, "sinks": _sinks(nodes, {"k"})})
    return out


def window_programs(rng, n):
    """C12 end-to-end: count windows on keyed pipelines with a sequential producer."""
    out = []
    for i in range(n):
        ln = rng.choice([0, 1, 5, 13, 40])
        N = rng.choice([1, 2, 3, 4, 5, 8]); S = rng.randint(1, N)
        nodes = [{"id": "s", "op": "src", "kind": "iter", "data": [rng.randrange(0, 60) for _ in range(ln)]},
                 {"id": "g", "op": rng.choice(["group_by", "key_by"]), "m": rng.choice([1, 2, 3, 5]), "in": ["s"]},
                 {"id": "w", "op": "count_window", "n": N, "s": S, "exact": rng.random() < 0.5,
                  "agg": rng.choice(WAGGS), "in": ["g"]},
                 {"id": "k", "op": "sink", "kind": "collect_vec", "in": ["w"]}]
        out.append({"name": f"win{i}", "prog": {"nodes": nodes}, "sinks": _sinks(nodes)})
    return out
