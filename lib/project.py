"""Projections of recorded traces onto the alphabets of the trace specifications."""
import json
from common import el_str, small


def link_records(trace_iter, results):
    """Events for spec/trace/Link.tla."""
    for e in trace_iter:
        ev = e.get("ev")
        if ev == "job":
            yield {"ev": "job", "id": e["id"]}
        elif ev == "enq":
            yield {"ev": "enq", "link": e["from"] + ">" + e["to"], "el": el_str(e["el"])}
        elif ev == "send":
            yield {"ev": "send", "link": e["from"] + ">" + e["to"], "via": e.get("via", "direct"),
                   "els": [el_str(x) for x in e["els"]]}
        elif ev == "recv":
            els = e.get("els")
            if els is None:
                els = ["?"]
            yield {"ev": "recv", "link": e["from"] + ">" + e["at"], "els": [el_str(x) for x in els]}
        elif ev == "done":
            r = results.get(e["id"], {})
            ok = all(h.get("ok") for h in r.get("hosts", [])) and not r.get("hang")
            yield {"ev": "done", "id": e["id"], "ok": bool(ok)}
        elif ev == "hang":
            yield {"ev": "done", "id": e["id"], "ok": False}


def boundary_records(trace_iter, results):
    """Events for spec/trace/Boundary.tla: probe sequences per (probe id, replica).
    The Start that an IterationLeader uses internally as the receiver of the delta updates is not
    an operator-chain boundary (its link carries bare items, by design): its start_out events are
    dropped; leader blocks are recognised by their `leader` events."""
    buf = []
    leaders = set()
    job = None

    def flush():
        for r in buf:
            if r.get("_b") in leaders:
                continue
            r.pop("_b", None)
            yield r

    for e in trace_iter:
        ev = e.get("ev")
        if ev == "job":
            job = e["id"]
            buf = [{"ev": "job", "id": job}]
            leaders = set()
        elif ev == "leader":
            leaders.add(e["at"].split(".")[0])
        elif ev == "probe":
            el = e["el"]
            buf.append({"ev": "probe", "p": e["id"] + "@" + e["at"], "k": el["k"],
                        "ts": small(el.get("ts", 0))})
        elif ev == "start_out":
            # the boundary between a block's Start and its first operator (hook in Start::next)
            el = e["el"]
            buf.append({"ev": "probe", "p": "START@" + e["at"] + "#" + str(e["th"]), "k": el["k"],
                        "ts": small(el.get("ts", 0)), "_b": e["at"].split(".")[0]})
        elif ev in ("done", "hang"):
            r = results.get(e["id"], {})
            ok = ev == "done" and all(h.get("ok") for h in r.get("hosts", [])) and not r.get("hang")
            yield from flush()
            buf = []
            yield {"ev": "done", "id": e["id"], "ok": bool(ok)}


def routing_records(trace_iter, results, rules_by_job):
    """Events for spec/trace/Routing.tla. rules_by_job: job id -> list of rule dicts
    {probe, kind, m, keyspace, after: [probe ids in the downstream blocks], preds, feedback}.
    The `job` record needs the replica sets and the downstream block ids, which are known only
    after the whole job has been read, so a job's records are buffered."""
    job = None
    buf = []
    cur = {}
    replicas = {}
    probe_block = {}

    def close(th):
        em = cur.pop(th, None)
        if em is not None:
            buf.append(em)

    def flush():
        nonlocal buf, cur, replicas, probe_block
        for th in list(cur):
            close(th)
        rules = []
        for r in rules_by_job.get(job, []):
            to = []
            for a in r["after"]:
                if a in probe_block:
                    to.append(probe_block[a])
            if r["kind"] == "groupby_dest" and not to:
                continue
            rules.append({"probe": r["probe"], "kind": r["kind"], "m": r.get("m", 1),
                          "keyspace": r.get("keyspace", r["probe"]), "to": to,
                          "preds": r.get("preds", []), "feedback": bool(r.get("feedback", False))})
        blocks = [{"b": b, "replicas": [{"h": h, "r": rr} for (h, rr) in sorted(reps)]}
                  for b, reps in sorted(replicas.items())]
        out = [{"ev": "job", "id": job, "blocks": blocks, "rules": rules}]
        rule_probes = {r["probe"] for r in rules if r["kind"] != "groupby_dest"}
        dest_blocks = {r["to"][0] for r in rules if r["kind"] == "groupby_dest"}
        out += [e for e in buf if (e["ev"] == "emit" and e["probe"] in rule_probes)
                or (e["ev"] == "enqd" and e["tb"] in dest_blocks)]
        buf, cur, replicas, probe_block = [], {}, {}, {}
        return out

    for e in trace_iter:
        ev = e.get("ev")
        if ev == "job":
            job = e["id"]
            buf, cur, replicas, probe_block = [], {}, {}, {}
        elif ev == "worker" and e.get("what") == "start":
            b, h, r = (int(x) for x in e["at"].split("."))
            replicas.setdefault(b, set()).add((h, r))
        elif ev == "probe":
            th = e["th"]
            close(th)
            b, h, r = (int(x) for x in e["at"].split("."))
            probe_block.setdefault(e["id"], b)
            el = e["el"]
            v = el.get("v", 0)
            cur[th] = {"ev": "emit", "probe": e["id"], "fb": b, "fh": h, "fr": r, "k": el["k"],
                       "v": small(v) if isinstance(v, int) else 0, "dests": [], "_el": el_str(el)}
        elif ev == "enq":
            el0 = e["el"]
            if el0["k"] in ("I", "T"):
                v0 = el0.get("v")
                key = v0[0] if isinstance(v0, list) and v0 and isinstance(v0[0], int) else (v0 if isinstance(v0, int) else None)
                if key is not None:
                    ep0 = e["to"].split("<")[0]
                    b0, h0, r0 = (int(x) for x in ep0.split("."))
                    buf.append({"ev": "enqd", "probe": "", "tb": b0, "th": h0, "tr": r0, "key": small(key)})
            th = e["th"]
            em = cur.get(th)
            if em is not None and em["_el"] == el_str(e["el"]):
                ep = e["to"].split("<")[0]
                b, h, r = (int(x) for x in ep.split("."))
                em["dests"].append({"b": b, "h": h, "r": r})
        elif ev in ("done", "hang"):
            res = results.get(job, {})
            ok = ev == "done" and all(hh.get("ok") for hh in res.get("hosts", [])) and not res.get("hang")
            for rec in flush():
                rec.pop("_el", None)
                yield rec
            yield {"ev": "done", "id": job, "ok": bool(ok)}


def iter_records(trace_iter, results, progs_by_job, loop_id="L"):
    """Events for spec/trace/IterTrace.tla (top-level loop `loop_id` of each job)."""
    job = None
    lock_ids = {}
    rcount = {}
    body_ids = set()
    for e in trace_iter:
        ev = e.get("ev")
        if ev == "job":
            job = e["id"]
            lock_ids, rcount = {}, {}
            prog = progs_by_job[job]
            loop = next(n for n in prog["nodes"] if n["id"] == loop_id)
            body_ids = {n["id"] for n in loop["body"] if n["op"] == "map_st"}
            yield {"ev": "job", "id": job, "prog": prog, "loop": loop_id}
        elif ev == "probe" and e["id"] in body_ids and e["el"]["k"] == "R":
            key = (e["id"], e["th"])
            rcount[key] = rcount.get(key, 0) + 1
        elif ev == "state_read" and e["id"] in body_ids:
            key = (e["id"], e["th"])
            yield {"ev": "read", "th": e["th"], "round": rcount.get(key, 0) + 1, "state": small(e["state"])}
        elif ev in ("lock", "unlock", "wait_ret"):
            lid = lock_ids.setdefault(e["lock"], len(lock_ids) + 1)
            yield {"ev": ev, "lock": lid, "gen": e["gen"], "want": e.get("want", 0)}
        elif ev == "set_state":
            lid = lock_ids.setdefault(e["lock"], len(lock_ids) + 1)
            st = e["state"]
            yield {"ev": "set_state", "lock": lid, "state": small(st) if isinstance(st, int) else -7}
        elif ev == "leader":
            st = e["state"]
            yield {"ev": "leader", "round": e["round"], "cont": bool(e["cont"]),
                   "state": small(st) if isinstance(st, int) else -7}
        elif ev in ("done", "hang"):
            r = results.get(e["id"], {})
            ok = ev == "done" and all(h.get("ok") for h in r.get("hosts", [])) and not r.get("hang")
            yield {"ev": "done", "id": e["id"], "ok": bool(ok)}


def side_records(trace_iter, results, combine_probe="L_z", side_probe="o"):
    """Events for spec/trace/SideTrace.tla: per replica of the block that combines the loop stream with
    the outside stream (probe `combine_probe` lives there; the outside stream is produced by the block
    of probe `side_probe`, always the RIGHT input in the generated programs)."""
    buf, job = [], None
    cblock, sblock = None, None
    for e in trace_iter:
        ev = e.get("ev")
        if ev == "job":
            job, buf, cblock, sblock = e["id"], [], None, None
        elif ev == "probe":
            b = e["at"].split(".")[0]
            if e["id"] == combine_probe and cblock is None:
                cblock = b
            elif e["id"] == side_probe and sblock is None:
                sblock = b
        elif ev in ("recv", "start_out"):
            buf.append(e)
        elif ev in ("done", "hang"):
            r = results.get(e["id"], {})
            ok = ev == "done" and all(h.get("ok") for h in r.get("hosts", [])) and not r.get("hang")
            yield {"ev": "job", "id": job}
            if cblock is not None and sblock is not None:
                for x in buf:
                    if x["ev"] == "recv":
                        at = x["at"].split("<")[0]
                        if at.split(".")[0] == cblock and x["from"].split(".")[0] == sblock:
                            for el in (x.get("els") or []):
                                if el["k"] in ("I", "T") and isinstance(el.get("v"), int):
                                    yield {"ev": "side", "p": at, "v": small(el["v"])}
                    elif x["at"].split(".")[0] == cblock:
                        el = x["el"]
                        k, v = el["k"], el.get("v")
                        if k in ("I", "T"):
                            if isinstance(v, dict) and "Right" in v:
                                yield {"ev": "out", "p": x["at"], "k": "S", "v": small(v["Right"]) if isinstance(v["Right"], int) else 0}
                            elif isinstance(v, dict) and "Left" in v:
                                yield {"ev": "out", "p": x["at"], "k": "L", "v": 0}
                            elif v == "RightEnd":
                                yield {"ev": "out", "p": x["at"], "k": "SE", "v": 0}
                            elif v == "LeftEnd":
                                yield {"ev": "out", "p": x["at"], "k": "LE", "v": 0}
                        elif k == "R":
                            yield {"ev": "out", "p": x["at"], "k": "FR", "v": 0}
                        elif k == "X":
                            yield {"ev": "out", "p": x["at"], "k": "X", "v": 0}
            yield {"ev": "done", "id": e["id"], "ok": bool(ok)}


BINARY_OPS = ("join", "kjoin", "merge", "kmerge", "zip", "ijoin", "kijoin")


def _walk(nodes, inside=None, defined=None):
    """Yield (node, loop node or None, ids defined in the same body) for all nodes, bodies included."""
    ids = {n["id"] for n in nodes}
    for n in nodes:
        yield n, inside, ids
        if n.get("op") in ("replay", "iterate"):
            yield from _walk(n.get("body", []), n, None)


def _val(x):
    import zlib
    if isinstance(x, bool):
        return int(x)
    if isinstance(x, int):
        return small(x)
    return zlib.crc32(json.dumps(x, sort_keys=True).encode()) % 9973


def binary_records(trace_iter, results, jobs_by_id, stats=None):
    """Events for spec/trace/BinaryConform.tla: for every replica of every two-input block (join, merge, zip) of a
    job, in program order: messages received from the left / right upstream block and what Start handed on."""
    stats = stats if stats is not None else {}
    buf, job, pblock, setups = [], None, {}, {}
    for e in trace_iter:
        ev = e.get("ev")
        if ev == "job":
            job, buf, pblock, setups = e["id"], [], {}, {}
        elif ev == "start_setup":
            setups[e["at"]] = e
        elif ev == "probe":
            pblock.setdefault(e["id"], e["at"].split(".")[0])
        elif ev in ("recv", "start_out"):
            buf.append(e)
        elif ev in ("done", "hang"):
            r = results.get(e["id"], {})
            ok = ev == "done" and all(h.get("ok") for h in r.get("hosts", [])) and not r.get("hang")
            j = jobs_by_id.get(job)
            if j is None:
                continue
            mode = str(j.get("batch", "default"))
            to = mode == "default" or mode.startswith("adaptive")
            for n, loop, ids in _walk(j["prog"]["nodes"]):
                if n.get("op") not in BINARY_OPS or len(n.get("in", [])) != 2:
                    continue
                a, b = (x.split(".")[0] if not x.startswith("$") else x for x in n["in"])
                cb, lb, rb = pblock.get(n["id"]), pblock.get(n["in"][0]) or pblock.get(a), pblock.get(n["in"][1]) or pblock.get(b)
                if cb is None or lb is None or rb is None or lb == rb or cb in (lb, rb):
                    stats["segments_skipped"] = stats.get("segments_skipped", 0) + 1
                    continue
                # a side is cached when the block is in a loop body and that input comes from outside the loop
                cl = loop is not None and n["in"][0] in (loop.get("side") or [])
                cr = loop is not None and n["in"][1] in (loop.get("side") or [])
                per = {}
                bad = False
                for x in buf:
                    if x["ev"] == "recv":
                        at = x["at"].split("<")[0]
                        if at.split(".")[0] != cb:
                            continue
                        fb = x["from"].split(".")[0]
                        if fb not in (lb, rb):
                            bad = True
                            continue
                        els = []
                        for el in (x.get("els") or []):
                            k = el["k"]
                            if k == "I":
                                els.append({"k": "I", "v": _val(el.get("v"))})
                            elif k == "R":
                                els.append({"k": "FR", "v": 0})
                            elif k == "X":
                                els.append({"k": "X", "v": 0})
                            elif k in ("T", "W"):
                                bad = True
                        seg = per.setdefault(at, {"ev": [], "L": set(), "R": set()})
                        side = "L" if fb == lb else "R"
                        seg[side].add(x["from"])
                        seg["ev"].append({"ev": "rl" if side == "L" else "rr", "els": els})
                    elif x["at"].split(".")[0] == cb:
                        el = x["el"]
                        k, v = el["k"], el.get("v")
                        seg = per.setdefault(x["at"], {"ev": [], "L": set(), "R": set()})
                        if k == "I":
                            if isinstance(v, dict) and "Left" in v:
                                seg["ev"].append({"ev": "o", "k": "L", "v": _val(v["Left"])})
                            elif isinstance(v, dict) and "Right" in v:
                                seg["ev"].append({"ev": "o", "k": "R", "v": _val(v["Right"])})
                            elif v == "LeftEnd":
                                seg["ev"].append({"ev": "o", "k": "LE", "v": 0})
                            elif v == "RightEnd":
                                seg["ev"].append({"ev": "o", "k": "RE", "v": 0})
                            else:
                                bad = True
                        elif k == "R":
                            seg["ev"].append({"ev": "o", "k": "FR", "v": 0})
                        elif k == "X":
                            seg["ev"].append({"ev": "o", "k": "X", "v": 0})
                        elif k == "B":
                            seg["ev"].append({"ev": "o", "k": "B", "v": 0})
                        else:
                            bad = True
                if bad:
                    stats["segments_skipped"] = stats.get("segments_skipped", 0) + 1
                    continue
                for p, seg in sorted(per.items()):
                    if not seg["L"] or not seg["R"]:
                        stats["segments_skipped"] = stats.get("segments_skipped", 0) + 1
                        continue
                    yield {"ev": "begin", "job": job, "p": p + "/" + n["id"], "nl": len(seg["L"]), "nr": len(seg["R"]),
                           "cl": bool(cl), "cr": bool(cr), "to": bool(setups.get(p, {}).get("timeouts", to))}
                    yield from seg["ev"]
                    yield {"ev": "done", "ok": bool(ok)}
                    stats["segments"] = stats.get("segments", 0) + 1
                    stats["cached_segments"] = stats.get("cached_segments", 0) + (1 if (cl or cr) else 0)


def _wire_el(el):
    k = el["k"]
    if k == "I":
        return {"k": "I", "v": _val(el.get("v")), "ts": 0}
    if k == "T":
        return {"k": "T", "v": _val(el.get("v")), "ts": small(el.get("ts", 0))}
    if k == "W":
        return {"k": "W", "v": 0, "ts": small(el.get("ts", 0))}
    return {"k": {"R": "FR", "X": "X", "B": "B"}.get(k, k), "v": 0, "ts": 0}


def start_records(trace_iter, results, jobs_by_id, stats=None):
    """Events for spec/trace/StartConform.tla: for every replica whose Start listens to ONE upstream block
    (start_setup hook), in program order: messages received on that endpoint and what Start handed on."""
    stats = stats if stats is not None else {}
    buf, job, setups = [], None, {}
    for e in trace_iter:
        ev = e.get("ev")
        if ev == "job":
            job, buf, setups = e["id"], [], {}
        elif ev == "start_setup":
            setups[e["at"]] = e
        elif ev in ("recv", "start_out"):
            buf.append(e)
        elif ev in ("done", "hang"):
            r = results.get(e["id"], {})
            ok = ev == "done" and all(h.get("ok") for h in r.get("hosts", [])) and not r.get("hang")
            j = jobs_by_id.get(job)
            if j is None:
                continue
            mode = str(j.get("batch", "default"))
            to = mode == "default" or mode.startswith("adaptive")
            simple = {at: s for at, s in setups.items() if len(s["prev_blocks"]) == 1 and s["prev"]}
            per = {at: [] for at in simple}
            for x in buf:
                if x["ev"] == "recv":
                    at, _, pb = x["at"].partition("<")
                    s = simple.get(at)
                    if s is None or str(s["prev_blocks"][0]) != pb:
                        continue
                    per[at].append({"ev": "r", "from": x["from"], "els": [_wire_el(el) for el in (x.get("els") or [])]})
                elif x["at"] in simple:
                    per[x["at"]].append(dict(_wire_el(x["el"]), ev="o"))
            for at in sorted(per):
                if not per[at]:
                    continue
                yield {"ev": "begin", "job": job, "p": at, "senders": simple[at]["prev"],
                       "to": bool(simple[at].get("timeouts", to))}
                yield from per[at]
                yield {"ev": "done", "ok": bool(ok)}
                stats["segments"] = stats.get("segments", 0) + 1
