"""Projections of recorded traces onto the alphabets of the trace specifications."""
import json
from common import el_str, small


def link_records(trace_iter, results):
    """Events for spec/trace/Link.tla."""
    for e in trace_iter:
        ev = e.get("ev")
        if ev == "job":
            yield {"ev": "job", "id": e["id"]}
        elif ev == "enq":
            yield {"ev": "enq", "link": e["from"] + ">" + e["to"], "el": el_str(e["el"])}
        elif ev == "send":
            yield {"ev": "send", "link": e["from"] + ">" + e["to"], "via": e.get("via", "direct"),
                   "els": [el_str(x) for x in e["els"]]}
        elif ev == "recv":
            els = e.get("els")
            if els is None:
                els = ["?"]
            yield {"ev": "recv", "link": e["from"] + ">" + e["at"], "els": [el_str(x) for x in els]}
        elif ev == "done":
            r = results.get(e["id"], {})
            ok = all(h.get("ok") for h in r.get("hosts", [])) and not r.get("hang")
            yield {"ev": "done", "id": e["id"], "ok": bool(ok)}
        elif ev == "hang":
            yield {"ev": "done", "id": e["id"], "ok": False}


def boundary_records(trace_iter, results):
    """Events for spec/trace/Boundary.tla: probe sequences per (probe id, replica)."""
    for e in trace_iter:
        ev = e.get("ev")
        if ev == "job":
            yield {"ev": "job", "id": e["id"]}
        elif ev == "probe":
            el = e["el"]
            yield {"ev": "probe", "p": e["id"] + "@" + e["at"], "k": el["k"],
                   "ts": small(el.get("ts", 0))}
        elif ev == "done":
            r = results.get(e["id"], {})
            ok = all(h.get("ok") for h in r.get("hosts", [])) and not r.get("hang")
            yield {"ev": "done", "id": e["id"], "ok": bool(ok)}
        elif ev == "hang":
            yield {"ev": "done", "id": e["id"], "ok": False}
