"""R for comp/Start.tla: turn a model behaviour into a real job, run it, extract the real history."""
import json
import os

from common import read_trace, small


def el_to_script(el, after):
    k = el["k"]
    d = {"k": k, "after": after}
    if k in ("I", "T"):
        d["v"] = el["v"]
    if k in ("T", "W"):
        d["ts"] = el["ts"]
    return d


def behaviour_to_job(name, beh):
    """beh: {n, h}: the `in` events of h, in order, are the arrival order to enforce."""
    n = beh["n"]
    scripts = [[] for _ in range(n)]
    g = 0
    for ev in beh["h"]:
        if ev["d"] != "in":
            continue
        scripts[ev["p"] - 1].append(el_to_script(ev["el"], g))
        g += 1
    prog = {"nodes": [
        {"id": "s", "op": "src", "kind": "script", "repl": "unlimited", "scripts": scripts},
        {"id": "r", "op": "replicate", "repl": "one", "in": ["s"]},
        {"id": "k", "op": "sink", "kind": "collect_vec", "in": ["r"]},
    ]}
    job = {"id": name, "prog": prog, "cfg": {"mode": "local", "par": n}, "batch": "single",
            "trace": True, "keep": ["recv", "probe"], "gate": {"kind": "count_recv", "from_blocks": [0]},
            "hang_ms": 20000}
    if os.environ.get("VERIF_FORCE_GATE_MS"):   # self-test knob: make the gates time out
        job["gate_timeout_ms"] = int(os.environ["VERIF_FORCE_GATE_MS"])
    return job


def norm_el(el):
    return {"k": el["k"], "v": small(el.get("v", 0)) if isinstance(el.get("v", 0), int) else 0,
            "ts": small(el.get("ts", 0))}


def real_histories(trace_path, probe_id="r", src_block="0"):
    """Yield (job id, interleaved history) for every job of a trace file."""
    cur = None
    h = []
    for e in read_trace(trace_path):
        ev = e.get("ev")
        if ev == "job":
            cur = e["id"]
            h = []
        elif ev == "recv" and e["from"].split(".")[0] == src_block:
            p = int(e["from"].split(".")[2]) + 1
            for el in e["els"]:
                h.append({"d": "in", "p": p, "el": norm_el(el)})
        elif ev == "probe" and e["id"] == probe_id:
            h.append({"d": "out", "p": 0, "el": norm_el(e["el"])})
        elif ev in ("done", "hang"):
            yield cur, h, ev
