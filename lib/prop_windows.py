"""C12 (count windows), C13 (event-time and transaction windows), C14 (processing-time and
session windows).

Pattern (see tools/BUILDER_GUIDE.md): exhaustive model check of the implementation-shaped window
models with the property predicates (spec/comp/WindowProps.tla) as invariants + vacuity guard;
`*_finding.cfg` configs that must STILL fail for the known defects (open: F3, F5; fixed, kept as
regression documentation: F4, F7); behaviour generation with TLC (the quick configs of spec/mc
model check AND print their behaviours in one run; thorough adds spec/gen configs; simulation for
larger constants); every behaviour is executed on the REAL window managers by
harness-win (`vhw run`: directly through WindowDescription::build / WindowManager::process, and
through WindowOperator in a real single-block job); TLC (spec/trace/WindowCheck.tla) evaluates
the predicates on the real outputs.  Python only moves data.

Timing dependent windows (processing time, session) are only ever run under the mock clock."""
import json
import math
import os
import random
import re
import subprocess
import time
from concurrent.futures import ThreadPoolExecutor

from common import (ToolError, log, workdir, seed, tlc_check, require_coverage, SPEC, ROOT, NPROC,
                    split_trace_files)

CRATE = os.environ.get("VERIF_WIN_CRATE") or os.path.join(ROOT, "harness-win")
VHW = os.path.join(CRATE, "target", "debug", "vhw")
# development aid (mutation testing of the checks): skip the model checks, which do not depend on
# /repo, and reuse generated behaviours from work/win/gencache.  Never set in a real run.
FAST = os.environ.get("VERIF_WIN_FAST") == "1"
# quick tier: the TLC runs are short, so JVM start-up dominates their CPU cost; fewer GC threads
# and the C1 compiler only make a short run markedly cheaper (a long run slower: thorough tier
# keeps the JVM defaults)
QUICK_JVM = {"JAVA_TOOL_OPTIONS": "-XX:ParallelGCThreads=2 -XX:TieredStopAtLevel=1"}


# ------------------------------------------------------------------------------------------------
# plumbing

def build_vhw():
    t0 = time.time()
    env = dict(os.environ, CARGO_NET_OFFLINE="true")
    p = subprocess.run(["cargo", "build", "--offline", "--quiet"], cwd=CRATE, env=env,
                       stdout=subprocess.PIPE, stderr=subprocess.STDOUT, text=True)
    if p.returncode != 0 or not os.path.exists(VHW):
        log(p.stdout[-4000:])
        raise ToolError("harness-win build failed (does /repo compile with --features verif?)")
    return time.time() - t0


def cfg_constants(path):
    """The integer / set constants of a TLC config (for evidence and the exhaustiveness count)."""
    txt = open(path).read()
    out = {}
    for m in re.finditer(r"(\w+)\s*=\s*(\{[^}]*\}|\w+)", txt):
        out[m.group(1)] = m.group(2)
    return out


def mc(module, cfg, actions):
    return {"what": "mc", "module": module, "cfg": cfg, "actions": actions}


def mcgen(module, cfg, actions):
    """One TLC run that model checks (invariants + coverage guard) AND prints every complete
    behaviour (EmitReplay): the quick configs of spec/mc do both.  actions = None: used for its
    behaviours only (no coverage instrumentation, cheaper; the invariants are still checked)."""
    return {"what": "mcgen", "module": module, "cfg": cfg, "actions": actions}


def finding(module, cfg, invariant):
    return {"what": "finding", "module": module, "cfg": cfg, "invariant": invariant}


def gen(module, cfg, simulate=None, depth=120):
    return {"what": "gen", "module": module, "cfg": cfg, "simulate": simulate, "depth": depth}


def _gen_cache(j):
    return os.path.join(ROOT, "work", "win", "gencache", f"{j['cfg']}_{j.get('simulate')}_{seed()}.json")


def _run_tlc_job(args):
    j, wd, timeout, jvm = args
    spec = f"{SPEC}/comp/{j['module']}.tla"
    if j["what"] == "gen":
        if FAST and os.path.exists(_gen_cache(j)):
            with open(_gen_cache(j)) as f:
                return {"replays": json.load(f), "cached": True, "ok": True}
        sim = j["simulate"]
        return tlc_check(spec, f"{SPEC}/gen/{j['cfg']}.cfg", wd, j["cfg"], workers=2 if sim else 3, coverage=False,
                         timeout=timeout, xmx="3g", env_extra=jvm, simulate=f"num={sim}" if sim else None,
                         extra=["-depth", str(j["depth"]), "-seed", str(seed())] if sim else None)
    if j["what"] == "mcgen" and FAST and os.path.exists(_gen_cache(j)):
        with open(_gen_cache(j)) as f:
            return {"replays": json.load(f), "cached": True, "ok": True}
    if FAST and j["what"] != "mcgen":
        return None
    return tlc_check(spec, f"{SPEC}/mc/{j['cfg']}.cfg", wd, j["cfg"], coverage=j.get("actions") is not None,
                     workers=2 if j["what"] == "finding" else (3 if jvm else 5), timeout=timeout,
                     xmx="3g" if jvm else "6g", env_extra=jvm)


def run_tlc(V, wd, jobs, timeout=1500):
    """Run the model checks, the finding configs and the behaviour generation (independent TLC runs,
    at most six at a time) and account for them.  Returns {cfg: behaviours}."""
    t0 = time.time()
    jvm = QUICK_JVM if V.tier == "quick" else None
    with ThreadPoolExecutor(max_workers=6) as ex:
        results = list(ex.map(_run_tlc_job, [(j, wd, timeout, jvm) for j in jobs]))
    V.coverage.setdefault("phase_s", {})["tlc_model_and_generation"] = round(time.time() - t0, 1)
    behs = {}
    for j, r in zip(jobs, results):
        cfg = j["cfg"]
        if r is None:
            continue
        if j["what"] == "mcgen" and r.get("cached"):
            behs[cfg] = r["replays"]
            continue
        if j["what"] in ("mc", "mcgen"):
            if not r["ok"]:
                tail = "\n".join(l for l in r["out"].splitlines() if "MODELVIOL" in l)[:1500]
                raise ToolError(f"model check {cfg}: invariant {r['invariant_violated']} fails on the MODEL; "
                                f"reproduce on the code before blaming it (DESIGN.md 2.6)\n{tail}")
            if j["actions"] is not None:
                require_coverage(r, j["actions"], cfg)
            V.add_model(r, cfg)
            V.coverage.setdefault("constants", {})[cfg] = cfg_constants(f"{SPEC}/mc/{cfg}.cfg")
            if j["what"] == "mcgen":
                if not r["replays"]:
                    raise ToolError(f"{cfg} produced no behaviour")
                V.coverage.setdefault("behaviours_generated", {})[cfg] = len(r["replays"])
                if FAST:
                    os.makedirs(os.path.dirname(_gen_cache(j)), exist_ok=True)
                    with open(_gen_cache(j), "w") as f:
                        json.dump(r["replays"], f)
                behs[cfg] = r["replays"]
        elif j["what"] == "finding":
            # a carve-out must not silently widen: the finding config must still give the counterexample
            still = r["invariant_violated"] == j["invariant"]
            V.coverage.setdefault("finding_configs_still_fail", {})[cfg] = still
            V.add_model(r, cfg)
            if not still:
                raise ToolError(f"{cfg}: the model no longer shows the known defect ({j['invariant']} holds): "
                                "the model or the carve-out of the main config changed")
        else:
            if not j["simulate"] and not r["ok"]:
                raise ToolError(f"behaviour generation {cfg} failed")
            if not r["replays"]:
                raise ToolError(f"behaviour generation {cfg} produced no behaviour")
            if not j["simulate"] and not r.get("cached"):
                V.coverage["states"] += r.get("distinct", 0)
                V.coverage["transitions"] += r.get("states", 0)
            V.coverage.setdefault("behaviours_generated", {})[cfg] = len(r["replays"])
            V.coverage.setdefault("constants", {})[cfg] = cfg_constants(f"{SPEC}/gen/{cfg}.cfg")
            if FAST and not r.get("cached"):
                os.makedirs(os.path.dirname(_gen_cache(j)), exist_ok=True)
                with open(_gen_cache(j), "w") as f:
                    json.dump(r["replays"], f)
            behs[cfg] = r["replays"]
    return behs


def keys_of(b):
    return sorted({e["key"] for e in b["input"] if e["k"] in ("I", "T")})


def make_cases(tag, behs, paths):
    """One case per (behaviour, path). `direct` drives one manager, so it needs a single key."""
    cases = []
    for i, b in enumerate(behs):
        ks = keys_of(b)
        for path in paths:
            if path == "direct" and len(ks) > 1:
                continue
            cases.append({"id": f"{tag}{i}{path[0]}", "kind": b["kind"], "p": b["p"], "path": path,
                          "input": b["input"], "outm": b["outm"]})
    return cases


AGGS = ("first", "last", "min", "max", "count")


def agg_cases(tag, behs):
    """Count-window behaviours run through WindowOperator with the library aggregators
    (first / last / min / max / count) instead of the collecting fold: C12 'every aggregator is
    applied to exactly the group's elements'.  No model prediction (outm) for these."""
    cases = []
    for i, b in enumerate(behs):
        agg = AGGS[i % len(AGGS)]
        cases.append({"id": f"{tag}{i}{agg}", "kind": "count", "p": dict(b["p"], agg=agg), "path": "keyed",
                      "input": b["input"], "outm": None})
    return cases


def run_vhw(cases, wd, nproc=4, timeout=600):
    from common import tscale
    timeout = tscale(timeout)
    nproc = max(1, min(nproc, len(cases) // 200 + 1))
    chunks = [cases[i::nproc] for i in range(nproc)]

    def one(i):
        cp, op = os.path.join(wd, f"cases_{i}.ndjson"), os.path.join(wd, f"real_{i}.ndjson")
        with open(cp, "w") as f:
            for c in chunks[i]:
                f.write(json.dumps({k: c[k] for k in ("id", "kind", "p", "path", "input")}) + "\n")
        try:
            p = subprocess.run([VHW, "run", cp, op], stdout=subprocess.PIPE, stderr=subprocess.PIPE,
                               text=True, timeout=timeout)
        except subprocess.TimeoutExpired:
            raise ToolError(f"vhw exceeded {timeout}s on {cp}")
        if p.returncode != 0:
            raise ToolError(f"vhw failed with status {p.returncode}: {p.stderr[-2000:]}")
        res = {}
        with open(op) as f:
            for line in f:
                if line.strip():
                    r = json.loads(line)
                    res[r["id"]] = r
        return res

    results = {}
    with ThreadPoolExecutor(max_workers=nproc) as ex:
        for res in ex.map(one, range(nproc)):
            results.update(res)
    return results


def validate(files, wd, nproc, jvm, timeout=900):
    """common.validate_parallel with JVM options for the quick tier."""
    from common import tlc_trace
    viols, consumed, states, infos = [], 0, 0, []

    def one(i_f):
        return tlc_trace("WindowCheck", i_f[1], wd, f"WindowCheck_{i_f[0]}", timeout=timeout, env_extra=jvm)

    with ThreadPoolExecutor(max_workers=max(1, min(nproc, len(files) or 1))) as ex:
        for v, c, st, inf in ex.map(one, list(enumerate(files))):
            viols.extend(v)
            consumed += c
            states += st["states"]
            infos.extend(inf)
    return viols, consumed, states, infos


def judge(V, wd, cases, results, only_prop=None, nchunks=None):
    """TLC evaluates the WindowProps predicates on the real outputs of every case.  Records of
    another property (the C06 by-product in C12-C14; everything but C06 in C06_windows) are
    counted in the evidence, not reported."""
    only_prop = only_prop or V.prop
    nchunks = nchunks or (4 if V.tier == "quick" else NPROC)
    t0 = time.time()
    recs = []
    by_id = {}
    for c in cases:
        r = results.get(c["id"])
        if r is None:
            raise ToolError(f"vhw returned nothing for case {c['id']}")
        by_id[c["id"]] = c
        if r.get("panic") is not None:
            V.add_violation({"prop": only_prop, "kind": "panic", "window": c["kind"], "path": c["path"],
                             "job": c["id"], "panic": str(r["panic"])[:300]},
                            replay={"case": c})
            continue
        if len(r["out"]) != len(c["input"]):
            raise ToolError(f"vhw output of {c['id']} has {len(r['out'])} steps for {len(c['input'])} inputs")
        rec = {"ev": "case", "id": c["id"], "kind": c["kind"], "path": c["path"], "p": c["p"],
               "input": c["input"], "out": r["out"]}
        if c.get("outm") is not None:
            rec["outm"] = c["outm"]
        recs.append(rec)
        recs.append({"ev": "done", "id": c["id"]})
    ncases = len(recs) // 2
    per = max(200, 2 * math.ceil(ncases / max(1, nchunks)))
    files = split_trace_files(recs, wd, "wincheck", max_events=per)
    viols, consumed, states, infos = validate(files, wd, nchunks, QUICK_JVM if V.tier == "quick" else None)
    V.coverage.setdefault("phase_s", {})["tlc_judging_real_outputs"] = round(time.time() - t0, 1)
    if consumed != len(recs):
        raise ToolError(f"WindowCheck consumed {consumed} of {len(recs)} records")
    V.coverage["states"] += states
    V.coverage["transitions"] += states
    V.coverage["traces_validated_against_impl"] += ncases
    cnt = V.coverage.setdefault("cases_run_on_real_code", {})
    for c in cases:
        k = f"{c['kind']}/{c['path']}" + ("/aggregators" if c["p"].get("agg") else "")
        cnt[k] = cnt.get(k, 0) + 1
    if infos:
        V.drift.append(f"{len(infos)} of {ncases} replayed window behaviours differ from the model "
                       f"(first: case {infos[0].get('drift')} window {infos[0].get('window')} p {infos[0].get('p')})")
        V.coverage["drift_example"] = infos[0]
    V.coverage["drift_cases"] = V.coverage.get("drift_cases", 0) + len(infos)
    other = V.coverage.setdefault("records_of_other_properties", {})
    for v in viols:
        if v.get("prop") != only_prop:
            k = f"{v.get('prop')}/{v.get('kind')}/{v.get('cause')}"
            other[k] = other.get(k, 0) + 1
            continue
        c = by_id.get(v.get("job"))
        V.add_violation(v, replay={"case": {k: c[k] for k in ("id", "kind", "p", "path", "input")} if c else None,
                                   "real": v.get("extra", {}).get("out")})
    if recs:
        V.sample({"case": recs[0]["id"], "window": recs[0]["kind"], "p": recs[0]["p"],
                  "input": [f"{e['k']}{e['v'] if e['k'] in 'IT' else ''}" for e in recs[0]["input"]],
                  "real_out": recs[0]["out"]})
    return ncases


def sample(rng, xs, n):
    xs = list(xs)
    if len(xs) <= n:
        return xs
    rng.shuffle(xs)
    return xs[:n]


# ------------------------------------------------------------------------------------------------

def C12(V, tier):
    wd = workdir("C12")
    V.coverage["build_win_s"] = round(build_vhw(), 1)
    rng = random.Random(seed())
    quick = tier == "quick"
    acts = ["Feed", "EndIter", "Term"]
    # quick: model check and generation in ONE run per config; the single-key configs are replayed
    # completely on the real manager (finite spaces, stated in the evidence)
    full = ["CountWindow_quick", "CountWindow_quick2"]
    jobs = [mcgen("CountWindow", c, acts) for c in full + ["CountWindow_keyed_quick"]]
    jobs += [gen("CountWindow", "CountWindow_gen_sim", simulate=50 if quick else 1500)]
    if not quick:
        jobs += [mc("CountWindow", c, acts) for c in
                 ("CountWindow_thorough", "CountWindow_keyed_thorough", "CountWindow_keyed2_thorough")]
        jobs += [gen("CountWindow", "CountWindow_gen_thorough"), gen("CountWindow", "CountWindow_gen_timed")]
        full.append("CountWindow_gen_thorough")
    b = run_tlc(V, wd, jobs)
    cases, spaces = [], []
    for i, cfg in enumerate(full):
        cases += make_cases(f"c{i}_", b[cfg], ["direct"])
        k = cfg_constants(f"{SPEC}/{'gen' if 'gen' in cfg else 'mc'}/{cfg}.cfg")
        nmax, lmax, iters = int(k["NMAX"]), int(k["LMAX"]), int(k["ITERS"])
        spaces.append({"config": cfg, "N<=": nmax, "S": "1..N", "len": f"0..{lmax} per iteration",
                       "iterations": iters, "modes": ["exact", "non-exact"],
                       "cases_expected": (nmax * (nmax + 1) // 2) * 2 * (lmax + 1) ** iters,
                       "cases_generated": len(b[cfg])})
    # keyed interleavings through WindowOperator (real single-block jobs), library aggregators
    kb = b["CountWindow_keyed_quick"]
    single = [x for cfg in full for x in b[cfg]]
    cases += make_cases("k", kb if not quick else sample(rng, kb, 500), ["keyed"])
    cases += make_cases("s", sample(rng, single, 150 if quick else 2000), ["keyed"])
    if not quick:
        cases += make_cases("t", b["CountWindow_gen_timed"], ["direct", "keyed"])
    cases += make_cases("r", b["CountWindow_gen_sim"], ["keyed"])
    cases += agg_cases("a", sample(rng, kb + single, 300 if quick else 5000) + b["CountWindow_gen_sim"])
    results = run_vhw(cases, wd)
    judge(V, wd, cases, results)
    ok = True
    for i, sp in enumerate(spaces):
        sp["cases_run"] = sum(1 for c in cases if c["id"].startswith(f"c{i}_")
                              and results.get(c["id"], {}).get("panic") is None)
        ok = ok and sp["cases_expected"] == sp["cases_generated"] == sp["cases_run"]
    V.coverage["exhaustive_spaces"] = spaces
    V.coverage["exhaustive"] = ok
    V.assumptions += ["the collecting accumulator exposes exactly the elements a result was computed from",
                      "direct path drives one manager the way WindowOperator drives the manager of one key",
                      "`exhaustive` refers to the (N, S, mode, lengths) spaces listed in exhaustive_spaces"]


def C13(V, tier):
    wd = workdir("C13")
    V.coverage["build_win_s"] = round(build_vhw(), 1)
    rng = random.Random(seed())
    quick = tier == "quick"
    acts = ["Feed", "Wm", "EndIter", "Term"]
    jobs = [mcgen("EventTimeWindow", "EventTimeWindow_quick", acts),
            mcgen("TransactionWindow", "TransactionWindow_quick", acts),
            mcgen("TransactionWindow", "TransactionWindow_quick2", ["Feed", "EndIter", "Term"]),
            # F3 (open): C13_All excuses exactly the loss of elements fed below the anchor; the
            # unexcused predicate must still fail
            finding("EventTimeWindow", "EventTimeWindow_finding", "C13_Lost"),
            gen("EventTimeWindow", "EventTimeWindow_gen_sim", simulate=150 if quick else 2000),
            gen("TransactionWindow", "TransactionWindow_gen_sim", simulate=50 if quick else 1500)]
    if not quick:
        # F7 (fixed): the model of the code before the fix must still show the defect (regression
        # documentation); two keys in the model (quick: keyed only on the real code, via simulation)
        jobs += [finding("TransactionWindow", "TransactionWindow_finding", "C13_TxnQuiet"),
                 mcgen("EventTimeWindow", "EventTimeWindow_keyed_quick", acts)]
        jobs += [mc("EventTimeWindow", c, acts) for c in
                 ("EventTimeWindow_thorough", "EventTimeWindow_thorough2", "EventTimeWindow_keyed_thorough")]
        jobs += [mc("TransactionWindow", c, acts) for c in
                 ("TransactionWindow_thorough", "TransactionWindow_thorough2", "TransactionWindow_keyed_thorough")]
        jobs += [gen("EventTimeWindow", "EventTimeWindow_gen_thorough"),
                 gen("TransactionWindow", "TransactionWindow_gen_thorough")]
    b = run_tlc(V, wd, jobs)
    cases = []
    eb = b["EventTimeWindow_quick"]
    cases += make_cases("e", eb if not quick else sample(rng, eb, 1800), ["direct"])
    cases += make_cases("f", sample(rng, eb, 150 if quick else 3000), ["keyed"])
    if not quick:
        cases += make_cases("k", b["EventTimeWindow_keyed_quick"], ["keyed"])
    cases += make_cases("r", b["EventTimeWindow_gen_sim"], ["keyed"])
    tb = b["TransactionWindow_quick"]
    cases += make_cases("t", tb if not quick else sample(rng, tb, 1000), ["direct"])
    cases += make_cases("u", sample(rng, tb, 100 if quick else 2000), ["keyed"])
    t2 = b["TransactionWindow_quick2"]
    cases += make_cases("v", t2 if not quick else sample(rng, t2, 500), ["direct"])
    cases += make_cases("x", sample(rng, t2, 100 if quick else 961), ["keyed"])
    cases += make_cases("w", b["TransactionWindow_gen_sim"], ["keyed"])
    if not quick:
        cases += make_cases("g", b["EventTimeWindow_gen_thorough"], ["direct"])
        cases += make_cases("h", b["TransactionWindow_gen_thorough"], ["direct"])
    results = run_vhw(cases, wd)
    judge(V, wd, cases, results)
    V.assumptions += ["inputs respect the watermark contract (timestamp > last watermark); late elements are not generated",
                      "the cause `element_before_anchor` of a lost element is computed with the model of the unchanged "
                      "allocation algorithm (comp/EventTimeWindow.tla), the verdict itself is not"]


def C14(V, tier):
    wd = workdir("C14")
    V.coverage["build_win_s"] = round(build_vhw(), 1)
    rng = random.Random(seed())
    quick = tier == "quick"
    a3, a4 = ["Feed", "EndIter", "Term"], ["Feed", "Wm", "EndIter", "Term"]
    jobs = []
    for m in ("ProcTimeWindow", "SessionWindow"):
        jobs += [mcgen(m, f"{m}_quick", a3), mcgen(m, f"{m}_quick2", a3),
                 gen(m, f"{m}_gen_sim", simulate=60 if quick else 2000)]
    if not quick:
        for m in ("ProcTimeWindow", "SessionWindow"):
            jobs += [mc(m, f"{m}_wm_thorough", a4), mc(m, f"{m}_thorough", a3), mc(m, f"{m}_thorough2", a4),
                     gen(m, f"{m}_gen_thorough")]
    b = run_tlc(V, wd, jobs)
    cases = []
    for m, tag in (("ProcTimeWindow", "p"), ("SessionWindow", "s")):
        b1 = b[f"{m}_quick"]
        cases += make_cases(tag + "a", b1 if not quick else sample(rng, b1, 1500), ["direct"])
        cases += make_cases(tag + "b", sample(rng, b1, 150 if quick else 3000), ["keyed"])
        b2 = b[f"{m}_quick2"]
        cases += make_cases(tag + "c", b2 if not quick else sample(rng, b2, 400), ["keyed"])
        cases += make_cases(tag + "d", b[f"{m}_gen_sim"], ["keyed"])
        if not quick:
            cases += make_cases(tag + "e", b[f"{m}_gen_thorough"], ["direct"])
    results = run_vhw(cases, wd)
    judge(V, wd, cases, results)
    V.assumptions += ["wall-clock windows are judged under the mock clock only (renoir::verif::set_mock_clock, "
                      "1 tick = 10 ms): TLC's integer tick patterns are replayed tick for tick",
                      "the real Instant::now() path is not exercised by this check"]


def C06_windows(V, tier):
    """For the owner of C06: watermark safety at the output of the window operators (WindowCheck's
    prop "C06" records; only those are reported).  On the current tree: finding F5 (count, non
    exact, open); F4 (event time) is fixed - EventTimeWindow_finding_c06 documents the regression."""
    wd = workdir("C06win")
    build_vhw()
    quick = tier == "quick"
    jobs = [mcgen("EventTimeWindow", "EventTimeWindow_c06_quick", ["Feed", "Wm", "EndIter", "Term"]),
            finding("CountWindow", "CountWindow_finding", "C06_LateResult"),     # F5, open
            gen("CountWindow", "CountWindow_gen_timed")]
    if not quick:
        jobs += [finding("EventTimeWindow", "EventTimeWindow_finding_c06", "C06_LateResult"),  # F4, fixed
                 gen("EventTimeWindow", "EventTimeWindow_gen_sim", simulate=1500)]
    b = run_tlc(V, wd, jobs)
    rng = random.Random(seed())
    eb = b["EventTimeWindow_c06_quick"]
    cases = make_cases("e", eb if not quick else sample(rng, eb, 700), ["direct"])
    cases += make_cases("f", sample(rng, eb, 150 if quick else 2000), ["keyed"])
    cases += make_cases("t", b["CountWindow_gen_timed"], ["direct", "keyed"])
    if not quick:
        cases += make_cases("r", b["EventTimeWindow_gen_sim"], ["keyed"])
    judge(V, wd, cases, run_vhw(cases, wd), only_prop="C06", nchunks=2 if quick else None)


# ------------------------------------------------------------------------------------------------
# C05 at the window operators (called from the C05 check)

def _iterations(inp):
    """[(first index, index of the FlushAndRestart)] of every completed iteration (0-based)."""
    its, a = [], 0
    for i, e in enumerate(inp):
        if e["k"] == "R":
            its.append((a, i))
            a = i + 1
    return its


def _c05_cases(tag, behs, paths):
    """Multi-iteration cases plus, per iteration i >= 2, the same iteration ALONE for a fresh
    instance (the metamorphic oracle of `carry_over`).  The direct path drives one manager, so a
    behaviour with several keys is projected key by key (its data + every control element)."""
    term = None
    cases, solos = [], {}
    for i, b in enumerate(behs):
        its = _iterations(b["input"])
        if len(its) < 2:
            continue
        term = term or next(e for e in b["input"] if e["k"] == "X")
        for path in paths:
            variants = [("", b["input"])]
            ks = keys_of(b)
            if path == "direct":
                variants = [(f"_{k}", [e for e in b["input"] if e["k"] not in ("I", "T") or e["key"] == k])
                            for k in ks] if len(ks) > 1 else variants
            for suffix, inp in variants:
                cid = f"{tag}{i}{path[0]}{suffix}"
                cases.append({"id": cid, "kind": b["kind"], "p": b["p"], "path": path, "input": inp})
                solos[cid] = []
                for n, (a, r) in enumerate(_iterations(inp)):
                    if n == 0:
                        continue
                    sid = f"{cid}#{n + 1}"
                    last = dict(term, tick=inp[r].get("tick", 0))
                    cases.append({"id": sid, "kind": b["kind"], "p": b["p"], "path": path,
                                  "input": inp[a:r + 1] + [last]})
                    solos[cid].append((n + 1, sid))
    return cases, solos


def C05_windows(V, tier):
    """C05 'the stateful operators output all results of an iteration before forwarding its
    FlushAndRestart and carry nothing over into the next iteration', at the five window managers
    (direct path) and at WindowOperator (keyed path, probe order).  TLC (WindowCheck, ev "c05")
    judges the real outputs: output_after_restart, carry_over (iteration i of the full run = the
    same real component on iteration i alone, plus the WindowProps verdicts that a result mixes
    iterations).  Only prop "C05" records are reported; F3 / F5 are no carry-over."""
    wd = workdir("C05win")
    build_vhw()
    quick = tier == "quick"
    rng = random.Random(seed())
    a3, a4 = ["Feed", "EndIter", "Term"], ["Feed", "Wm", "EndIter", "Term"]
    # 2 iterations, leftovers pending at the end of an iteration by construction: count lengths not
    # aligned to size/slide, open event-time slots (no watermark), transactions with and without
    # commit time, wall-clock slots / sessions still open under the mock clock
    jobs = [mcgen("CountWindow", "CountWindow_keyed_quick", None),
            mcgen("EventTimeWindow", "EventTimeWindow_iter_quick", None),
            mcgen("TransactionWindow", "TransactionWindow_quick2", None),
            mcgen("ProcTimeWindow", "ProcTimeWindow_quick2", None),
            mcgen("SessionWindow", "SessionWindow_quick2", None),
            # event time with watermarks in every iteration (a slot left over from iteration i is
            # fired by a watermark of iteration i+1): sampled from larger constants
            gen("EventTimeWindow", "EventTimeWindow_gen_sim", simulate=100 if quick else 600)]
    if not quick:
        # 2-3 iterations, two or three keys, watermarks, larger constants
        jobs += [gen(m, f"{m}_gen_sim", simulate=600) for m in
                 ("CountWindow", "TransactionWindow", "ProcTimeWindow", "SessionWindow")]
        jobs += [mcgen("CountWindow", "CountWindow_quick2", None)]
    b = run_tlc(V, wd, jobs)
    cases, solos = [], {}
    n = 150 if quick else 3000
    for tag, cfg in (("c", "CountWindow_keyed_quick"), ("e", "EventTimeWindow_iter_quick"),
                     ("t", "TransactionWindow_quick2"), ("p", "ProcTimeWindow_quick2"),
                     ("s", "SessionWindow_quick2"), ("E", "EventTimeWindow_gen_sim")):
        multi = [x for x in b[cfg] if len(_iterations(x["input"])) >= 2 and keys_of(x)]
        c, s = _c05_cases(tag, sample(rng, multi, n), ["direct", "keyed"])
        cases += c
        solos.update(s)
    if not quick:
        for tag, cfg in (("C", "CountWindow_gen_sim"),
                         ("T", "TransactionWindow_gen_sim"), ("P", "ProcTimeWindow_gen_sim"),
                         ("S", "SessionWindow_gen_sim"), ("D", "CountWindow_quick2")):
            c, s = _c05_cases(tag, b[cfg], ["direct", "keyed"])
            cases += c
            solos.update(s)
    results = run_vhw(cases, wd)
    by_id = {c["id"]: c for c in cases}
    recs = []
    for cid, sl in solos.items():
        c, r = by_id[cid], results[cid]
        srs = [(it, results[sid]) for it, sid in sl]
        if r.get("panic") is not None:
            alone_ok = all(x.get("panic") is None for _, x in srs)
            V.add_violation({"prop": "C05", "kind": "carry_over" if alone_ok else "panic", "cause": "panic",
                             "window": c["kind"], "path": c["path"], "job": cid, "panic": str(r["panic"])[:300]},
                            replay={"case": c})
            continue
        if any(x.get("panic") is not None for _, x in srs):
            V.add_violation({"prop": "C05", "kind": "panic", "cause": "panic_on_iteration_alone",
                             "window": c["kind"], "path": c["path"], "job": cid}, replay={"case": c})
            continue
        recs.append({"ev": "c05", "id": cid, "kind": c["kind"], "path": c["path"], "p": c["p"],
                     "input": c["input"], "out": r["out"],
                     "solo": [{"it": it, "out": x["out"]} for it, x in srs]})
        recs.append({"ev": "done", "id": cid})
    ncases = len(recs) // 2
    nchunks = 3 if quick else NPROC
    t0 = time.time()
    files = split_trace_files(recs, wd, "c05check", max_events=max(200, 2 * math.ceil(ncases / nchunks)))
    viols, consumed, states, infos = validate(files, wd, nchunks, QUICK_JVM if quick else None)
    V.coverage.setdefault("phase_s", {})["tlc_judging_real_outputs"] = round(time.time() - t0, 1)
    if consumed != len(recs):
        raise ToolError(f"WindowCheck consumed {consumed} of {len(recs)} records")
    V.coverage["states"] += states
    V.coverage["transitions"] += states
    V.coverage["traces_validated_against_impl"] += ncases
    cnt = V.coverage.setdefault("window_iteration_cases", {})
    for cid in solos:
        k = f"{by_id[cid]['kind']}/{by_id[cid]['path']}"
        cnt[k] = cnt.get(k, 0) + 1
    V.coverage["window_runs_on_iteration_alone"] = sum(len(v) for v in solos.values())
    for v in viols:
        if v.get("prop") != "C05":
            continue
        c = by_id.get(v.get("job"))
        V.add_violation(v, replay={"case": c, "real": v.get("extra", {}).get("out"),
                                   "alone": v.get("extra", {}).get("solo")})
    if recs:
        V.sample({"window_case": recs[0]["id"], "window": recs[0]["kind"], "iterations_alone": len(recs[0]["solo"])})
