"""C12 (count windows), C13 (event-time and transaction windows), C14 (processing-time and
session windows).

Pattern (see tools/BUILDER_GUIDE.md): exhaustive model check of the implementation-shaped window
models with the property predicates (spec/comp/WindowProps.tla) as invariants + vacuity guard;
`*_finding.cfg` configs that must STILL fail for the known defects; behaviour generation with TLC
(exhaustive small scope + simulation); every behaviour is executed on the REAL window managers by
harness-win (`vhw run`: directly through WindowDescription::build / WindowManager::process, and
through WindowOperator in a real single-block job); TLC (spec/trace/WindowCheck.tla) evaluates
the predicates on the real outputs.  Python only moves data.

Timing dependent windows (processing time, session) are only ever run under the mock clock."""
import json
import math
import os
import random
import re
import subprocess
import time
from concurrent.futures import ThreadPoolExecutor

from common import (ToolError, log, workdir, seed, tlc_check, require_coverage, SPEC, ROOT, NPROC,
                    split_trace_files, validate_parallel)

CRATE = os.environ.get("VERIF_WIN_CRATE") or os.path.join(ROOT, "harness-win")
VHW = os.path.join(CRATE, "target", "debug", "vhw")
# development aid (mutation testing of the checks): skip the model checks, which do not depend on
# /repo, and reuse generated behaviours from work/win/gencache.  Never set in a real run.
FAST = os.environ.get("VERIF_WIN_FAST") == "1"


# ------------------------------------------------------------------------------------------------
# plumbing

def build_vhw():
    t0 = time.time()
    env = dict(os.environ, CARGO_NET_OFFLINE="true")
    p = subprocess.run(["cargo", "build", "--offline", "--quiet"], cwd=CRATE, env=env,
                       stdout=subprocess.PIPE, stderr=subprocess.STDOUT, text=True)
    if p.returncode != 0 or not os.path.exists(VHW):
        log(p.stdout[-4000:])
        raise ToolError("harness-win build failed (does /repo compile with --features verif?)")
    return time.time() - t0


def cfg_constants(path):
    """The integer / set constants of a TLC config (for evidence and the exhaustiveness count)."""
    txt = open(path).read()
    out = {}
    for m in re.finditer(r"(\w+)\s*=\s*(\{[^}]*\}|\w+)", txt):
        out[m.group(1)] = m.group(2)
    return out


def extra_known(V):
    """Development aid: VERIF_WIN_KNOWN=<file> adds proposed findings to the known list."""
    p = os.environ.get("VERIF_WIN_KNOWN")
    if p and os.path.exists(p):
        with open(p) as f:
            V.known = list(V.known) + json.load(f).get("findings", [])


def mc(module, cfg, actions):
    return {"what": "mc", "module": module, "cfg": cfg, "actions": actions}


def finding(module, cfg, invariant):
    return {"what": "finding", "module": module, "cfg": cfg, "invariant": invariant}


def gen(module, cfg, simulate=None, depth=120):
    return {"what": "gen", "module": module, "cfg": cfg, "simulate": simulate, "depth": depth}


def _gen_cache(j):
    return os.path.join(ROOT, "work", "win", "gencache", f"{j['cfg']}_{j['simulate']}_{seed()}.json")


def _run_tlc_job(args):
    j, wd, timeout = args
    spec = f"{SPEC}/comp/{j['module']}.tla"
    if j["what"] == "gen":
        if FAST and os.path.exists(_gen_cache(j)):
            with open(_gen_cache(j)) as f:
                return {"replays": json.load(f), "cached": True, "ok": True}
        sim = j["simulate"]
        return tlc_check(spec, f"{SPEC}/gen/{j['cfg']}.cfg", wd, j["cfg"], workers=4, coverage=False,
                         timeout=timeout, xmx="3g", simulate=f"num={sim}" if sim else None,
                         extra=["-depth", str(j["depth"]), "-seed", str(seed())] if sim else None)
    if FAST:
        return None
    return tlc_check(spec, f"{SPEC}/mc/{j['cfg']}.cfg", wd, j["cfg"], workers=4, timeout=timeout, xmx="3g")


def run_tlc(V, wd, jobs, timeout=1500):
    """Run the model checks, the finding configs and the behaviour generation (independent TLC runs,
    four at a time) and account for them.  Returns {gen cfg: behaviours}."""
    with ThreadPoolExecutor(max_workers=4) as ex:
        results = list(ex.map(_run_tlc_job, [(j, wd, timeout) for j in jobs]))
    behs = {}
    for j, r in zip(jobs, results):
        cfg = j["cfg"]
        if r is None:
            continue
        if j["what"] == "mc":
            if not r["ok"]:
                tail = "\n".join(l for l in r["out"].splitlines() if "MODELVIOL" in l)[:1500]
                raise ToolError(f"model check {cfg}: invariant {r['invariant_violated']} fails on the MODEL; "
                                f"reproduce on the code before blaming it (DESIGN.md 2.6)\n{tail}")
            require_coverage(r, j["actions"], cfg)
            V.add_model(r, cfg)
            V.coverage.setdefault("constants", {})[cfg] = cfg_constants(f"{SPEC}/mc/{cfg}.cfg")
        elif j["what"] == "finding":
            # a carve-out must not silently widen: the finding config must still give the counterexample
            still = r["invariant_violated"] == j["invariant"]
            V.coverage.setdefault("finding_configs_still_fail", {})[cfg] = still
            V.add_model(r, cfg)
            if not still:
                raise ToolError(f"{cfg}: the model no longer shows the known defect ({j['invariant']} holds): "
                                "the model or the carve-out of the main config changed")
        else:
            if not j["simulate"] and not r["ok"]:
                raise ToolError(f"behaviour generation {cfg} failed")
            if not r["replays"]:
                raise ToolError(f"behaviour generation {cfg} produced no behaviour")
            if not j["simulate"] and not r.get("cached"):
                V.coverage["states"] += r.get("distinct", 0)
                V.coverage["transitions"] += r.get("states", 0)
            V.coverage.setdefault("behaviours_generated", {})[cfg] = len(r["replays"])
            V.coverage.setdefault("constants", {})[cfg] = cfg_constants(f"{SPEC}/gen/{cfg}.cfg")
            if FAST and not r.get("cached"):
                os.makedirs(os.path.dirname(_gen_cache(j)), exist_ok=True)
                with open(_gen_cache(j), "w") as f:
                    json.dump(r["replays"], f)
            behs[cfg] = r["replays"]
    return behs


def keys_of(b):
    return sorted({e["key"] for e in b["input"] if e["k"] in ("I", "T")})


def make_cases(tag, behs, paths):
    """One case per (behaviour, path). `direct` drives one manager, so it needs a single key."""
    cases = []
    for i, b in enumerate(behs):
        ks = keys_of(b)
        for path in paths:
            if path == "direct" and len(ks) > 1:
                continue
            cases.append({"id": f"{tag}{i}{path[0]}", "kind": b["kind"], "p": b["p"], "path": path,
                          "input": b["input"], "outm": b["outm"]})
    return cases


AGGS = ("first", "last", "min", "max", "count")


def agg_cases(tag, behs):
    """Count-window behaviours run through WindowOperator with the library aggregators
    (first / last / min / max / count) instead of the collecting fold: C12 'every aggregator is
    applied to exactly the group's elements'.  No model prediction (outm) for these."""
    cases = []
    for i, b in enumerate(behs):
        agg = AGGS[i % len(AGGS)]
        cases.append({"id": f"{tag}{i}{agg}", "kind": "count", "p": dict(b["p"], agg=agg), "path": "keyed",
                      "input": b["input"], "outm": None})
    return cases


def run_vhw(cases, wd, nproc=4, timeout=600):
    nproc = max(1, min(nproc, len(cases) // 200 + 1))
    chunks = [cases[i::nproc] for i in range(nproc)]

    def one(i):
        cp, op = os.path.join(wd, f"cases_{i}.ndjson"), os.path.join(wd, f"real_{i}.ndjson")
        with open(cp, "w") as f:
            for c in chunks[i]:
                f.write(json.dumps({k: c[k] for k in ("id", "kind", "p", "path", "input")}) + "\n")
        try:
            p = subprocess.run([VHW, "run", cp, op], stdout=subprocess.PIPE, stderr=subprocess.PIPE,
                               text=True, timeout=timeout)
        except subprocess.TimeoutExpired:
            raise ToolError(f"vhw exceeded {timeout}s on {cp}")
        if p.returncode != 0:
            raise ToolError(f"vhw failed with status {p.returncode}: {p.stderr[-2000:]}")
        res = {}
        with open(op) as f:
            for line in f:
                if line.strip():
                    r = json.loads(line)
                    res[r["id"]] = r
        return res

    results = {}
    with ThreadPoolExecutor(max_workers=nproc) as ex:
        for res in ex.map(one, range(nproc)):
            results.update(res)
    return results


def judge(V, wd, cases, results):
    """TLC evaluates the WindowProps predicates on the real outputs of every case."""
    recs = []
    by_id = {}
    for c in cases:
        r = results.get(c["id"])
        if r is None:
            raise ToolError(f"vhw returned nothing for case {c['id']}")
        by_id[c["id"]] = c
        if r.get("panic") is not None:
            V.add_violation({"prop": V.prop, "kind": "panic", "window": c["kind"], "path": c["path"],
                             "job": c["id"], "panic": str(r["panic"])[:300]},
                            replay={"case": c})
            continue
        if len(r["out"]) != len(c["input"]):
            raise ToolError(f"vhw output of {c['id']} has {len(r['out'])} steps for {len(c['input'])} inputs")
        rec = {"ev": "case", "id": c["id"], "kind": c["kind"], "path": c["path"], "p": c["p"],
               "input": c["input"], "out": r["out"]}
        if c.get("outm") is not None:
            rec["outm"] = c["outm"]
        recs.append(rec)
        recs.append({"ev": "done", "id": c["id"]})
    ncases = len(recs) // 2
    per = max(200, 2 * math.ceil(ncases / max(1, NPROC)))
    files = split_trace_files(recs, wd, "wincheck", max_events=per)
    viols, consumed, states, infos = validate_parallel("WindowCheck", files, wd, timeout=900)
    if consumed != len(recs):
        raise ToolError(f"WindowCheck consumed {consumed} of {len(recs)} records")
    V.coverage["states"] += states
    V.coverage["transitions"] += states
    V.coverage["traces_validated_against_impl"] += ncases
    cnt = V.coverage.setdefault("cases_run_on_real_code", {})
    for c in cases:
        k = f"{c['kind']}/{c['path']}" + ("/aggregators" if c["p"].get("agg") else "")
        cnt[k] = cnt.get(k, 0) + 1
    if infos:
        V.drift.append(f"{len(infos)} of {ncases} replayed window behaviours differ from the model "
                       f"(first: case {infos[0].get('drift')} window {infos[0].get('window')} p {infos[0].get('p')})")
        V.coverage["drift_example"] = infos[0]
    V.coverage["drift_cases"] = V.coverage.get("drift_cases", 0) + len(infos)
    for v in viols:
        c = by_id.get(v.get("job"))
        V.add_violation(v, replay={"case": {k: c[k] for k in ("id", "kind", "p", "path", "input")} if c else None,
                                   "real": v.get("extra", {}).get("out")})
    if recs:
        V.sample({"case": recs[0]["id"], "window": recs[0]["kind"], "p": recs[0]["p"],
                  "input": [f"{e['k']}{e['v'] if e['k'] in 'IT' else ''}" for e in recs[0]["input"]],
                  "real_out": recs[0]["out"]})
    return ncases


def sample(rng, xs, n):
    xs = list(xs)
    if len(xs) <= n:
        return xs
    rng.shuffle(xs)
    return xs[:n]


# ------------------------------------------------------------------------------------------------

def C12(V, tier):
    wd = workdir("C12")
    extra_known(V)
    V.coverage["build_win_s"] = round(build_vhw(), 1)
    rng = random.Random(seed())
    quick = tier == "quick"
    acts = ["Feed", "EndIter", "Term"]
    gen_cfg = "CountWindow_gen" if quick else "CountWindow_gen_thorough"
    jobs = [mc("CountWindow", "CountWindow_quick", acts), mc("CountWindow", "CountWindow_keyed_quick", acts)]
    if not quick:
        jobs += [mc("CountWindow", c, acts) for c in
                 ("CountWindow_thorough", "CountWindow_keyed_thorough", "CountWindow_keyed2_thorough")]
    jobs += [gen("CountWindow", gen_cfg), gen("CountWindow", "CountWindow_gen_keyed"),
             gen("CountWindow", "CountWindow_gen_timed"),
             gen("CountWindow", "CountWindow_gen_sim", simulate=100 if quick else 3000)]
    b = run_tlc(V, wd, jobs)
    # R: the whole finite space (N, S, mode, len1, len2) on the real manager
    behs = b[gen_cfg]
    k = cfg_constants(f"{SPEC}/gen/{gen_cfg}.cfg")
    nmax, lmax, iters = int(k["NMAX"]), int(k["LMAX"]), int(k["ITERS"])
    expected = (nmax * (nmax + 1) // 2) * 2 * (lmax + 1) ** iters
    cases = make_cases("c", behs, ["direct"])
    # keyed interleavings through WindowOperator (real single-block jobs); timed inputs with watermarks
    kb = b["CountWindow_gen_keyed"]
    cases += make_cases("k", kb if not quick else sample(rng, kb, 800), ["keyed"])
    cases += make_cases("s", sample(rng, behs, 200 if quick else 2000), ["keyed"])
    cases += make_cases("t", b["CountWindow_gen_timed"], ["direct", "keyed"])
    cases += make_cases("r", b["CountWindow_gen_sim"], ["keyed"])
    cases += agg_cases("a", sample(rng, kb + behs, 500 if quick else 5000) + b["CountWindow_gen_sim"])
    results = run_vhw(cases, wd)
    judge(V, wd, cases, results)
    direct_done = sum(1 for c in cases if c["id"].startswith("c") and results.get(c["id"], {}).get("panic") is None)
    V.coverage["exhaustive_space"] = {"N<=": nmax, "S<=N": True, "len<=": lmax, "iterations": iters,
                                      "modes": 2, "cases_expected": expected, "cases_run": direct_done}
    V.coverage["exhaustive"] = (len(behs) == expected and direct_done == expected)
    V.assumptions += ["the collecting accumulator exposes exactly the elements a result was computed from",
                      "direct path drives one manager the way WindowOperator drives the manager of one key"]


def C13(V, tier):
    wd = workdir("C13")
    extra_known(V)
    V.coverage["build_win_s"] = round(build_vhw(), 1)
    rng = random.Random(seed())
    quick = tier == "quick"
    acts = ["Feed", "Wm", "EndIter", "Term"]
    ev_gen = "EventTimeWindow_gen" if quick else "EventTimeWindow_gen_thorough"
    jobs = [mc("EventTimeWindow", "EventTimeWindow_quick", acts),
            mc("EventTimeWindow", "EventTimeWindow_keyed_quick", acts),
            mc("TransactionWindow", "TransactionWindow_quick", acts),
            mc("TransactionWindow", "TransactionWindow_quick2", ["Feed", "EndIter", "Term"]),
            # F3 / F7: the main configs exclude exactly their input classes; these must still fail
            finding("EventTimeWindow", "EventTimeWindow_finding", "C13_Lost"),
            finding("TransactionWindow", "TransactionWindow_finding", "C13_TxnQuiet")]
    if not quick:
        jobs += [mc("EventTimeWindow", c, acts) for c in
                 ("EventTimeWindow_thorough", "EventTimeWindow_thorough2", "EventTimeWindow_keyed_thorough")]
        jobs += [mc("TransactionWindow", c, acts) for c in
                 ("TransactionWindow_thorough", "TransactionWindow_thorough2", "TransactionWindow_keyed_thorough")]
        jobs += [gen("EventTimeWindow", "EventTimeWindow_gen_keyed")]
    jobs += [gen("EventTimeWindow", ev_gen),
             gen("EventTimeWindow", "EventTimeWindow_gen_sim", simulate=150 if quick else 4000),
             gen("TransactionWindow", "TransactionWindow_gen"), gen("TransactionWindow", "TransactionWindow_gen2"),
             gen("TransactionWindow", "TransactionWindow_gen_sim", simulate=100 if quick else 3000)]
    b = run_tlc(V, wd, jobs)
    cases = []
    eb = b[ev_gen]
    cases += make_cases("e", eb if not quick else sample(rng, eb, 3000), ["direct"])
    cases += make_cases("f", sample(rng, eb, 300 if quick else 3000), ["keyed"])
    if not quick:
        cases += make_cases("k", b["EventTimeWindow_gen_keyed"], ["keyed"])
    cases += make_cases("r", b["EventTimeWindow_gen_sim"], ["keyed"])
    tb = b["TransactionWindow_gen"]
    cases += make_cases("t", tb if not quick else sample(rng, tb, 1500), ["direct"])
    cases += make_cases("u", sample(rng, tb, 200 if quick else 2000), ["keyed"])
    cases += make_cases("v", b["TransactionWindow_gen2"], ["direct", "keyed"] if not quick else ["direct"])
    cases += make_cases("w", b["TransactionWindow_gen_sim"], ["keyed"])
    results = run_vhw(cases, wd)
    judge(V, wd, cases, results)
    V.assumptions += ["inputs respect the watermark contract (timestamp > last watermark); late elements are not generated",
                      "the cause `element_before_anchor` of a lost element is computed with the model of the unchanged "
                      "allocation algorithm (comp/EventTimeWindow.tla), the verdict itself is not"]


def C14(V, tier):
    wd = workdir("C14")
    extra_known(V)
    V.coverage["build_win_s"] = round(build_vhw(), 1)
    rng = random.Random(seed())
    quick = tier == "quick"
    a3, a4 = ["Feed", "EndIter", "Term"], ["Feed", "Wm", "EndIter", "Term"]
    jobs = []
    for m in ("ProcTimeWindow", "SessionWindow"):
        jobs += [mc(m, f"{m}_quick", a3), mc(m, f"{m}_quick2", a3), mc(m, f"{m}_quick3", a4)]
    if not quick:
        jobs += [mc("ProcTimeWindow", "ProcTimeWindow_thorough", a3), mc("ProcTimeWindow", "ProcTimeWindow_thorough2", a4),
                 mc("SessionWindow", "SessionWindow_thorough", a3), mc("SessionWindow", "SessionWindow_thorough2", a4)]
    for m in ("ProcTimeWindow", "SessionWindow"):
        jobs += [gen(m, f"{m}_gen" if quick else f"{m}_gen_thorough"), gen(m, f"{m}_gen2"),
                 gen(m, f"{m}_gen_sim", simulate=150 if quick else 4000)]
    b = run_tlc(V, wd, jobs)
    cases = []
    for m, tag in (("ProcTimeWindow", "p"), ("SessionWindow", "s")):
        b1 = b[f"{m}_gen" if quick else f"{m}_gen_thorough"]
        cases += make_cases(tag + "a", b1, ["direct"])
        cases += make_cases(tag + "b", sample(rng, b1, 300 if quick else 3000), ["keyed"])
        b2 = b[f"{m}_gen2"]
        cases += make_cases(tag + "c", b2 if not quick else sample(rng, b2, 600), ["keyed"])
        cases += make_cases(tag + "d", b[f"{m}_gen_sim"], ["keyed"])
    results = run_vhw(cases, wd)
    judge(V, wd, cases, results)
    V.assumptions += ["wall-clock windows are judged under the mock clock only (renoir::verif::set_mock_clock, "
                      "1 tick = 10 ms): TLC's integer tick patterns are replayed tick for tick",
                      "the real Instant::now() path is not exercised by this check"]


def C06_windows(V, tier):
    """By-product for the owner of C06: watermark safety at the output of the window operators
    (WindowCheck emits prop "C06" records; with V.prop == "C06" they count).  Expected on the
    unchanged tree: findings F4 (event time) and F5 (count, non exact)."""
    wd = workdir("C06win")
    extra_known(V)
    build_vhw()
    b = run_tlc(V, wd, [finding("EventTimeWindow", "EventTimeWindow_finding_c06", "C06_LateResult"),
                        finding("CountWindow", "CountWindow_finding", "C06_LateResult"),
                        gen("EventTimeWindow", "EventTimeWindow_gen"), gen("CountWindow", "CountWindow_gen_timed"),
                        gen("EventTimeWindow", "EventTimeWindow_gen_sim", simulate=300 if tier == "quick" else 3000)])
    rng = random.Random(seed())
    cases = make_cases("e", sample(rng, b["EventTimeWindow_gen"], 3000), ["direct", "keyed"])
    cases += make_cases("t", b["CountWindow_gen_timed"], ["direct", "keyed"])
    cases += make_cases("r", b["EventTimeWindow_gen_sim"], ["keyed"])
    judge(V, wd, cases, run_vhw(cases, wd))
