"""Running a suite of generated programs under a configuration matrix and judging the runs with
the trace specifications (T) and the denotational oracle (D)."""
import json
import os
import random

from common import (ToolError, log, read_trace, run_jobs, split_trace_files, validate_parallel,
                    seed)
import project

STREAM_OUTPUT_SINKS = {"collect_vec", "collect", "collect_count", "collect_vec_all", "collect_all"}


def make_jobs(programs, configs, trace=True, perturb_us=0, keep=None, base_seed=0, hang_ms=15000):
    """programs: list of dicts {name, prog, sinks, prop?}; configs: list of (cfg, batch)."""
    jobs = []
    for pi, p in enumerate(programs):
        for ci, (cfg, batch) in enumerate(configs(p) if callable(configs) else configs):
            jid = f"{p['name']}#{ci}"
            j = {"id": jid, "prog": p["prog"], "cfg": cfg, "batch": batch, "trace": trace,
                 "seed": base_seed * 1000003 + pi * 101 + ci, "perturb_us": perturb_us,
                 "hang_ms": hang_ms}
            if keep is not None:
                j["keep"] = keep
            for k in ("gate", "crash", "probes", "perturb_every"):
                if k in p:
                    j[k] = p[k]
            jobs.append(j)
    return jobs


def sink_results(result, sinks_meta):
    """Merge the per-host sink reports of one job. Returns (list of sink dicts, problems).
    collect_vec/collect/collect_count gather on one replica: exactly one host publishes.
    collect_vec_all/collect_all replicate the full result on every host: every host publishes and
    every copy is compared on its own. collect_channel / for_each deliver where the sink replicas
    run: the union over the hosts is compared."""
    problems = []
    per_sink = {}
    nhosts = result.get("nhosts", 1)
    for h in result.get("hosts", []):
        for s in h.get("sinks", []):
            per_sink.setdefault(s["id"], []).append((h.get("host"), s["kind"], s["res"]))
    out = []
    for sid, meta in sinks_meta.items():
        reports = per_sink.get(sid, [])
        kind = meta["kind"]
        published = [r for r in reports if r[2] is not None]
        if kind in ("collect_vec_all", "collect_all"):
            if len(published) != nhosts:
                problems.append(("C04", "sink_missing", sid))
            for host, _, r in published:
                out.append({"id": sid, "kind": kind, "res": r, "ordered": bool(meta.get("ordered")),
                            "host": host})
            continue
        res = []
        for _, _, r in published:
            res.extend(r)
        if kind in STREAM_OUTPUT_SINKS:
            if not published:
                problems.append(("C04", "sink_missing", sid))
            if len(published) > 1:
                problems.append(("C04", "sink_twice", sid))
        out.append({"id": sid, "kind": kind, "res": res, "ordered": bool(meta.get("ordered")),
                    "host": -1})
    return out, problems


def hang_class(job):
    """Input class of a hung job, used ONLY to match the open finding F9 (bounded feedback cycle of iterate):
    an iterate loop under tiny batches whose body amplifies, or whose body shuffles between >= 2 replicas."""
    batch = str(job.get("batch", "default"))
    parts = batch.split(":")
    tiny = parts[0] == "single" or (parts[0] in ("fixed", "adaptive") and len(parts) > 1 and int(parts[1]) <= 3)
    cfg = job.get("cfg", {})
    par = cfg.get("par", 1) if cfg.get("mode") == "local" else sum(cfg.get("hosts", [1]))

    def loops(nodes):
        for n in nodes:
            if n.get("op") in ("iterate", "replay"):
                yield n
                yield from loops(n.get("body", []))
    for lp in loops(job.get("prog", {}).get("nodes", [])):
        if lp["op"] != "iterate" or not tiny:
            continue
        body = lp.get("body", [])
        if any(n.get("op") == "flat_map" and n.get("g") in ("dup", "range3") for n in body):
            return "iterate_amplifying_body_single_element_batches"
        if par >= 2 and any(n.get("op") in ("shuffle", "group_by", "gb_fold", "join") for n in body):
            return "iterate_shuffle_body_several_replicas_small_batches"
    return "other"


def job_ok(r):
    return (not r.get("hang")) and all(h.get("ok") for h in r.get("hosts", [])) \
        and not any(h.get("build_panic") for h in r.get("hosts", []))


def run_suite(V, wd, programs, configs, prop, checks=("link", "boundary", "result"), trace=True,
              perturb_us=0, timeout=900, expect_panic=False, hang_ms=15000, nproc=None):
    """Run all programs x configs; validate traces; compare results. Violations go to V."""
    by_name = {p["name"]: p for p in programs}
    keep = None
    if trace:
        keep = ["enq", "send", "recv", "probe", "start_out", "start_setup", "worker", "exec_start", "exec_end", "lock", "unlock",
                "wait_ret", "set_state", "barrier", "leader", "state_read", "cond"]
    jobs = make_jobs(programs, configs, trace=trace, perturb_us=perturb_us, keep=keep,
                     base_seed=seed(), hang_ms=hang_ms)
    results, traces = run_jobs(jobs, wd, timeout=timeout, nproc=nproc)
    jobs_by_id = {j["id"]: j for j in jobs}
    stats = {"jobs": len(jobs), "hung": 0, "panicked": 0, "events": 0}
    if prop == "C04":
        V.coverage["jobs_checked_for_leaked_threads"] = V.coverage.get("jobs_checked_for_leaked_threads", 0) + \
            sum(1 for r in results.values() if "threads_leaked" in r)

    # -- termination and panics (C04 and, for every property, "the engine must not crash")
    for jid, r in results.items():
        stats["events"] += r.get("events", 0)
        j = jobs_by_id[jid]
        if r.get("hang"):
            stats["hung"] += 1
            V.add_violation({"prop": "C04", "kind": "job_hang", "job": jid, "class": hang_class(j),
                             "batch": j["batch"], "cfg": j["cfg"]}, replay=j)
            if prop != "C04":
                if hang_class(j) == "other":
                    V.add_violation({"prop": prop, "kind": "job_hang", "job": jid, "class": "other"}, replay=j)
                else:
                    # the open finding F9 (a C04 defect) hit a job of another property's suite: that job says
                    # nothing about this property; it is counted, not judged
                    V.coverage["jobs_lost_to_F9"] = V.coverage.get("jobs_lost_to_F9", 0) + 1
        elif prop == "C04" and r.get("threads_leaked", 0) > 0 and job_ok(r):
            # "all worker and network threads exit": the process had more threads 3 s after the job than before it
            V.add_violation({"prop": "C04", "kind": "thread_leak", "job": jid, "threads": r["threads_leaked"],
                             "cfg": j["cfg"], "batch": j["batch"]}, replay=j)
        elif not job_ok(r) and not expect_panic:
            stats["panicked"] += 1
            V.add_violation({"prop": prop, "kind": "job_panic", "job": jid,
                             "panics": r.get("panics", [])[:3], "cfg": j["cfg"], "batch": j["batch"]},
                            replay=j)

    # -- D: results against SeqSemantics
    nres = 0
    if "result" in checks or "sinks" in checks:
        recs = []
        for jid, r in results.items():
            if not job_ok(r):
                continue
            p = by_name[jid.split("#")[0]]
            sinks, problems = sink_results(r, p["sinks"])
            for (pp, kind, sid) in problems:
                V.add_violation({"prop": pp, "kind": kind, "job": jid, "sink": sid},
                                replay=jobs_by_id[jid])
                if pp != prop:
                    V.add_violation({"prop": prop, "kind": kind, "job": jid, "sink": sid},
                                    replay=jobs_by_id[jid])
            if "result" in checks:
                recs.append({"ev": "run", "id": jid, "prop": p.get("prop", prop), "prog": p["prog"],
                             "sinks": sinks})
                recs.append({"ev": "done", "id": jid})
        files = split_trace_files(recs, wd, "jr", max_events=400)
        if files:
            viols, consumed, states, _ = validate_parallel("JobResult", files, wd)
            nres = len(recs) // 2
            V.coverage["states"] += states
            V.coverage["transitions"] += states
            for v in viols:
                V.add_violation(v, replay=jobs_by_id.get(v.get("job")))
        stats["results_compared"] = nres

    # -- T: traces against Link / Boundary
    nevents = 0
    if trace:
        for name, proj in (("link", ("Link", project.link_records)),
                           ("boundary", ("Boundary", project.boundary_records))):
            if name not in checks:
                continue
            spec, fn = proj
            recs = []
            for ti, t in enumerate(traces):
                recs += list(fn(read_trace(t), results))
            nevents += len(recs)
            # chunks of bounded size, cut at job boundaries, spread over the TLC processes
            per = max(4000, min(40000, len(recs) // 12 + 1))
            files = split_trace_files(recs, wd, f"{spec}", max_events=per)
            if files:
                viols, consumed, states, _ = validate_parallel(spec, files, wd)
                V.coverage["states"] += states
                V.coverage["transitions"] += states
                for v in viols:
                    V.add_violation(v, replay=jobs_by_id.get(v.get("job")))
        stats["trace_events_validated"] = nevents
        # -- T (conformance): every block head replayed through comp/StartCore.tla / comp/BinaryStart.tla
        if "conform" in checks:
            wdc = os.path.join(wd, "conform")
            os.makedirs(wdc, exist_ok=True)
            start_conform(V, wdc, traces, results, jobs_by_id)
            binary_conform(V, wdc, traces, results, jobs_by_id)
    V.coverage["traces_validated_against_impl"] += len(results)
    for k, v in stats.items():
        V.coverage[k] = V.coverage.get(k, 0) + v
    return results, traces, jobs_by_id


def binary_conform(V, wd, traces, results, jobs_by_id):
    """T (conformance): receive / start_out events of every replica of every two-input block of the traced jobs,
    replayed through comp/BinaryStart.tla (trace/BinaryConform.tla).  A mismatch is DRIFT, not a verdict."""
    from common import read_trace, split_trace_files, validate_parallel
    import project
    stats = {}
    recs = []
    for t in traces:
        recs += list(project.binary_records(read_trace(t), results, jobs_by_id, stats))
    if not recs:
        V.coverage["binary_start_segments"] = 0
        return
    files = split_trace_files(recs, wd, "binconf", max_events=20000)
    _, consumed, states, infos = validate_parallel("BinaryConform", files, wd)
    drifts = [i for i in infos if i.get("drift") == "binary_start"]
    V.coverage["states"] += states
    V.coverage["transitions"] += states
    V.coverage["binary_start_segments"] = V.coverage.get("binary_start_segments", 0) + stats.get("segments", 0)
    V.coverage["binary_start_cached_segments"] = V.coverage.get("binary_start_cached_segments", 0) + stats.get("cached_segments", 0)
    V.coverage["binary_start_segments_skipped"] = V.coverage.get("binary_start_segments_skipped", 0) + stats.get("segments_skipped", 0)
    V.coverage["binary_start_events"] = V.coverage.get("binary_start_events", 0) + len(recs)
    V.coverage["binary_start_drift"] = V.coverage.get("binary_start_drift", 0) + len(drifts)
    for d in drifts[:5]:
        V.drift.append(f"BinaryStart: replica {d['p']} of job {d['job']}: the specification expected '{d['expected']}', "
                       f"the code did {json.dumps(d['got'])[:120]} (event {d['index']})")
    return drifts


def start_conform(V, wd, traces, results, jobs_by_id):
    """T (conformance): receive / start_out events of every replica with a single-input Start, replayed through
    comp/StartCore.tla (trace/StartConform.tla).  A mismatch is DRIFT, not a verdict."""
    from common import read_trace, split_trace_files, validate_parallel
    import project
    stats = {}
    recs = []
    for t in traces:
        recs += list(project.start_records(read_trace(t), results, jobs_by_id, stats))
    if not recs:
        V.coverage["start_segments"] = V.coverage.get("start_segments", 0)
        return []
    files = split_trace_files(recs, wd, "startconf", max_events=20000)
    _, consumed, states, infos = validate_parallel("StartConform", files, wd)
    drifts = [i for i in infos if i.get("drift") == "start"]
    V.coverage["states"] += states
    V.coverage["transitions"] += states
    V.coverage["start_segments"] = V.coverage.get("start_segments", 0) + stats.get("segments", 0)
    V.coverage["start_events"] = V.coverage.get("start_events", 0) + len(recs)
    V.coverage["start_conform_drift"] = V.coverage.get("start_conform_drift", 0) + len(drifts)
    for d in drifts[:5]:
        V.drift.append(f"Start: replica {d['p']} of job {d['job']}: the specification expected '{d['expected']}', "
                       f"the code did {json.dumps(d['got'])[:120]} (event {d['index']})")
    return drifts


