"""One function per property: what the check explores at each tier."""
import json
import os
import random

from common import (ToolError, log, workdir, seed, tlc_check, require_coverage, SPEC)
import gen
import jobsuite


def _programs(n, seed0, prop, **kw):
    progs = []
    for i in range(n):
        prog, sinks = gen.gen_program(seed0 * 7919 + i, **kw)
        progs.append({"name": f"p{i}", "prog": prog, "sinks": sinks, "prop": prop})
    return progs


def C01(V, tier):
    wd = workdir("C01")
    rng = random.Random(seed())
    n = 60 if tier == "quick" else 600
    progs = _programs(n, seed(), "C01", max_ops=5 if tier == "quick" else 8)
    matrix = gen.config_matrix(rng, n_local=2, n_remote=1, n_batch=2) if tier == "quick" else \
        gen.config_matrix(rng, n_local=3, n_remote=3, n_batch=3)
    jobsuite.run_suite(V, wd, progs, matrix, "C01", perturb_us=200)
    V.sample({"program": progs[0]["prog"], "configs": matrix[:2]})
    V.coverage["programs"] = len(progs)
    V.coverage["configs"] = [f"{json.dumps(c)} {b}" for c, b in matrix]


def replay(pid, path, V):
    with open(path) as f:
        data = json.load(f)
    print(json.dumps(data, indent=1)[:4000])
    return 0
