"""One function per property: what the check explores at each tier."""
import json
import os
import random

from common import (ToolError, log, workdir, seed, tlc_check, require_coverage, SPEC)
import gen
import jobsuite


def _programs(n, seed0, prop, **kw):
    progs = []
    for i in range(n):
        prog, sinks = gen.gen_program(seed0 * 7919 + i, **kw)
        progs.append({"name": f"p{i}", "prog": prog, "sinks": sinks, "prop": prop})
    return progs


def runtime_models(V, wd, names, coverage=False, timeout=2400):
    """Model check templates of sys/Runtime.tla (deadlock, termination, marker counters, sink = meaning)."""
    for name in names:
        tpl, cfg = name
        r = tlc_check(f"{SPEC}/mc/MC_RT_{tpl}.tla", f"{SPEC}/mc/MC_RT_{cfg}.cfg", wd, f"rt_{cfg}", workers=10,
                      timeout=timeout, coverage=coverage)
        if not r["ok"]:
            raise ToolError(f"Runtime template {cfg}: {r['invariant_violated']} fails on the MODEL")
        if coverage:
            require_coverage(r, ["SourcePull", "Pull", "Send", "Finished"], f"Runtime {cfg}")
        V.add_model(r, f"Runtime/{cfg}")


def C01(V, tier):
    wd = workdir("C01")
    if tier == "quick":
        runtime_models(V, wd, [("twophase", "twophase_quick"), ("group", "group_quick")])
    else:
        runtime_models(V, wd, [("twophase", "twophase"), ("group", "group"), ("pipe", "pipe_quick"),
                               ("diamond", "diamond_quick")], coverage=True)
    rng = random.Random(seed())
    n = 60 if tier == "quick" else 600
    progs = _programs(n, seed(), "C01", max_ops=5 if tier == "quick" else 8)
    # the umbrella property also runs a slice of every focused family (keyed joins across different
    # partitioning calls, aggregations, fan-out/in, loops)
    k = 8 if tier == "quick" else 70
    fam = gen.join_programs(rng, k) + gen.agg_programs(rng, k) + gen.fan_programs(rng, k // 2) + gen.loop_programs(rng, k // 2)
    # loops whose body holds state between elements (count windows, keyed aggregations): the sequential meaning
    # evaluates every iteration afresh
    fam += gen.loop_programs(rng, k // 2, nested=False, force="gbwin") + gen.loop_programs(rng, k // 4, nested=False, force="gbsum")
    # keyed joins whose sides were partitioned by different API calls (group_by vs the two-phase group_by_* forms)
    fam += gen.join_programs(rng, k // 2, keyed_mixed=True)
    for i, p in enumerate(fam):
        p["name"] = f"f{i}_" + p["name"]
        p["prop"] = "C01"
    progs += fam
    matrix = gen.config_matrix(rng, n_local=2, n_remote=1, n_batch=2) if tier == "quick" else \
        gen.config_matrix(rng, n_local=3, n_remote=3, n_batch=3)
    jobsuite.run_suite(V, wd, progs, matrix, "C01", checks=("link", "boundary", "result", "conform"), perturb_us=200)
    V.sample({"program": progs[0]["prog"], "configs": matrix[:2]})
    V.coverage["programs"] = len(progs)
    V.coverage["configs"] = [f"{json.dumps(c)} {b}" for c, b in matrix]


# ------------------------------------------------------------------------------------------------
# Start / frontier: model check, behaviour generation, replay on the real Start, TLC judges

def start_model(V, wd, tier, invariant_cfgs):
    """Exhaustive model check of comp/Start.tla (+ the finding config that must still fail)."""
    for cfg in invariant_cfgs:
        r = tlc_check(f"{SPEC}/comp/Start.tla", f"{SPEC}/mc/{cfg}.cfg", wd, cfg, workers=8,
                      timeout=1500)
        if not r["ok"]:
            raise ToolError(f"model check {cfg}: invariant {r['invariant_violated']} fails on the MODEL; "
                            "reproduce on the code before blaming it (see DESIGN.md 2.6)")
        require_coverage(r, ["SendData", "SendWm", "SendRestart", "SendTerminate"], cfg)
        V.add_model(r, cfg)
    # the carve-out for F6 must not silently widen: the finding config must still fail
    r = tlc_check(f"{SPEC}/comp/Start.tla", f"{SPEC}/mc/Start_finding.cfg", wd, "finding", workers=4)
    V.coverage["finding_config_still_fails"] = r["invariant_violated"] == "C17_Ended"
    if not V.known and r["invariant_violated"] != "C17_Ended":
        pass
    r2 = tlc_check(f"{SPEC}/comp/Start.tla", f"{SPEC}/mc/Start_unsync.cfg", wd, "unsync", workers=2)
    V.coverage["unsynchronised_senders_break_restart_counting"] = r2["invariant_violated"] == "C05_Restart"


def start_replay(V, wd, tier, props):
    """Generate behaviours with TLC, replay them on the real Start, judge the real histories."""
    import replay_start as rs
    from common import run_jobs, split_trace_files, validate_parallel
    rng = random.Random(seed())
    behs = []
    r = tlc_check(f"{SPEC}/comp/Start.tla", f"{SPEC}/gen/Start_gen_small.cfg", wd, "gen_small",
                  workers=8, coverage=False, timeout=900)
    allb = r["replays"]
    V.coverage["behaviours_enumerated_small"] = len(allb)
    if tier == "quick":
        rng.shuffle(allb)
        behs += allb[:1200]
    else:
        behs += allb
    num = 150 if tier == "quick" else 2500
    r = tlc_check(f"{SPEC}/comp/Start.tla", f"{SPEC}/gen/Start_gen_sim.cfg", wd, "gen_sim", workers=4,
                  coverage=False, simulate=f"num={num}", extra=["-depth", "120", "-seed", str(seed())],
                  timeout=900)
    behs += r["replays"]
    if tier != "quick":
        r = tlc_check(f"{SPEC}/comp/Start.tla", f"{SPEC}/gen/Start_gen_sim4.cfg", wd, "gen_sim4", workers=4,
                      coverage=False, simulate=f"num={num // 2}", extra=["-depth", "160", "-seed", str(seed() + 1)],
                      timeout=900)
        behs += r["replays"]
    jobs = [rs.behaviour_to_job(f"b{i}", b) for i, b in enumerate(behs)]
    model = {f"b{i}": b for i, b in enumerate(behs)}
    results, traces = run_jobs(jobs, wd, timeout=1200)
    # A lock-step gate that ran into its timeout (loaded machine) did not enforce the prescribed arrival order:
    # those behaviours are run again, few at a time and with a longer gate timeout.
    late = [j for j in jobs if results.get(j["id"], {}).get("gate_timeouts", 0) > 0]
    V.coverage["start_gate_timeouts_first_pass"] = len(late)
    if late:
        wd2 = os.path.join(wd, "again")
        os.makedirs(wd2, exist_ok=True)
        again = [dict(j, gate_timeout_ms=8000) for j in late]
        results2, traces2 = run_jobs(again, wd2, timeout=1200, nproc=3)
        redone = set(results2)
        hist = []
        for tf in traces:
            hist += [x for x in rs.real_histories(tf) if x[0] not in redone]
        for tf in traces2:
            hist += list(rs.real_histories(tf))
        results = dict(results, **results2)
    else:
        hist = [x for tf in traces for x in rs.real_histories(tf)]
    unenforced = 0
    recs = []
    drift = 0
    for _ in (0,):
        for jid, h, ev in hist:
            res = results.get(jid, {})
            if ev == "hang" or res.get("hang"):
                V.add_violation({"prop": V.prop, "kind": "job_hang", "job": jid}, replay=model[jid])
                continue
            if not jobsuite.job_ok(res):
                V.add_violation({"prop": V.prop, "kind": "job_panic", "job": jid,
                                 "panics": res.get("panics", [])[:2]}, replay=model[jid])
                continue
            enf = res.get("gate_timeouts", 0) == 0
            unenforced += 0 if enf else 1
            recs.append({"ev": "case", "id": jid, "n": model[jid]["n"], "h": h, "hm": model[jid]["h"], "enf": enf})
            recs.append({"ev": "done", "id": jid})
            if enf and h != model[jid]["h"]:
                drift += 1
    V.coverage["start_order_not_enforced"] = unenforced
    files = split_trace_files(recs, wd, "startcheck", max_events=600)
    viols, consumed, states, infos = validate_parallel("StartCheck", files, wd)
    V.coverage["states"] += states
    V.coverage["transitions"] += states
    V.coverage["traces_validated_against_impl"] += len(recs) // 2
    V.coverage["start_behaviours_replayed"] = len(recs) // 2
    V.coverage["start_drift"] = drift
    if drift:
        V.drift.append(f"{drift} of {len(recs)//2} replayed Start behaviours differ from comp/Start.tla")
    for v in viols:
        if v["prop"] in props:
            v2 = dict(v)
            if v["prop"] != V.prop:
                continue
            V.add_violation(v2, replay={"behaviour": model.get(v["job"]), "real": v.get("extra")})
    if recs:
        V.sample({"start_behaviour_real_history": recs[0]["h"]})


def C17(V, tier):
    wd = workdir("C17")
    start_model(V, wd, tier, ["Start_quick"] if tier == "quick" else ["Start_quick", "Start_thorough"])
    start_replay(V, wd, tier, ["C17"])
    V.assumptions += ["arrival order at the real Start is enforced by lock-step gates with single-element batches",
                      "upstream replicas are round-synchronised (DESIGN.md, Start.tla CanSend)"]


def C05(V, tier):
    wd = workdir("C05")
    start_model(V, wd, tier, ["Start_quick"] if tier == "quick" else ["Start_quick", "Start_thorough"])
    start_replay(V, wd, tier, ["C05"])
    # T: grammar at every operator boundary of generated pipelines
    n = 30 if tier == "quick" else 400
    progs = _programs(n, seed() + 17, "C05", max_ops=5 if tier == "quick" else 8)
    rng = random.Random(seed())
    # carry nothing over: the five window kinds over several iterations (metamorphic + per-iteration groups)
    import prop_windows
    prop_windows.C05_windows(V, tier)
    # carry nothing over: stateful operators over several iterations (folds, reorder; joins, zip, merge)
    op_replay(V, workdir("C05o"), tier, "C05", ["fold", "kfold", "reorder"])
    sortmerge_model(V, workdir("C05m"), tier)
    binary_replay(V, workdir("C05b"), tier, "C05", JOIN_VARIANTS + [("zip", {}), ("merge", {})])
    # loops with side inputs: the boundary behind a BinaryStart with a cached side (start_out hook)
    side = gen.loop_programs(rng, 10 if tier == "quick" else 120, nested=False, side=True)
    loops = gen.loop_programs(rng, 6 if tier == "quick" else 80)
    for i, p in enumerate(side + loops):
        p["name"] = f"l{i}_" + p["name"]
        p["prop"] = "C05"
    progs += side + loops
    matrix = gen.config_matrix(rng, n_local=1, n_remote=1, n_batch=2) if tier == "quick" else \
        gen.config_matrix(rng, n_local=3, n_remote=2, n_batch=3)
    jobsuite.run_suite(V, wd, progs, matrix, "C05", checks=("boundary", "conform"), perturb_us=200)
    V.assumptions += ["FlushBatch carries no content: the grammar is applied with B erased (DESIGN.md C05)"]


def frontier_apalache(V, wd, budget=600):
    """Thorough tier: Apalache shows IndInv of spec/apa/FrontierApa.tla inductive for UNBOUNDED integer
    timestamps (3 upstream replicas): the frontier is the minimum of the replicas' latest watermarks, what goes
    downstream never exceeds it and strictly increases.  Skipped with a note when it does not finish."""
    import subprocess
    from concurrent.futures import ThreadPoolExecutor
    spec = os.path.join(SPEC, "apa", "FrontierApa.tla")
    runs = [("base", ["--init=Init", "--inv=IndInv", "--length=0"]),
            ("step", ["--init=IndInit", "--inv=IndInv", "--length=1"]),
            ("implies_safe", ["--init=IndInit", "--inv=Safe", "--length=0"])]

    def one(r):
        name, args = r
        out = os.path.join(wd, f"apa_{name}")
        p = subprocess.run(["timeout", str(budget), "apalache-mc", "check"] + args + [f"--out-dir={out}", spec],
                           stdout=subprocess.PIPE, stderr=subprocess.STDOUT, text=True, cwd=wd)
        m = [ln for ln in p.stdout.splitlines() if "The outcome is:" in ln]
        got = m[0].split("The outcome is:")[1].split()[0] if m else ("Timeout" if p.returncode == 124 else "Failed")
        return {"obligation": name, "outcome": got}
    with ThreadPoolExecutor(max_workers=3) as ex:
        res = list(ex.map(one, runs))
    V.coverage["apalache_frontier"] = res
    for r in res:
        if r["outcome"] in ("Timeout", "Failed"):
            V.assumptions.append(f"Apalache obligation {r['obligation']} did not complete ({r['outcome']}): skipped")
        elif r["outcome"] != "NoError":
            raise ToolError(f"Apalache obligation {r['obligation']} of spec/apa/FrontierApa.tla: {r['outcome']} (model level)")


def C06(V, tier):
    wd = workdir("C06")
    start_model(V, wd, tier, ["Start_quick"] if tier == "quick" else ["Start_quick", "Start_thorough"])
    if tier != "quick":
        frontier_apalache(V, wd)
    start_replay(V, wd, tier, ["C06"])
    # the timestamp-aware operators: window managers / WindowOperator (late results)
    import prop_windows
    prop_windows.C06_windows(V, tier)
    # T: watermark monitor at every boundary of timestamped pipelines fed by several scripted replicas
    timestamped_jobs(V, workdir("C06j"), tier)


def timestamped_jobs(V, wd, tier):
    """Per-replica timestamped scripts (the senders of comp/Start.tla behaviours, one iteration) through
    pipelines of timestamp-aware operators; Boundary.tla runs the watermark monitor (C06) at every probe
    and behind every Start."""
    import replay_start as rs
    rng = random.Random(seed() + 66)
    q = tier == "quick"
    r = tlc_check(f"{SPEC}/comp/Start.tla", f"{SPEC}/gen/Start_gen_small.cfg", wd, "gen_small", workers=6,
                  coverage=False, timeout=900)
    behs = r["replays"]
    r2 = tlc_check(f"{SPEC}/comp/Start.tla", f"{SPEC}/gen/Start_gen_sim1.cfg", wd, "gen_sim1", workers=4,
                   coverage=False, simulate=f"num={40 if q else 400}", extra=["-depth", "120", "-seed", str(seed())],
                   timeout=900)
    behs = behs + r2["replays"]
    rng.shuffle(behs)
    behs = behs[: (40 if q else 600)]
    progs = []
    for bi, b in enumerate(behs):
        n = b["n"]
        scripts = [[] for _ in range(n)]
        for ev in b["h"]:
            if ev["d"] == "in" and ev["el"]["k"] != "X":
                e = rs.el_to_script(ev["el"], None)
                e.pop("after", None)
                e["delay"] = rng.choice([0, 0, 0, 200])
                scripts[ev["p"] - 1].append(e)
        src = {"id": "s", "op": "src", "kind": "script", "repl": "unlimited", "scripts": scripts}
        t = bi % 6
        if t == 0:
            mid = [{"id": "a", "op": "shuffle", "in": ["s"]}, {"id": "o", "op": "map", "f": "inc", "in": ["a"]}]
        elif t == 1:
            mid = [{"id": "a", "op": "group_by", "m": rng.choice([1, 2, 3]), "in": ["s"]},
                   {"id": "o", "op": "event_window", "size": rng.choice([1, 2, 3]), "slide": 1, "agg": "sum", "in": ["a"]}]
        elif t == 2:
            mid = [{"id": "a", "op": "shuffle", "in": ["s"]}, {"id": "o", "op": "reorder", "in": ["a"]}]
        elif t == 3:
            mid = [{"id": "a", "op": "group_by", "m": rng.choice([1, 2]), "in": ["s"]}, {"id": "o", "op": "kfold", "agg": "sum", "in": ["a"]}]
        elif t == 4:
            mid = [{"id": "a", "op": "shuffle", "in": ["s"]}, {"id": "b", "op": "flat_map", "g": "dup", "in": ["a"]},
                   {"id": "o", "op": "fold", "agg": "sum", "in": ["b"]}]
        else:
            mid = [{"id": "a", "op": "replicate", "repl": "one", "in": ["s"]}, {"id": "b", "op": "reorder", "in": ["a"]},
                   {"id": "c", "op": "group_by", "m": 2, "in": ["b"]},
                   {"id": "o", "op": "event_window", "size": 2, "slide": 2, "agg": "count", "in": ["c"]}]
        nodes = [src] + mid + [{"id": "k", "op": "sink", "kind": "collect_vec", "in": ["o"]}]
        sinks = {"k": {"kind": "collect_vec", "ordered": False}}
        progs.append({"name": f"ts{bi}", "prog": {"nodes": nodes}, "sinks": sinks, "prop": "C06", "npar": n})

    def cfgs(p):
        return [({"mode": "local", "par": p["npar"]}, b) for b in ("single", "default", "fixed:2")]
    jobsuite.run_suite(V, wd, progs, cfgs, "C06", checks=("boundary", "conform"), perturb_us=150)
    V.coverage["timestamped_jobs"] = len(progs) * 3


def C02(V, tier):
    wd = workdir("C02")
    # M: the remote path (shared multiplexer / TCP / demultiplexer with blocking forward)
    for cfg in (["Transport_quick"] if tier == "quick" else ["Transport_quick", "Transport_thorough", "Transport_wide"]):
        r = tlc_check(f"{SPEC}/sys/Transport.tla", f"{SPEC}/mc/{cfg}.cfg", wd, cfg, workers=8, timeout=3000)
        if not r["ok"]:
            raise ToolError(f"model check {cfg}: {r['invariant_violated']} fails on the MODEL")
        require_coverage(r, ["Produce", "MuxWrite", "DemuxRead", "DemuxFwd", "Consume"], cfg)
        V.add_model(r, cfg)
    rng = random.Random(seed())
    n = 28 if tier == "quick" else 400
    progs = _programs(n, seed() + 29, "C02", max_ops=5 if tier == "quick" else 8, input_max=120)
    matrix = [({"mode": "local", "par": 3}, "single"), ({"mode": "local", "par": 2}, "fixed:1"),
              ({"mode": "remote", "hosts": [2, 2]}, "single"), ({"mode": "remote", "hosts": [3, 1]}, "fixed:3"),
              ({"mode": "remote", "hosts": [1, 1, 2]}, "adaptive:2:500"), ({"mode": "local", "par": 4}, "default")]
    jobsuite.run_suite(V, wd, progs, matrix, "C02", checks=("link",), perturb_us=300)
    # all message sizes: frames far above a TCP segment / socket buffer (large batches of a long stream),
    # several producers sharing one connection; judged by the sink counts and sums (D), not traced
    big = []
    for i, (n, shape) in enumerate([(60000, "shuffle"), (90000, "group"), (40000, "shuffle2")] if tier == "quick" else
                                   [(60000, "shuffle"), (90000, "group"), (40000, "shuffle2"), (200000, "shuffle"), (150000, "group")]):
        # only operators whose sequential meaning TLC computes without deep recursion on 10^5 elements
        nodes = [{"id": "s", "op": "src", "kind": "par_range", "lo": 0, "hi": n}]
        if shape == "shuffle":
            nodes += [{"id": "o", "op": "shuffle", "in": ["s"]}]
        elif shape == "group":
            nodes += [{"id": "a", "op": "group_by", "m": 7, "in": ["s"]}, {"id": "o", "op": "drop_key", "in": ["a"]}]
        else:
            nodes += [{"id": "a", "op": "shuffle", "in": ["s"]}, {"id": "b", "op": "map", "f": "inc", "in": ["a"]},
                      {"id": "o", "op": "shuffle", "in": ["b"]}]
        nodes.append({"id": "k", "op": "sink", "kind": "collect_count", "in": ["o"]})
        big.append({"name": f"big{i}", "prog": {"nodes": nodes}, "sinks": {"k": {"kind": "collect_count", "ordered": False}},
                    "prop": "C02"})
    bigmatrix = [({"mode": "remote", "hosts": [1, 1]}, "fixed:20000"), ({"mode": "remote", "hosts": [2, 2]}, "fixed:50000"),
                 ({"mode": "remote", "hosts": [2, 1]}, "default")]
    jobsuite.run_suite(V, workdir("C02big"), big, bigmatrix, "C02", checks=("result",), trace=False, perturb_us=0,
                       hang_ms=20000)


# ------------------------------------------------------------------------------------------------
# C19: execution graph

def _norm_dump(d):
    """Dump of verif_execution_graph -> the record shape of GraphProps.tla."""
    def coord(c):
        b, h, r = c.split(".")
        return int(b), int(h), int(r)
    blocks = []
    for b in sorted(d["blocks"], key=lambda x: x["id"]):
        rep = b["replication"]
        name, lim = rep, 0
        if rep.startswith("Limited("):
            name, lim = "Limited", int(rep[8:-1])
        reps = []
        for x in sorted(b["replicas"], key=lambda x: x["coord"]):
            _, h, r = coord(x["coord"])
            reps.append({"h": h, "r": r, "gid": x["gid"] if x["gid"] is not None else -1})
        blocks.append({"id": b["id"], "repl": name, "lim": lim, "fwd": bool(b["only_one"]),
                       "fwd_repr": b["repr"].rstrip().endswith("-> OnlyOne"),
                       "next": [{"to": n[0], "fragile": bool(n[1])} for n in b["next"]],
                       "replicas": reps})
    links = []
    for f, t, _fr in d["links"]:
        fb, fh, fr = coord(f)
        tb, th, tr = coord(t)
        links.append({"fb": fb, "fh": fh, "fr": fr, "tb": tb, "th": th, "tr": tr})
    links.sort(key=lambda k: (k["fb"], k["fh"], k["fr"], k["tb"], k["th"], k["tr"]))
    addrs = sorted(({"b": a["block"], "h": a["host"], "prev": a["prev"], "addr": a["addr"]}
                    for a in d["addrs"]), key=lambda a: (a["b"], a["h"], a["prev"]))
    return {"blocks": blocks, "links": links, "addrs": addrs}


def graph_cases(tier, rng):
    """(program, cluster) pairs: generated programs and replication-focused templates."""
    import itertools
    clusters = [[1], [2], [3], [1, 1], [2, 1], [1, 2], [2, 2], [1, 3], [3, 1], [1, 1, 1], [2, 1, 2]]
    if tier != "quick":
        clusters += [[4], [3, 3], [2, 3], [1, 2, 3], [3, 2, 1], [1, 1, 1, 1], [2, 2, 2]]
    repls = ["unlimited", "one", "host", "limited:1", "limited:2", "limited:3", "limited:4"]
    progs = []
    # replication templates: src -> shuffle -> replicate(r1) -> map -> shuffle -> replicate(r2) -> sink
    for r1, r2 in itertools.product(repls, repls):
        nodes = [{"id": "s", "op": "src", "kind": "par_range", "lo": 0, "hi": 10},
                 {"id": "a", "op": "shuffle", "in": ["s"]},
                 {"id": "b", "op": "replicate", "repl": r1, "in": ["a"]},
                 {"id": "c", "op": "group_by", "m": 3, "in": ["b"]},
                 {"id": "d", "op": "drop_key", "in": ["c"]},
                 {"id": "e", "op": "replicate", "repl": r2, "in": ["d"]},
                 {"id": "k", "op": "sink", "kind": "collect_vec", "in": ["e"]}]
        progs.append({"nodes": nodes})
    # multi-output / loops / joins from the program generator
    n = 25 if tier == "quick" else 150
    for i in range(n):
        prog, _ = gen.gen_program(seed() * 31 + i, max_ops=6)
        progs.append(prog)
    cases = []
    for pi, p in enumerate(progs):
        cl = clusters if pi < len(repls) ** 2 and tier != "quick" else rng.sample(clusters, 3)
        for ci, cores in enumerate(cl):
            cfg = {"mode": "remote", "hosts": cores}
            cases.append({"id": f"g{pi}_{ci}", "prog": p, "cfg": cfg})
        if pi % 4 == 0:
            cases.append({"id": f"g{pi}_l", "prog": p, "cfg": {"mode": "local", "par": rng.choice([1, 2, 3, 4])}})
    return cases


def C19(V, tier):
    from common import run_jobs, split_trace_files, validate_parallel
    wd = workdir("C19")
    rng = random.Random(seed())
    for cfg in (["ExecGraph_quick"] if tier == "quick" else ["ExecGraph_quick", "ExecGraph_thorough"]):
        r = tlc_check(f"{SPEC}/comp/ExecGraph.tla", f"{SPEC}/mc/{cfg}.cfg", wd, cfg, workers=12,
                      timeout=1500, coverage=False)
        if not r["ok"]:
            raise ToolError(f"model check {cfg}: {r['invariant_violated']} fails on the model")
        V.add_model(r, cfg)
    r = tlc_check(f"{SPEC}/comp/ExecGraph.tla", f"{SPEC}/mc/ExecGraph_finding.cfg", wd, "finding",
                  workers=4, coverage=False)
    V.coverage["finding_config_still_fails"] = r["invariant_violated"] == "ForwardOK"
    # replication algebra: spec/comp/Replication.tla (coded match = meet of the restrictiveness order,
    # checked by TLC) generates every pair; the real `Replication::intersect` must agree on each
    r = tlc_check(f"{SPEC}/comp/Replication.tla", f"{SPEC}/mc/Replication.cfg", wd, "replication",
                  workers=2, coverage=False)
    if not r["ok"]:
        raise ToolError("Replication.tla: the coded match is not the meet of the order")
    alg_pairs = r["replays"]
    if len(alg_pairs) < 64:
        raise ToolError(f"Replication.tla generated only {len(alg_pairs)} pairs")
    alg_case = {"id": "algebra", "algebra": alg_pairs, "cfg": {"mode": "local", "par": 1}}
    cases = graph_cases(tier, rng)
    results, _ = run_jobs(cases + [alg_case], wd, cmd="graph", timeout=600)
    got = results.get("algebra")
    if got is None or len(got.get("algebra", [])) != len(alg_pairs):
        raise ToolError("no result for the replication algebra case")
    for exp, g in zip(alg_pairs, got["algebra"]):
        want = exp["r"]["k"] if exp["r"]["k"] != "Limited" else f"Limited({exp['r']['n']})"
        if g["r"] != want:
            V.add_violation({"prop": "C19", "kind": "replication_intersect", "a": exp["a"], "b": exp["b"],
                             "expected": want, "got": g["r"],
                             "detail": "Replication::intersect is not the more restrictive of the two "
                                       "requirements (Replication.tla!Meet): a block gets more replicas "
                                       "than one of its operators allows"},
                            replay=alg_case)
    V.coverage["replication_pairs_checked"] = len(alg_pairs)
    # vh graph writes results to the "results" path and nothing to the trace path
    recs = []
    for c in cases:
        r = results.get(c["id"])
        if r is None:
            raise ToolError(f"no graph result for {c['id']}")
        if any(d.get("panic") for d in r["dumps"]):
            V.add_violation({"prop": "C19", "kind": "graph_panic", "job": c["id"],
                             "panics": r.get("panics", [])[:2]}, replay=c)
            continue
        cores = c["cfg"]["hosts"] if c["cfg"]["mode"] == "remote" else [c["cfg"]["par"]]
        recs.append({"ev": "case", "id": c["id"], "cores": cores,
                     "dumps": [_norm_dump(d) for d in r["dumps"]]})
        recs.append({"ev": "done", "id": c["id"]})
    files = split_trace_files(recs, wd, "graph", max_events=60)
    viols, consumed, states, _ = validate_parallel("GraphCheck", files, wd)
    by_id = {c["id"]: c for c in cases}
    for v in viols:
        x = v.get("extra", {}).get("v", {})
        v2 = dict(v)
        if isinstance(x, dict) and "class" in x:
            v2["class"] = x["class"]
        V.add_violation(v2, replay=by_id.get(v.get("job")))
    V.coverage["states"] += states
    V.coverage["transitions"] += states
    V.coverage["traces_validated_against_impl"] += len(recs) // 2
    V.coverage["graph_dumps_checked"] = sum(len(r["dumps"]) for r in recs if r["ev"] == "case")
    if recs:
        V.sample({"case": recs[0]["id"], "cores": recs[0]["cores"], "blocks": recs[0]["dumps"][0]["blocks"][:2]})


# ------------------------------------------------------------------------------------------------
# C03: routing per connection kind

def routing_templates():
    """Programs whose block boundaries are created by ONE API call each, with the promise of that
    call (rule) attached: probe = last operator before the boundary, after = probes behind it."""
    T = []

    def src(i, lo=0, hi=40):
        return {"id": i, "op": "src", "kind": "par_range", "lo": lo, "hi": hi}

    def snk(i, x, kind="collect_vec"):
        return {"id": i, "op": "sink", "kind": kind, "in": [x]}
    T.append(("shuffle", [src("s"), {"id": "m", "op": "map", "f": "inc", "in": ["s"]},
                          {"id": "sh", "op": "shuffle", "in": ["m"]}, snk("k", "sh")],
              [{"probe": "m", "kind": "random", "after": ["sh"]}]))
    for mod in (1, 2, 3, 7):
        T.append((f"group_by{mod}", [src("s"), {"id": "m", "op": "map", "f": "mul3p1", "in": ["s"]},
                                     {"id": "g", "op": "group_by", "m": mod, "in": ["m"]},
                                     {"id": "f", "op": "kfold", "agg": "sum", "in": ["g"]}, snk("k", "f")],
                  [{"probe": "m", "kind": "groupby", "m": mod, "after": ["g"]}]))
    for r in ("one", "unlimited", "host", "limited:2", "limited:3"):
        T.append((f"replicate_{r}", [src("s"), {"id": "m", "op": "map", "f": "inc", "in": ["s"]},
                                     {"id": "r", "op": "replicate", "repl": r, "in": ["m"]}, snk("k", "r")],
                  [{"probe": "m", "kind": "forward", "after": ["r"]}]))
    # forward after a shuffle (producer unlimited, consumer unlimited): same index
    T.append(("shuffle_forward", [src("s"), {"id": "sh", "op": "shuffle", "in": ["s"]},
                                  {"id": "m", "op": "map", "f": "inc", "in": ["sh"]},
                                  {"id": "r", "op": "replicate", "repl": "unlimited", "in": ["m"]},
                                  snk("k", "r", "collect_count")],
              [{"probe": "s", "kind": "random", "after": ["sh"]}, {"probe": "m", "kind": "forward", "after": ["r"]}]))
    T.append(("broadcast", [src("s", 0, 12), {"id": "m", "op": "map", "f": "inc", "in": ["s"]},
                            {"id": "b", "op": "broadcast", "in": ["m"]}, snk("k", "b")],
              [{"probe": "m", "kind": "all", "after": ["b"]}]))
    for ml, mr in ((2, 3), (5, 5), (1, 4)):
        T.append((f"join_hash_{ml}_{mr}",
                  [src("l", 0, 30), {"id": "ml", "op": "map", "f": "inc", "in": ["l"]},
                   src("r", 5, 25), {"id": "mr", "op": "map", "f": "mul3p1", "in": ["r"]},
                   {"id": "j", "op": "join", "ship": "hash", "local": "hash", "variant": "outer", "ml": ml, "mr": mr,
                    "in": ["ml", "mr"]}, snk("k", "j")],
                  # equal join keys of both sides must meet on one replica: the two rules share a key space.
                  # The key of an element is its payload mod ml (left) / mod mr (right); both sides agree
                  # on a replica when the key VALUES agree, so both rules use the value itself as key space
                  [{"probe": "ml", "kind": "groupby", "m": ml, "keyspace": "j", "after": ["j"]},
                   {"probe": "mr", "kind": "groupby", "m": mr, "keyspace": "j", "after": ["j"]}]))
    T.append(("join_bcast",
              [src("l", 0, 30), {"id": "ml", "op": "map", "f": "inc", "in": ["l"]},
               src("r", 5, 15), {"id": "mr", "op": "map", "f": "mul3p1", "in": ["r"]},
               {"id": "j", "op": "join", "ship": "bcast", "local": "hash", "variant": "left", "ml": 3, "mr": 3,
                "in": ["ml", "mr"]}, snk("k", "j")],
              [{"probe": "ml", "kind": "forward", "after": ["j"]}, {"probe": "mr", "kind": "all", "after": ["j"]}]))
    for preds in (["odd", "lt50"], ["lt50", "all"], ["none", "even", "ge5"]):
        nodes = [src("s", 0, 70), {"id": "m", "op": "map", "f": "inc", "in": ["s"]},
                 {"id": "rt", "op": "route", "preds": preds, "in": ["m"]}]
        for i in range(len(preds)):
            nodes.append(snk(f"k{i}", f"rt.{i}"))
        T.append(("route_" + "_".join(preds), nodes,
                  [{"probe": "m", "kind": "route", "preds": preds, "after": [f"rt.{i}" for i in range(len(preds))]}]))
    # co-partitioning across API calls: a group_by_* aggregation (its shuffle is made inside the call)
    # keyed-joined with a plain group_by: equal keys of both sides must sit on the same replica index
    for mod, kind in ((3, "gb_count"), (5, "gb_sum"), (7, "gb_fold"), (11, "gb_max")):
        gl = {"id": "gl", "op": kind, "m": mod, "in": ["l"]}
        if kind == "gb_fold":
            gl["agg"] = "sum"
        T.append((f"copartition_{kind}_{mod}",
                  [src("l", 0, 60), gl, src("r", 0, 45), {"id": "rm", "op": "map", "f": "id", "in": ["r"]},
                   {"id": "gr", "op": "group_by", "m": mod, "in": ["rm"]},
                   {"id": "j", "op": "kjoin", "variant": "outer", "in": ["gl", "gr"]}, snk("k", "j")],
                  [{"probe": "gl", "kind": "groupby_dest", "keyspace": "kj", "after": ["gl"]},
                   {"probe": "rm", "kind": "groupby", "m": mod, "keyspace": "kj", "after": ["gr"]}]))
    # key_by + keyed merge: forward with two producers blocks
    T.append(("zip", [{"id": "a", "op": "src", "kind": "iter", "data": list(range(20))},
                      {"id": "b", "op": "src", "kind": "iter", "data": list(range(30, 45))},
                      {"id": "z", "op": "zip", "in": ["a", "b"]}, snk("k", "z")],
              [{"probe": "a", "kind": "forward", "after": ["z"]}, {"probe": "b", "kind": "forward", "after": ["z"]}]))
    return T


def C03(V, tier):
    from common import read_trace, split_trace_files, validate_parallel
    import project
    wd = workdir("C03")
    rng = random.Random(seed())
    T = routing_templates()
    progs = []
    rules = {}
    for name, nodes, rl in T:
        sinks = {n["id"]: {"kind": n["kind"], "ordered": False} for n in nodes if n["op"] == "sink"}
        progs.append({"name": name, "prog": {"nodes": nodes}, "sinks": sinks, "rules": rl})
    locals_ = [{"mode": "local", "par": p} for p in (1, 2, 3, 4)]
    remotes = [{"mode": "remote", "hosts": h} for h in ([1, 1], [2, 1], [1, 2], [2, 2], [1, 1, 1], [3, 1])]
    if tier == "quick":
        matrix = [(c, "fixed:3") for c in locals_] + [(c, "default") for c in rng.sample(remotes, 3)]
    else:
        matrix = [(c, b) for c in locals_ + remotes for b in ("single", "default")]
    results, traces, jobs_by_id = jobsuite.run_suite(V, wd, progs, matrix, "C03", checks=(), trace=True,
                                                     perturb_us=0)
    for jid in jobs_by_id:
        rules[jid] = next(p["rules"] for p in progs if p["name"] == jid.split("#")[0])
    files = []
    nem = 0
    for ti, t in enumerate(traces):
        recs = list(project.routing_records(read_trace(t), results, rules))
        nem += sum(1 for r in recs if r["ev"] == "emit")
        files += split_trace_files(recs, wd, f"routing_{ti}")
    viols, consumed, states, _ = validate_parallel("Routing", files, wd)
    V.coverage["states"] += states
    V.coverage["transitions"] += states
    V.coverage["emissions_checked"] = nem
    V.coverage["templates"] = [t[0] for t in T]
    for v in viols:
        v2 = dict(v)
        ex = v.get("extra", {})
        if v["kind"] == "data_fanout" and ex.get("rule") == "forward" and ex.get("got") == 0 \
                and ex.get("consumers", 0) > 1:
            v2["class"] = "no_same_index_consumer_among_several"
        V.add_violation(v2, replay=jobs_by_id.get(v.get("job")))
    V.sample({"template": T[1][0], "rules": T[1][2]})


# ------------------------------------------------------------------------------------------------
# D-centred checks on focused program families

def _matrix(tier, rng, nl=2, nr=1, nb=2):
    if tier == "quick":
        return gen.config_matrix(rng, n_local=nl, n_remote=nr, n_batch=nb)
    return gen.config_matrix(rng, n_local=4, n_remote=3, n_batch=3)


def _focused(V, tier, prop, progs, checks=("result", "boundary", "link"), perturb_us=200, matrix=None, **kw):
    wd = workdir(prop)
    rng = random.Random(seed())
    for p in progs:
        p["prop"] = prop
    matrix = matrix or _matrix(tier, rng)
    res = jobsuite.run_suite(V, wd, progs, matrix, prop, checks=checks, perturb_us=perturb_us, **kw)
    V.sample({"program": progs[0]["prog"], "config": [json.dumps(matrix[0][0]), matrix[0][1]]})
    V.coverage["programs"] = len(progs)
    V.coverage["configs"] = [f"{json.dumps(c)} {b}" for c, b in matrix]
    return res


def C07(V, tier):
    op_replay(V, workdir("C07r"), tier, "C07", ["fold", "kfold"])
    rng = random.Random(seed() + 7)
    _focused(V, tier, "C07", gen.agg_programs(rng, 112 if tier == "quick" else 700), checks=("result", "conform"))


# ------------------------------------------------------------------------------------------------
# two-input operators: every arrival order (comp/Interleave.tla) on the real operator

def binary_replay(V, wd, tier, prop, ops):
    """ops: list of (op, variant-dict) e.g. ("join", {ship, local, variant}) / ("zip", {}) / ("merge", {})."""
    from common import run_jobs, split_trace_files, validate_parallel
    rng = random.Random(seed() + 88)
    q = tier == "quick"
    # script pairs: values 1..6, join keys = value mod 2; duplicates, one-sided keys, empty sides, 2 iterations
    pairs = [([[1, 3]], [[3, 2]]), ([[1]], [[]]), ([[]], [[2, 4]]), ([[1, 2]], [[4, 6]]), ([[2, 2]], [[4]]),
             ([[1], [2]], [[3], []]), ([[1, 2], [3]], [[2], [5, 1]]), ([[]], [[]])]
    if not q:
        pairs += [([[1, 3, 5]], [[1, 2]]), ([[1, 2, 3]], [[2, 3, 4]]), ([[1], [1], [2]], [[1], [2], []])]
    cases = [{"id": f"p{i}", "left": l, "right": r} for i, (l, r) in enumerate(pairs)]
    cpath = os.path.join(wd, "cases.ndjson")
    with open(cpath, "w") as f:
        for c in cases:
            f.write(json.dumps(c) + "\n")
    r = tlc_check(f"{SPEC}/comp/Interleave.tla", f"{SPEC}/gen/Interleave.cfg", wd, "interleave", workers=6,
                  coverage=False, env_extra={"CASES": cpath}, timeout=900)
    orders = r["replays"]
    V.add_model(r, "Interleave")
    V.coverage["arrival_orders_enumerated"] = len(orders)
    by_case = {c["id"]: c for c in cases}
    # generated two-iteration cases (Interleave.tla GenCases): sampled by simulation (quick) / all of them (thorough)
    if q:
        r2 = tlc_check(f"{SPEC}/comp/Interleave.tla", f"{SPEC}/gen/Interleave.cfg", wd, "interleave_gen", workers=4,
                       coverage=False, simulate="num=150", extra=["-depth", "40", "-seed", str(seed() + 5)], timeout=900)
    else:
        r2 = tlc_check(f"{SPEC}/comp/Interleave.tla", f"{SPEC}/gen/Interleave.cfg", wd, "interleave_gen", workers=8,
                       coverage=False, timeout=1800)
    seen = set()
    gen_orders = []
    for o in r2["replays"]:
        key = json.dumps(o, sort_keys=True)
        if key not in seen:
            seen.add(key)
            gen_orders.append(o)
            by_case[o["id"]] = {"id": o["id"], "left": o["left"], "right": o["right"]}
    V.coverage["generated_two_iteration_orders"] = len(gen_orders)
    orders = orders + gen_orders
    cap = 2400 if q else 40000
    jobs = []
    meta = {}
    todo = [(o, op, var) for o in orders for (op, var) in ops]
    rng.shuffle(todo)
    exhaustive = len(todo) <= cap
    def mkjob(jid, order, op, var):
        ls, rs = [], []
        for g, ev in enumerate(order):
            el = {"k": ev["k"], "after": g}
            if ev["k"] == "I":
                el["v"] = ev["v"]
            (ls if ev["side"] == "L" else rs).append(el)
        node = {"id": "j", "op": op, "in": ["l", "r"]}
        node.update(var)
        if op == "join":
            node.setdefault("ml", 2)
            node.setdefault("mr", 2)
        nodes = [{"id": "l", "op": "src", "kind": "script", "repl": "one", "scripts": [ls]},
                 {"id": "r", "op": "src", "kind": "script", "repl": "one", "scripts": [rs]},
                 node, {"id": "k", "op": "sink", "kind": "collect_vec", "in": ["j"]}]
        return {"id": jid, "prog": {"nodes": nodes}, "cfg": {"mode": "local", "par": 1}, "batch": "single",
                "trace": False, "gate": {"kind": "count_recv", "from_blocks": [0, 1]}, "hang_ms": 15000}

    for k, (o, op, var) in enumerate(todo[:cap]):
        c = by_case[o["id"]]
        jid = f"b{k}"
        jobs.append(mkjob(jid, o["order"], op, var))
        meta[jid] = {"ev": "case", "id": jid, "op": op, "variant": var.get("variant", ""), "ml": 2, "mr": 2,
                     "left": c["left"], "right": c["right"], "order": o["order"], "var": var}
    results, _ = run_jobs(jobs, wd, timeout=1200)
    recs = []
    for jid, res in results.items():
        m = meta[jid]
        if res.get("hang"):
            V.add_violation({"prop": prop, "kind": "job_hang", "job": jid, "order": m["order"], "op": m["op"], "var": m["var"]},
                            replay=next(j for j in jobs if j["id"] == jid))
            continue
        if not jobsuite.job_ok(res):
            V.add_violation({"prop": prop, "kind": "job_panic", "job": jid, "panics": res.get("panics", [])[:2],
                             "op": m["op"], "var": m["var"]}, replay=next(j for j in jobs if j["id"] == jid))
            continue
        out = [s["res"] for h in res["hosts"] for s in h["sinks"] if s["res"] is not None]
        rec = {k: m[k] for k in ("ev", "id", "op", "variant", "ml", "mr", "left", "right")}
        rec["res"] = out[0] if out else []
        recs.append(rec)
        recs.append({"ev": "done", "id": jid})
    files = split_trace_files(recs, wd, "joincheck", max_events=600)
    viols, consumed, states, _ = validate_parallel("JoinCheck", files, wd)
    jb = {j["id"]: j for j in jobs}
    # C05 "carry nothing over", decided by experiment: a run over several iterations gave a wrong result; every
    # iteration of it is run again ALONE (same operator, same arrival order of that iteration).  If each of them is
    # right on its own, the wrong result of the long run can only come from what an earlier iteration left behind.
    res_of = {r["id"]: r["res"] for r in recs if r.get("ev") == "case"}
    wrong = sorted({v["job"] for v in viols if v["kind"] != "carry_over" and len(meta[v["job"]]["left"]) >= 2})[:60]
    if wrong:
        iso, imeta = [], {}
        for jid in wrong:
            m = meta[jid]
            seen = {"L": 0, "R": 0}
            per = [[] for _ in m["left"]]
            for ev in m["order"]:
                if ev["k"] == "X":
                    continue
                per[seen[ev["side"]]].append(ev)
                if ev["k"] == "R":
                    seen[ev["side"]] += 1
            for i, evs in enumerate(per):
                o1 = evs + [{"side": "L", "k": "X", "v": 0}, {"side": "R", "k": "X", "v": 0}]
                iid = f"{jid}_it{i}"
                iso.append(mkjob(iid, o1, m["op"], m["var"]))
                imeta[iid] = (jid, i)
        wd2 = os.path.join(wd, "iso")
        os.makedirs(wd2, exist_ok=True)
        ires, _ = run_jobs(iso, wd2, timeout=900)
        single = {}
        for iid, r in ires.items():
            if r.get("hang") or not jobsuite.job_ok(r):
                continue
            out = [s_["res"] for h in r["hosts"] for s_ in h["sinks"] if s_["res"] is not None]
            single.setdefault(imeta[iid][0], {})[imeta[iid][1]] = out[0] if out else []
        recs2 = []
        for jid in wrong:
            m = meta[jid]
            if len(single.get(jid, {})) != len(m["left"]):
                continue
            rec = {k: m[k] for k in ("id", "op", "variant", "ml", "mr", "left", "right")}
            rec.update({"ev": "case2", "res": res_of[jid], "single": [single[jid][i] for i in range(len(m["left"]))]})
            recs2 += [rec, {"ev": "done", "id": jid}]
        if recs2:
            files2 = split_trace_files(recs2, wd2, "joincheck2", max_events=600)
            viols2, _, states2, _ = validate_parallel("JoinCheck", files2, wd2)
            viols += viols2
            states += states2
        V.coverage["iterations_rerun_alone"] = len(iso)
    for v in viols:
        if v["prop"] == prop:
            V.add_violation(v, replay={"job": jb.get(v["job"]), "order": meta[v["job"]]["order"]})
        else:
            V.coverage.setdefault("other_property_violations", []).append({k: v[k] for k in ("prop", "kind", "job")})
    V.coverage["states"] += states
    V.coverage["transitions"] += states
    V.coverage["traces_validated_against_impl"] += len(recs) // 2
    V.coverage["arrival_orders_replayed"] = len(recs) // 2
    V.coverage["arrival_orders_exhaustive"] = exhaustive
    if recs:
        V.sample({"arrival_order": meta[recs[0]["id"]]["order"], "op": recs[0]["op"], "result": recs[0]["res"]})


def op_replay(V, wd, tier, prop, ops):
    """Timestamped scripts (comp/Start.tla, one sender) through a real stateful operator; OpCheck.tla judges.
    ops: list of (name, nodes-builder) with name in reorder | fold | kfold."""
    from common import run_jobs, read_trace, split_trace_files, validate_parallel
    import replay_start as rs
    rng = random.Random(seed() + 77)
    q = tier == "quick"
    r = tlc_check(f"{SPEC}/comp/Start.tla", f"{SPEC}/gen/Start_gen_one.cfg", wd, "gen_one", workers=6,
                  coverage=False, timeout=900)
    behs = r["replays"]
    V.add_model(r, "Start_gen_one")
    V.coverage["scripts_enumerated"] = len(behs)
    rng.shuffle(behs)
    behs = behs[: (250 if q else 12000)]
    jobs, meta = [], {}
    for bi, b in enumerate(behs):
        script = [rs.el_to_script(ev["el"], None) for ev in b["h"] if ev["d"] == "in"]
        for e in script:
            e.pop("after", None)
        for op in ops:
            m = 0
            if op == "reorder":
                mid = [{"id": "o", "op": "reorder", "in": ["s"]}]
            elif op == "fold":
                mid = [{"id": "o", "op": "fold", "agg": "sum", "in": ["s"]}]
            else:
                m = rng.choice([1, 2, 3])
                mid = [{"id": "g", "op": "key_by", "m": m, "in": ["s"]}, {"id": "o", "op": "kfold", "agg": "sum", "in": ["g"]}]
            nodes = [{"id": "s", "op": "src", "kind": "script", "repl": "one", "scripts": [script]}] + mid + \
                    [{"id": "k", "op": "sink", "kind": "collect_vec", "in": ["o"]}]
            jid = f"o{bi}_{op}"
            jobs.append({"id": jid, "prog": {"nodes": nodes}, "cfg": {"mode": "local", "par": 1},
                         "batch": rng.choice(["single", "default", "fixed:2"]), "trace": True, "keep": ["probe"],
                         "hang_ms": 15000})
            meta[jid] = {"op": op, "m": m}
    results, traces = run_jobs(jobs, wd, timeout=1200)
    recs = []
    jb = {j["id"]: j for j in jobs}
    for t in traces:
        cur, h = None, []
        for e in read_trace(t):
            ev = e.get("ev")
            if ev == "job":
                cur, h = e["id"], []
            elif ev == "probe" and e["id"] in ("s", "o"):
                el = e["el"]
                v = el.get("v", 0)
                h.append({"d": "in" if e["id"] == "s" else "out",
                          "el": {"k": el["k"], "v": v if v is not None else 0, "ts": el.get("ts", 0)}})
            elif ev in ("done", "hang"):
                res = results.get(cur, {})
                if ev == "hang" or res.get("hang"):
                    V.add_violation({"prop": prop, "kind": "job_hang", "job": cur}, replay=jb.get(cur))
                elif not jobsuite.job_ok(res):
                    V.add_violation({"prop": prop, "kind": "job_panic", "job": cur, "panics": res.get("panics", [])[:2]},
                                    replay=jb.get(cur))
                else:
                    recs.append({"ev": "case", "id": cur, "op": meta[cur]["op"], "m": meta[cur]["m"], "h": h})
                    recs.append({"ev": "done", "id": cur})
    files = split_trace_files(recs, wd, "opcheck", max_events=500)
    viols, consumed, states, _ = validate_parallel("OpCheck", files, wd)
    for v in viols:
        if v["prop"] == prop:
            V.add_violation(v, replay=jb.get(v["job"]))
        else:
            V.coverage.setdefault("other_property_violations", []).append({k: v[k] for k in ("prop", "kind", "job")})
    V.coverage["states"] += states
    V.coverage["transitions"] += states
    V.coverage["traces_validated_against_impl"] += len(recs) // 2
    V.coverage["operator_scripts_replayed"] = len(recs) // 2
    if recs:
        V.sample({"op": recs[0]["op"], "history": recs[0]["h"]})


JOIN_VARIANTS = [("join", {"ship": s, "local": l, "variant": v}) for s in ("hash", "bcast") for l in ("hash", "sortmerge")
                 for v in (("inner", "left", "outer") if s == "hash" else ("inner", "left"))]


def interval_join_replay(V, wd, tier):
    """Interval join on timestamped scripts (two sequential sources, free-running with seeded delays)."""
    from common import run_jobs, split_trace_files, validate_parallel
    rng = random.Random(seed() + 808)
    q = tier == "quick"
    jobs, meta = [], {}

    def side(n):
        # timestamps before the epoch included (finding F11: the operator used to assert on them)
        ts = sorted(rng.randrange(-3, 5) for _ in range(n))
        return [[rng.randrange(1, 50), t] for t in ts]

    def script(items):
        out, lastw = [], -10
        for v, t in items:
            if t - 1 > lastw and rng.random() < 0.7:
                out.append({"k": "W", "ts": t - 1})
                lastw = t - 1
            out.append({"k": "T", "v": v, "ts": t, "delay": rng.choice([0, 0, 100, 400])})
        out.append({"k": "R"})
        return out
    for i in range(150 if q else 2500):
        iters = rng.choice([1, 1, 2])
        left = [side(rng.choice([0, 1, 2, 3, 4])) for _ in range(iters)]
        right = [side(rng.choice([0, 1, 2, 3, 4])) for _ in range(iters)]
        lower, upper = rng.choice([0, 1, 2]), rng.choice([0, 1, 2])
        ls = [e for it in left for e in script(it)]
        rs = [e for it in right for e in script(it)]
        if iters > 1:
            continue_ok = True
        keyed = i % 3 == 2
        km = rng.choice([1, 2, 3])
        if keyed:
            nodes = [{"id": "l", "op": "src", "kind": "script", "repl": "one", "scripts": [ls]},
                     {"id": "r", "op": "src", "kind": "script", "repl": "one", "scripts": [rs]},
                     {"id": "gl", "op": "group_by", "m": km, "in": ["l"]}, {"id": "gr", "op": "group_by", "m": km, "in": ["r"]},
                     {"id": "j", "op": "kijoin", "lower": lower, "upper": upper, "in": ["gl", "gr"]},
                     {"id": "d", "op": "drop_key", "in": ["j"]},
                     {"id": "k", "op": "sink", "kind": "collect_vec", "in": ["d"]}]
        else:
            nodes = [{"id": "l", "op": "src", "kind": "script", "repl": "one", "scripts": [ls]},
                     {"id": "r", "op": "src", "kind": "script", "repl": "one", "scripts": [rs]},
                     {"id": "j", "op": "ijoin", "lower": lower, "upper": upper, "in": ["l", "r"]},
                     {"id": "k", "op": "sink", "kind": "collect_vec", "in": ["j"]}]
        jid = f"ij{i}"
        jobs.append({"id": jid, "prog": {"nodes": nodes}, "cfg": {"mode": "local", "par": rng.choice([1, 2])},
                     "batch": rng.choice(["single", "default", "fixed:2"]), "trace": False, "perturb_us": 0,
                     "hang_ms": 15000})
        meta[jid] = {"ev": "case", "id": jid, "op": "kijoin" if keyed else "ijoin", "variant": "", "ml": lower,
                     "mr": upper, "km": km, "left": left, "right": right}
    # iterations of unsynchronised free-running sources are outside the environment assumption: one iteration only
    jobs = [j for j in jobs if len(meta[j["id"]]["left"]) == 1]
    results, _ = run_jobs(jobs, wd, timeout=1200)
    recs = []
    jb = {j["id"]: j for j in jobs}
    for jid, res in results.items():
        if res.get("hang"):
            V.add_violation({"prop": "C08", "kind": "job_hang", "job": jid}, replay=jb[jid])
            continue
        if not jobsuite.job_ok(res):
            V.add_violation({"prop": "C08", "kind": "job_panic", "job": jid, "panics": res.get("panics", [])[:2]}, replay=jb[jid])
            continue
        out = [s_["res"] for h in res["hosts"] for s_ in h["sinks"] if s_["res"] is not None]
        rec = dict(meta[jid])
        rec["res"] = out[0] if out else []
        recs.append(rec)
        recs.append({"ev": "done", "id": jid})
    files = split_trace_files(recs, wd, "ijoin", max_events=600)
    viols, consumed, states, _ = validate_parallel("JoinCheck", files, wd)
    for v in viols:
        if v["prop"] == "C08":
            V.add_violation(v, replay=jb.get(v["job"]))
    V.coverage["states"] += states
    V.coverage["transitions"] += states
    V.coverage["traces_validated_against_impl"] += len(recs) // 2
    V.coverage["interval_join_cases"] = len(recs) // 2


def sortmerge_model(V, wdm, tier):
    """M: the local sort-merge join as coded (comp/SortMergeJoin.tla) over two iterations: exactly the relational
    join of each iteration's inputs, nothing carried over; the seeded regression (seeded/C05b) must fail."""
    for v in ("inner", "left", "outer"):
        cfg = f"SortMergeJoin_{v}" + ("" if tier == "quick" else "_thorough")
        r = tlc_check(f"{SPEC}/comp/SortMergeJoin.tla", f"{SPEC}/mc/{cfg}.cfg", wdm, cfg, workers=4, timeout=3000)
        if not r["ok"]:
            raise ToolError(f"model check {cfg}: {r['invariant_violated']} fails on the MODEL")
        require_coverage(r, ["LeftItem", "RightItem", "Advance", "Restart"], cfg)
        V.add_model(r, cfg)
    r = tlc_check(f"{SPEC}/comp/SortMergeJoin.tla", f"{SPEC}/mc/SortMergeJoin_seedC05b.cfg", wdm, "seedC05b", workers=2,
                  coverage=False)
    V.coverage["SortMergeJoin_seedC05b_still_fails"] = r["invariant_violated"] == "JoinOK"


def C08(V, tier):
    # M: the symmetric local hash join as coded (comp/HashJoin.tla): every interleaving of items and end
    # markers of every small input pair gives the relational join; the seeded regression must fail
    wdm = workdir("C08m")
    for v in ("inner", "left", "outer"):
        cfg = f"HashJoin_{v}" + ("" if tier == "quick" else "_thorough")
        r = tlc_check(f"{SPEC}/comp/HashJoin.tla", f"{SPEC}/mc/{cfg}.cfg", wdm, cfg, workers=4, timeout=3000)
        if not r["ok"]:
            raise ToolError(f"model check {cfg}: {r['invariant_violated']} fails on the MODEL")
        require_coverage(r, ["LeftItem", "RightItem", "Restart"], cfg)
        V.add_model(r, cfg)
    r = tlc_check(f"{SPEC}/comp/HashJoin.tla", f"{SPEC}/mc/HashJoin_seedC08.cfg", wdm, "seedC08", workers=2, coverage=False)
    V.coverage["HashJoin_seedC08_still_fails"] = r["invariant_violated"] == "NoExtra"
    sortmerge_model(V, wdm, tier)
    # M: the interval join as coded (comp/IntervalJoin.tla) over every timestamp-ordered small input
    cfg = "IntervalJoin_quick" if tier == "quick" else "IntervalJoin_thorough"
    r = tlc_check(f"{SPEC}/comp/IntervalJoin.tla", f"{SPEC}/mc/{cfg}.cfg", wdm, cfg, workers=4, timeout=3000)
    if not r["ok"]:
        raise ToolError(f"model check {cfg}: {r['invariant_violated']} fails on the MODEL")
    require_coverage(r, ["LeftItem", "RightItem", "Watermark", "Restart", "Close"], cfg)
    V.add_model(r, cfg)
    r = tlc_check(f"{SPEC}/comp/IntervalJoin.tla", f"{SPEC}/mc/IntervalJoin_seed.cfg", wdm, "ijseed", workers=2, coverage=False)
    V.coverage["IntervalJoin_seed_still_fails"] = r["invariant_violated"] == "JoinOK"
    r = tlc_check(f"{SPEC}/comp/IntervalJoin.tla", f"{SPEC}/mc/IntervalJoin_F11.cfg", wdm, "ijF11", workers=2, coverage=False)
    V.coverage["IntervalJoin_F11_still_fails"] = r["invariant_violated"] == "NoPanic"
    binary_replay(V, workdir("C08r"), tier, "C08", JOIN_VARIANTS)
    interval_join_replay(V, workdir("C08i"), tier)
    rng = random.Random(seed() + 8)
    results, traces, jobs_by_id = _focused(V, tier, "C08", gen.join_programs(rng, 60 if tier == "quick" else 600),
                                           checks=("result", "conform"), perturb_us=400)


def C09(V, tier):
    binary_replay(V, workdir("C09r"), tier, "C09", [("zip", {}), ("merge", {})])
    rng = random.Random(seed() + 9)
    results, traces, jobs_by_id = _focused(V, tier, "C09", gen.fan_programs(rng, 98 if tier == "quick" else 600),
                                           checks=("result", "conform"))


def C16(V, tier):
    op_replay(V, workdir("C16r"), tier, "C16", ["reorder"])
    rng = random.Random(seed() + 16)
    progs = gen.ordered_programs(rng, 24 if tier == "quick" else 160, big=(tier != "quick"))
    matrix = [({"mode": "local", "par": 1}, b) for b in ("default", "single", "fixed:1", "fixed:3", "fixed:1024", "adaptive:2:500")]
    matrix += [({"mode": "local", "par": 3}, "fixed:2"), ({"mode": "remote", "hosts": [1, 2]}, "default")]
    _focused(V, tier, "C16", progs, checks=("result", "link"), matrix=matrix, perturb_us=0)


def iteration_model(V, wd, tier):
    """sys/Iteration.tla: the loop protocol (lock generation, barrier, state feedback)."""
    for cfg in (["Iteration_quick"] if tier == "quick" else ["Iteration_quick", "Iteration_thorough"]):
        r = tlc_check(f"{SPEC}/sys/Iteration.tla", f"{SPEC}/mc/{cfg}.cfg", wd, cfg, workers=8, timeout=3000)
        if not r["ok"]:
            raise ToolError(f"model check {cfg}: {r['invariant_violated']} fails on the MODEL")
        require_coverage(r, ["HeadData", "HeadRestart", "BodyRecv", "LeaderDecide", "HeadState", "HeadBarrier"], cfg)
        V.add_model(r, cfg)
    # the adversarial variant (no wait_for_update) must show the stale read: its schedule is the gate
    r = tlc_check(f"{SPEC}/sys/Iteration.tla", f"{SPEC}/mc/Iteration_nowait.cfg", wd, "nowait", workers=4, coverage=False)
    V.coverage["nowait_variant_reads_stale_state"] = r["invariant_violated"] == "StateReadOK"


def C10(V, tier):
    from common import read_trace, split_trace_files, validate_parallel
    import project
    iteration_model(V, workdir("C10m"), tier)
    rng = random.Random(seed() + 10)
    q = tier == "quick"
    # D: results of loop programs (final state, iterate output) against the sequential loop semantics
    progs = gen.loop_programs(rng, 60 if q else 400)
    _focused(V, tier, "C10", progs, checks=("result", "boundary", "conform"), perturb_us=300)
    # T: per-round state reads, lock discipline, leader decisions, on replay loops with state-reading
    # bodies, multi-host layouts, with the state feedback of one host held back (schedule from the
    # counterexample of the no-wait variant of the model)
    wd = workdir("C10t")
    tprogs = []
    i = 0
    cands = gen.loop_programs(rng, 400, nested=False)
    for p in cands:
        loop = next(n for n in p["prog"]["nodes"] if n["id"] == "L")
        if loop["op"] != "replay" or not any(n["op"] == "map_st" for n in loop["body"]):
            continue
        if any(n["op"] in ("gb_fold",) for n in loop["body"]):
            continue
        import copy
        p = copy.deepcopy(p)
        # the race needs a network hop between the head and the operator that reads the state: make
        # sure a shuffle precedes the first state-reading map of the body, and enough elements
        loop = next(n for n in p["prog"]["nodes"] if n["id"] == "L")
        body = loop["body"]
        first_st = next(k for k, n in enumerate(body) if n["op"] == "map_st")
        if not any(n["op"] == "shuffle" for n in body[:first_st]):
            first = body[0]
            body.insert(0, {"id": "L_pre", "op": "shuffle", "in": ["$in"]})
            first["in"] = ["L_pre"]
        for n in p["prog"]["nodes"]:
            if n["op"] == "src" and n.get("kind") == "par_range":
                n["hi"] = n["lo"] + rng.choice([12, 24, 40])
        p["name"] = f"it{i}"
        p["prop"] = "C10"
        p["gate"] = {"kind": "delay_state", "host": rng.choice([0, 1]), "ms": rng.choice([5, 20, 40])}
        tprogs.append(p)
        i += 1
        if i >= (24 if q else 200):
            break
    matrix = [({"mode": "remote", "hosts": [1, 1]}, "default"), ({"mode": "remote", "hosts": [2, 1]}, "single"),
              ({"mode": "remote", "hosts": [2, 2]}, "fixed:2"), ({"mode": "local", "par": 3}, "default")]
    results, traces, jobs_by_id = jobsuite.run_suite(V, wd, tprogs, matrix, "C10", checks=("result",),
                                                     perturb_us=150)
    progs_by_job = {jid: j["prog"] for jid, j in jobs_by_id.items()}
    recs = []
    for t in traces:
        recs += list(project.iter_records(read_trace(t), results, progs_by_job))
    files = split_trace_files(recs, wd, "iter", max_events=6000)
    viols, consumed, states, _ = validate_parallel("IterTrace", files, wd)
    for v in viols:
        V.add_violation(v, replay=jobs_by_id.get(v.get("job")))
    V.coverage["states"] += states
    V.coverage["transitions"] += states
    V.coverage["state_reads_checked"] = sum(1 for r in recs if r["ev"] == "read")
    V.coverage["lock_events_checked"] = sum(1 for r in recs if r["ev"] in ("lock", "unlock", "wait_ret", "set_state"))
    V.coverage["leader_decisions_checked"] = sum(1 for r in recs if r["ev"] == "leader")
    if V.coverage["state_reads_checked"] < 50:
        raise ToolError("vacuous: fewer than 50 state reads observed")


def sideinput_model(V, wd, tier):
    """comp/SideInput.tla: BinaryStartReceiver with a cached side, receive timeouts, >= 2 loop producers.
    The configurations of the two repaired defects (F8, F10) must still produce their counterexamples."""
    for cfg in (["SideInput_quick"] if tier == "quick" else ["SideInput_quick", "SideInput_thorough"]):
        r = tlc_check(f"{SPEC}/comp/SideInput.tla", f"{SPEC}/mc/{cfg}.cfg", wd, cfg, workers=8, timeout=3000)
        if not r["ok"]:
            raise ToolError(f"model check {cfg}: {r['invariant_violated']} fails on the MODEL")
        require_coverage(r, ["SendL", "SendS", "Next_Recv", "Next_Timeout", "Next_Pop", "Next_EmitR", "Next_EmitX"], cfg)
        V.add_model(r, cfg)
    for cfg, inv in (("SideInput_F8", "NothingAfterLastRound"), ("SideInput_F10", "NothingAfterLastRound")):
        r = tlc_check(f"{SPEC}/comp/SideInput.tla", f"{SPEC}/mc/{cfg}.cfg", wd, cfg, workers=4, coverage=False)
        V.coverage[f"{cfg}_still_fails"] = r["invariant_violated"] == inv


def C11(V, tier):
    from common import read_trace, split_trace_files, validate_parallel
    import project
    sideinput_model(V, workdir("C11m"), tier)
    rng = random.Random(seed() + 11)
    progs = gen.loop_programs(rng, 60 if tier == "quick" else 400, nested=False, side=True)
    results, traces, jobs_by_id = _focused(V, tier, "C11", progs, checks=("result", "boundary", "conform"), perturb_us=300)
    # T: per round and per replica, what the block that combines the loop stream with the outside stream
    # was handed by its Start (start_out hook), against what it received from the network once
    wd = workdir("C11t")
    recs = []
    for t in traces:
        recs += list(project.side_records(read_trace(t), results))
    files = split_trace_files(recs, wd, "side", max_events=8000)
    viols, consumed, states, _ = validate_parallel("SideTrace", files, wd)
    for v in viols:
        V.add_violation(v, replay=jobs_by_id.get(v.get("job")))
    V.coverage["states"] += states
    V.coverage["transitions"] += states
    V.coverage["side_rounds_checked"] = sum(1 for r in recs if r["ev"] == "out" and r["k"] == "FR")
    V.coverage["side_items_replayed"] = sum(1 for r in recs if r["ev"] == "out" and r["k"] == "S")
    if V.coverage["side_rounds_checked"] < 20:
        raise ToolError("vacuous: fewer than 20 side-input rounds observed")


def C04(V, tier):
    """Termination: every family with inputs far larger than the channel capacities under tiny batches,
    empty inputs, loops, side inputs, diamonds; a job that makes no progress for hang_ms is a hang."""
    rng = random.Random(seed() + 4)
    q = tier == "quick"
    wd0 = workdir("C04m")
    if q:
        runtime_models(V, wd0, [("pipe", "pipe_quick")])
    else:
        runtime_models(V, wd0, [("pipe", "pipe"), ("diamond", "diamond_quick"), ("group", "group")], coverage=True)
    # the data cycle of iterate with bounded channels: the code (drain before every element, AMP = 1) never
    # deadlocks; an amplifying body (F9) and the regression seeded/C04 (drain only while the input is open) do
    for cfg in ("IterateLoop_ok", "IterateLoop_big"):
        r = tlc_check(f"{SPEC}/sys/IterateLoop.tla", f"{SPEC}/mc/{cfg}.cfg", wd0, cfg, workers=4, timeout=900)
        if not r["ok"]:
            raise ToolError(f"model check {cfg}: {r['invariant_violated']} fails on the MODEL")
        require_coverage(r, ["HeadNext", "HeadWait", "BodyRecv", "BodySend"], cfg)
        V.add_model(r, cfg)
    for cfg in ("IterateLoop_F9", "IterateLoop_seedC04"):
        r = tlc_check(f"{SPEC}/sys/IterateLoop.tla", f"{SPEC}/mc/{cfg}.cfg", wd0, cfg, workers=2, coverage=False)
        V.coverage[f"{cfg}_deadlocks"] = r["invariant_violated"] == "NoDeadlock"
    r = tlc_check(f"{SPEC}/sys/IterateLoop2.tla", f"{SPEC}/mc/IterateLoop2_single.cfg", wd0, "il2s", workers=2, coverage=False)
    if not r["ok"]:
        raise ToolError("IterateLoop2_single fails on the MODEL")
    V.add_model(r, "IterateLoop2_single")
    r = tlc_check(f"{SPEC}/sys/IterateLoop2.tla", f"{SPEC}/mc/IterateLoop2_shuffle.cfg", wd0, "il2", workers=2, coverage=False)
    V.coverage["IterateLoop2_shuffle_deadlocks"] = r["invariant_violated"] == "NoDeadlock"
    progs = []
    progs += gen.fan_programs(rng, 12 if q else 120)
    progs += gen.join_programs(rng, 10 if q else 120)
    progs += gen.loop_programs(rng, 12 if q else 150)
    progs += gen.loop_programs(rng, 8 if q else 100, nested=False, side=True)
    progs += gen.agg_programs(rng, 8 if q else 100)
    for i, p in enumerate(progs):
        p["name"] = f"t{i}_" + p["name"]
    # stress: enlarge the par_range sources (100..400 elements >> 16 batches per link)
    for p in progs:
        for n in p["prog"]["nodes"]:
            if n["op"] == "src" and n.get("kind") == "par_range" and n["hi"] - n["lo"] >= 5:
                # loops too: the content of an iterate loop must exceed the capacity of its feedback cycle
                # (2 x 16 batches) under tiny batches; amplifying bodies are generated for replay only (F9)
                n["hi"] = n["lo"] + (rng.choice([80, 120, 200]) if q else rng.choice([100, 250, 400]))
    # iterate loops whose content exceeds the bounded feedback cycle (2 x 16 batches) several times over
    for i in range(6 if q else 40):
        body = [{"id": "L_a", "op": "map", "f": rng.choice(["inc", "id", "add10"]), "in": ["$in"]}]
        if i % 2:
            body.append({"id": "L_b", "op": "shuffle", "in": ["L_a"]})
        nodes = [{"id": "s", "op": "src", "kind": "par_range", "lo": 0, "hi": rng.choice([150, 300, 600])},
                 {"id": "L", "op": "iterate", "rounds": rng.choice([2, 3, 4]), "init": 0, "lfold": "count", "gfold": "count",
                  "cond": "always", "body": body, "out": body[-1]["id"], "in": ["s"]},
                 {"id": "ks", "op": "sink", "kind": "collect_vec", "in": ["L.state"]},
                 {"id": "ko", "op": "sink", "kind": "collect_count", "in": ["L.out"]}]
        progs.append({"name": f"bigiter{i}", "prog": {"nodes": nodes},
                      "sinks": {"ks": {"kind": "collect_vec", "ordered": False}, "ko": {"kind": "collect_count", "ordered": False}}})
    extra = _programs(12 if q else 200, seed() + 404, "C04", max_ops=6)
    for p in extra:
        p["name"] = "g" + p["name"]
    progs += extra
    matrix = [({"mode": "local", "par": 1}, "single"), ({"mode": "local", "par": 3}, "fixed:1"),
              ({"mode": "local", "par": 2}, "adaptive:2:500"), ({"mode": "remote", "hosts": [2, 1]}, "single"),
              ({"mode": "remote", "hosts": [1, 1, 1]}, "default")]
    if not q:
        matrix += [({"mode": "local", "par": 4}, "single"), ({"mode": "remote", "hosts": [2, 2]}, "fixed:1"),
                   ({"mode": "remote", "hosts": [1, 3]}, "adaptive:3:200")]
    _focused(V, tier, "C04", progs, checks=("sinks", "link"), matrix=matrix, perturb_us=300, hang_ms=20000)
    # the witness of the open finding F9 (iterate with an amplifying body under single-element batches): it
    # hangs on some schedules only; a hang of exactly this class is the known finding, nothing else is
    wit = {"name": "f9witness", "prop": "C04", "prog": {"nodes": [
        {"id": "s", "op": "src", "kind": "par_range", "lo": 0, "hi": 10},
        {"id": "a", "op": "shuffle", "in": ["s"]},
        {"id": "L", "op": "iterate", "rounds": 2, "init": 0, "lfold": "count", "gfold": "count", "cond": "always",
         "body": [{"id": "L_a", "op": "flat_map", "g": "range3", "in": ["$in"]}, {"id": "L_b", "op": "flat_map", "g": "range3", "in": ["L_a"]},
                  {"id": "L_c", "op": "flat_map", "g": "dup", "in": ["L_b"]}], "out": "L_c", "in": ["a"]},
        {"id": "ks", "op": "sink", "kind": "collect_vec", "in": ["L.state"]},
        {"id": "ko", "op": "sink", "kind": "collect_count", "in": ["L.out"]}]},
        "sinks": {"ks": {"kind": "collect_vec", "ordered": False}, "ko": {"kind": "collect_count", "ordered": False}}}
    from common import run_jobs
    wjobs = jobsuite.make_jobs([wit], [({"mode": "local", "par": 1}, "single")] * 3, trace=False, hang_ms=4000,
                               base_seed=seed())
    wres, _ = run_jobs(wjobs, workdir("C04w"), nproc=3, timeout=120)
    for jid, r in wres.items():
        if r.get("hang"):
            V.add_violation({"prop": "C04", "kind": "job_hang", "job": jid,
                             "class": "iterate_amplifying_body_single_element_batches"}, replay=wjobs[0])
    V.coverage["f9_witness_runs"] = len(wres)
    V.coverage["f9_witness_hangs"] = sum(1 for r in wres.values() if r.get("hang"))


# ------------------------------------------------------------------------------------------------
# C20: fail-stop

CRASHABLE = {"map", "filter", "flat_map", "kmap", "kfold", "fold"}


def C20(V, tier):
    from common import run_jobs, read_trace, split_trace_files, validate_parallel
    wd = workdir("C20")
    # M: sys/Crash.tla = Runtime + one injected panic anywhere + disconnect propagation
    for tpl, cfg in ([("tiny", "tiny")] if tier == "quick" else [("group", "group"), ("pipe", "pipe")]):
        r = tlc_check(f"{SPEC}/mc/MC_CR_{tpl}.tla", f"{SPEC}/mc/MC_CR_{cfg}.cfg", wd, f"cr_{cfg}", workers=8, timeout=3000)
        if not r["ok"]:
            raise ToolError(f"Crash template {cfg}: {r['invariant_violated']} fails on the MODEL")
        require_coverage(r, ["Work", "Crash", "SendDead", "Starve"], f"Crash {cfg}")
        V.add_model(r, f"Crash/{cfg}")
    rng = random.Random(seed() + 20)
    q = tier == "quick"
    base = []
    base += gen.fan_programs(rng, 12 if q else 60)
    base += gen.join_programs(rng, 10 if q else 60)
    base += gen.agg_programs(rng, 12 if q else 60)
    base += [{"name": f"gen{i}", "prog": pr, "sinks": sk} for i, (pr, sk) in
             enumerate(gen.gen_program(seed() * 13 + i, max_ops=6, allow_loops=False) for i in range(14 if q else 80))]
    configs = [({"mode": "local", "par": 1}, "default"), ({"mode": "local", "par": 3}, "single"),
               ({"mode": "remote", "hosts": [2, 1]}, "default"), ({"mode": "remote", "hosts": [1, 2]}, "fixed:2")]
    if not q:
        configs += [({"mode": "local", "par": 4}, "fixed:1"), ({"mode": "remote", "hosts": [1, 1, 1]}, "single"),
                    ({"mode": "remote", "hosts": [2, 2]}, "adaptive:2:500")]
    # make sure the crash points are reachable: no empty inputs
    import copy
    base = copy.deepcopy(base)
    for p in base:
        for n in p["prog"]["nodes"]:
            if n["op"] == "src" and n.get("kind") == "par_range" and n["hi"] - n["lo"] < 24:
                n["hi"] = n["lo"] + 24
            if n["op"] == "src" and n.get("kind") == "iter" and len(n["data"]) < 12:
                n["data"] = n["data"] + [rng.randrange(0, 60) for _ in range(12)]
    # enumerate crash points: (program, crashable node, replica, element index)
    progs = []
    for p in base:
        nodes = [n for n in p["prog"]["nodes"] if n["op"] in CRASHABLE]
        if not nodes:
            continue
        pts = []
        for n in nodes:
            for gid in (-1, -1, 0):
                for at in (0, 1, 3):
                    pts.append((n["id"], gid, at))
        rng.shuffle(pts)
        for (node, gid, at) in pts[: (5 if q else 6)]:
            progs.append({"name": f"{p['name']}@{node}.{gid}.{at}", "prog": p["prog"], "sinks": p["sinks"],
                          "crash": {"node": node, "gid": gid, "at": at}})
    jobs = jobsuite.make_jobs(progs, configs, trace=True, keep=["probe", "worker", "exec_end"],
                              base_seed=seed(), hang_ms=12000)
    results, traces = run_jobs(jobs, wd, timeout=900)
    # the execution graph (blocks, edges, placement) of every (program, config)
    gcases = [{"id": j["id"], "prog": j["prog"], "cfg": j["cfg"]} for j in jobs]
    os.makedirs(wd + "/g", exist_ok=True)
    gres, _ = run_jobs(gcases, wd + "/g", cmd="graph", timeout=600)
    jobs_by_id = {j["id"]: j for j in jobs}
    # which blocks crashed first / which block holds which probe: from the traces
    info = {}
    for t in traces:
        cur = None
        for e in read_trace(t):
            ev = e.get("ev")
            if ev == "job":
                cur = e["id"]
                info[cur] = {"probe_block": {}, "crashed": []}
            elif ev == "probe":
                info[cur]["probe_block"].setdefault(e["id"], int(e["at"].split(".")[0]))
            elif ev == "worker" and e.get("what") == "crash":
                b, h, _r = (int(x) for x in e["at"].split("."))
                info[cur]["crashed"].append({"b": b, "h": h, "c": e["at"]})
    recs = []
    triggered = 0
    for jid, r in results.items():
        j = jobs_by_id[jid]
        injected = any("verif: injected crash" in p for p in r.get("panics", []))
        if not injected and not r.get("hang"):
            continue   # the crash point was not reached on this configuration: an ordinary run
        triggered += 1
        g = gres.get(jid)
        inf = info.get(jid, {"probe_block": {}, "crashed": []})
        # the block of the injected operator: the first worker that crashed (the others crash later
        # because their channels were dropped)
        cb = inf["crashed"][0]["b"] if inf["crashed"] else None
        if g is None or any(d.get("panic") for d in g["dumps"]) or cb is None:
            continue
        d0 = g["dumps"][0]
        edges = [{"from": b["id"], "to": n[0]} for b in d0["blocks"] for n in b["next"]]
        replicas = [{"b": b["id"], "h": x["host"], "c": x["coord"]} for b in d0["blocks"] for x in b["replicas"]]
        links = sorted({(l[0], l[1]) for d in g["dumps"] for l in d["links"]})
        links = [{"from": a, "to": b} for a, b in links]
        sinks = []
        for h in r.get("hosts", []):
            for sk in h.get("sinks", []):
                if sk["kind"] not in jobsuite.STREAM_OUTPUT_SINKS:
                    continue   # collect_channel / for_each stream by contract (DESIGN.md 2.9)
                node = next(n for n in j["prog"]["nodes"] if n["id"] == sk["id"])
                inb = inf["probe_block"].get(node["in"][0])
                if inb is None:
                    continue
                sinks.append({"id": sk["id"], "b": inb, "published": sk["res"] is not None, "h": h.get("host", 0)})
        hosts = [{"h": h.get("host", 0), "failed": not h.get("ok", False)} for h in r.get("hosts", [])]
        # the replicas whose own user function panicked: crashed workers of the injected block
        failed = [c for c in inf["crashed"] if c["b"] == cb]
        if not failed:
            continue
        recs.append({"ev": "case", "id": jid, "crashed": failed, "edges": edges, "links": links, "replicas": replicas,
                     "hosts": hosts, "sinks": sinks,
                     "hung": bool(r.get("hang")) or r.get("lingering", 0) > 0})
        recs.append({"ev": "done", "id": jid})
    files = split_trace_files(recs, wd, "crash", max_events=400)
    viols, consumed, states, _ = validate_parallel("CrashCheck", files, wd)
    for v in viols:
        V.add_violation(v, replay=jobs_by_id.get(v.get("job")))
    V.coverage["states"] += states
    V.coverage["transitions"] += states
    V.coverage["traces_validated_against_impl"] += len(recs) // 2
    V.coverage["crash_points_run"] = len(jobs)
    V.coverage["crash_points_triggered"] = triggered
    if recs:
        V.sample({k: recs[0][k] for k in ("id", "crashed", "hosts", "sinks")})
    if triggered < len(jobs) // 5:
        raise ToolError(f"only {triggered} of {len(jobs)} crash points triggered: vacuous")


# ------------------------------------------------------------------------------------------------
# C18: batching never withholds data

def latency_jobs(tier, rng):
    jobs = []
    modes = ["adaptive:1000:20000", "adaptive:64:20000", "adaptive:3:20000", "fixed:1000", "single", "fixed:2"]
    depths = [1, 2, 3]
    pars = [1, 2, 3]
    combos = [(m, d, p) for m in modes for d in depths for p in pars]
    rng.shuffle(combos)
    n = 18 if tier == "quick" else 150
    # make sure every mode occurs
    chosen = []
    for m in modes:
        chosen.append(next(c for c in combos if c[0] == m))
    chosen += [c for c in combos if c not in chosen][: max(0, n - len(chosen))]
    while len(chosen) < n:          # thorough: the same (mode, depth, parallelism) again with other feed patterns
        chosen.append(rng.choice(combos))
    # adaptive batching, ONE element at a time in quick succession (below the max delay, so no age flush at
    # enqueue), through a single batcher (forward boundaries or parallelism 1), after the source went idle
    forced = [("adaptive:1000:20000", 1, 1, "single_path"), ("adaptive:64:20000", 2, 3, "single_path"),
              ("adaptive:1000:20000", 3, 2, "single_path")]
    # two-input blocks: a finite stream merged with the live one; once the finite side has ended the block must still
    # notice idle periods (its receive timeout is what makes End flush)
    two = [("adaptive:1000:20000", 1, 1, "merge_l"), ("adaptive:1000:20000", 2, 2, "merge_r"),
           ("adaptive:64:20000", 1, 3, "merge_l"), ("adaptive:1000:20000", 1, 2, "merge_l")]
    plan = [(m, d, p, "mixed") for (m, d, p) in chosen] + forced + two
    for i, (mode, depth, par, shape) in enumerate(plan):
        nodes = [{"id": "s", "op": "src", "kind": "channel", "cap": 1024}]
        cur = "s"
        if shape in ("merge_l", "merge_r"):
            nodes.append({"id": "f", "op": "src", "kind": "iter", "data": [100000, 100001, 100002]})
            nodes.append({"id": "mg", "op": "merge", "in": ["f", "s"] if shape == "merge_l" else ["s", "f"]})
            cur = "mg"
        for d in range(depth):
            nodes.append({"id": f"m{d}", "op": "map", "f": "inc", "in": [cur]})
            # a forward connection is legal only towards equally many or a single replica
            opk = "replicate" if shape == "single_path" else rng.choice(["shuffle", "shuffle", "replicate"])
            nodes.append({"id": f"x{d}", "op": opk, "repl": "one", "in": [f"m{d}"]})
            cur = f"x{d}"
        nodes.append({"id": "k", "op": "sink", "kind": "collect_channel", "in": [cur]})
        k = 1 if shape == "single_path" else (rng.choice([2, 5]) if shape.startswith("merge") else rng.choice([1, 2, 5]))
        pauses = [0, 6, 7, 9, 40, 5] if shape == "single_path" else rng.choice([[0, 6], [30, 5, 9], [0, 40, 7], [0, 5, 120], [60, 8]])
        if shape.startswith("merge"):
            pauses = [300, 5, 200, 7]      # the finite side has long ended when the first burst arrives
        if tier != "quick" and i >= 18 and shape != "single_path":
            pauses = [rng.choice([0, 3, 5, 6, 7, 9, 15, 30, 40, 60, 120]) for _ in range(rng.randint(2, 6))]
        feed = []
        t = 0
        v = 0
        for pz in pauses:
            t += pz
            feed.append({"at_ms": t, "src": "s", "vals": list(range(v, v + k))})
            v += k
        idle = 2500
        feed.append({"at_ms": t, "close": True, "after_drained_ms": idle})
        jobs.append({"id": f"lat{i}_{mode}_d{depth}_p{par}_{shape}", "prog": {"nodes": nodes},
                     "cfg": {"mode": "local", "par": par}, "batch": mode, "trace": True,
                     "keep": ["fed", "arrive", "close", "enq", "send", "recv"], "feed": feed,
                     "hang_ms": 20000, "meta": {"adaptive": mode.startswith("adaptive")}})
    return jobs


def C18(V, tier):
    from common import run_jobs, read_trace, split_trace_files, validate_parallel
    import project
    wd = workdir("C18")
    # M: sys/Batching.tla (explicit time): bounded delay DEPTH * D under adaptive batching; the variant
    # whose Start never re-arms its timeout must violate it
    for cfg in (["Batching_quick"] if tier == "quick" else ["Batching_quick", "Batching_thorough"]):
        r = tlc_check(f"{SPEC}/sys/Batching.tla", f"{SPEC}/mc/{cfg}.cfg", wd, cfg, workers=6, timeout=3000)
        if not r["ok"]:
            raise ToolError(f"model check {cfg}: {r['invariant_violated']} fails on the MODEL")
        require_coverage(r, ["Feed", "Recv", "Timeout", "Tick"], cfg)
        V.add_model(r, cfg)
    r = tlc_check(f"{SPEC}/sys/Batching.tla", f"{SPEC}/mc/Batching_noarm.cfg", wd, "noarm", workers=2, coverage=False)
    V.coverage["no_rearm_variant_breaks_bounded_delay"] = r["invariant_violated"] == "BoundedDelay"
    r = tlc_check(f"{SPEC}/sys/Batching.tla", f"{SPEC}/mc/Batching_seedC18b.cfg", wd, "seedC18b", workers=2, coverage=False)
    V.coverage["blind_block_variant_breaks_bounded_delay"] = r["invariant_violated"] == "BoundedDelay"
    rng = random.Random(seed() + 18)
    jobs = latency_jobs(tier, rng)
    results, traces = run_jobs(jobs, wd, nproc=min(len(jobs), 12), timeout=600)
    by_id = {j["id"]: j for j in jobs}
    for jid, r in results.items():
        if r.get("hang"):
            V.add_violation({"prop": "C18", "kind": "job_hang", "job": jid}, replay=by_id[jid])
        elif not jobsuite.job_ok(r):
            V.add_violation({"prop": "C18", "kind": "job_panic", "job": jid, "panics": r.get("panics", [])[:2]},
                            replay=by_id[jid])
    recs = []
    for t in traces:
        for e in read_trace(t):
            ev = e.get("ev")
            if ev == "job":
                recs.append({"ev": "job", "id": e["id"], "adaptive": bool(e.get("meta", {}).get("adaptive"))})
            elif ev in ("fed", "arrive"):
                if ev == "arrive" and isinstance(e.get("v"), int) and e["v"] >= 50000:
                    continue      # elements of the finite side of a merge shape: not handed to the channel source
                recs.append({"ev": ev, "v": e["v"]})
            elif ev == "close":
                recs.append({"ev": "close"})
            elif ev in ("done", "hang"):
                r = results.get(e["id"], {})
                recs.append({"ev": "done", "id": e["id"], "ok": ev == "done" and jobsuite.job_ok(r)})
    files = split_trace_files(recs, wd, "lat")
    viols, consumed, states, _ = validate_parallel("Latency", files, wd)
    for v in viols:
        V.add_violation(v, replay=by_id.get(v.get("job")))
    # every buffered element is delivered at the latest when its iteration ends: nothing left in any link
    lrecs = []
    for ti, t in enumerate(traces):
        lrecs += list(project.link_records(read_trace(t), results))
    lfiles = split_trace_files(lrecs, wd, "link")
    lv, _, lstates, _ = validate_parallel("Link", lfiles, wd)
    for v in lv:
        if v["kind"] == "left_in_link_at_end":
            v2 = dict(v)
            v2["prop"] = "C18"
            v2["kind"] = "pending_after_restart"
            V.add_violation(v2, replay=by_id.get(v.get("job")))
    V.coverage["states"] += states + lstates
    V.coverage["transitions"] += states + lstates
    V.coverage["traces_validated_against_impl"] += len(jobs)
    V.coverage["latency_jobs"] = [j["id"] for j in jobs]
    V.sample({"job": jobs[0]["id"], "feed": jobs[0]["feed"]})
    V.assumptions += ["the idle period (2.5 s) is two orders of magnitude above depth x max delay (20 ms): the verdict is the order of events, not a measured latency"]


def replay(pid, path, V):
    """./check <ID> --replay <file>: run the stored case again on the current tree and judge it the same way
    (jobs: the full T/D pipeline on that one job, 3 runs; other replay kinds are printed)."""
    with open(path) as f:
        data = json.load(f)
    print(json.dumps(data.get("violation"), indent=1)[:3000])
    rp = data.get("replay")
    job = rp.get("job") if isinstance(rp, dict) and "job" in rp and isinstance(rp["job"], dict) else rp
    if isinstance(job, dict) and "prog" in job and "cfg" in job:
        sinks = {n["id"]: {"kind": n["kind"], "ordered": False} for n in job["prog"]["nodes"] if n["op"] == "sink"}
        prog = {"name": "replayed", "prog": job["prog"], "sinks": sinks, "prop": pid}
        for k in ("gate", "crash"):
            if k in job:
                prog[k] = job[k]
        wd = workdir(pid + "_replay")
        jobsuite.run_suite(V, wd, [prog], [(job["cfg"], job.get("batch", "default"))] * 3, pid,
                           checks=("result", "link", "boundary") if not job.get("crash") else ("link",),
                           perturb_us=job.get("perturb_us", 0), expect_panic=bool(job.get("crash")))
        rc = V.finish(dry=True)
        print(f"replayed 3 runs of {job.get('id')}: " + ("violation reproduced" if rc else
              "no violation on this tree in these runs (schedule-dependent cases need the check's own perturbation)"))
        return rc
    if isinstance(rp, dict) and isinstance(rp.get("behaviour"), dict) and "h" in rp["behaviour"]:
        # a behaviour of comp/Start.tla: enforce its arrival order on the real Start again (3 runs), judge with StartCheck
        import replay_start as rs
        from common import run_jobs, split_trace_files, validate_parallel
        wd = workdir(pid + "_replay")
        beh = rp["behaviour"]
        jobs = [dict(rs.behaviour_to_job(f"b{i}", beh), gate_timeout_ms=8000) for i in range(3)]
        results, traces = run_jobs(jobs, wd, timeout=300, nproc=1)
        recs = []
        for tf in traces:
            for jid, h, ev in rs.real_histories(tf):
                res = results.get(jid, {})
                if ev == "hang" or res.get("hang") or not jobsuite.job_ok(res):
                    V.add_violation({"prop": pid, "kind": "job_hang_or_panic", "job": jid})
                    continue
                recs += [{"ev": "case", "id": jid, "n": beh["n"], "h": h, "hm": beh["h"],
                          "enf": res.get("gate_timeouts", 0) == 0}, {"ev": "done", "id": jid}]
        files = split_trace_files(recs, wd, "startcheck", max_events=600)
        viols, _, _, _ = validate_parallel("StartCheck", files, wd)
        for v in viols:
            if v["prop"] == pid:
                V.add_violation(v)
        rc = V.finish(dry=True)
        print("replayed the behaviour 3 times on the real Start: " + ("violation reproduced" if rc else "no violation on this tree"))
        return rc
    print("(no re-runnable job in this replay file: this kind of case is replayed by the check itself)")
    return 0
