"""Shared machinery of the /verif checks: building the harness, running jobs, running TLC
(model checking, behaviour generation, trace validation), verdicts and evidence."""
import json
import os
import re
import shutil
import subprocess
import sys
import time
from concurrent.futures import ThreadPoolExecutor

ROOT = os.path.dirname(os.path.dirname(os.path.abspath(__file__)))
SPEC = os.path.join(ROOT, "spec")
HARNESS = os.path.join(ROOT, "harness")
VH = os.path.join(HARNESS, "target", "debug", "vh")
WORK = os.path.join(ROOT, "work")
EVID = os.path.join(ROOT, "evidence")
REPLAYS = os.path.join(ROOT, "replays")
JARS = "/opt/veriftools/tla/tla2tools.jar:/opt/veriftools/tla/CommunityModules-deps.jar"
TLA_LIB = os.pathsep.join(
    os.path.join(SPEC, d) for d in ("", "comp", "sys", "mc", "gen", "trace")
)
NPROC = max(2, min(14, (os.cpu_count() or 4) - 2))


class ToolError(Exception):
    """Something in the tooling (not in the code under test) went wrong: exit 2."""


def log(*a):
    print(*a, file=sys.stderr, flush=True)


def seed():
    try:
        return int(os.environ.get("VERIF_SEED", "1"))
    except ValueError:
        return 1


def workdir(name):
    # runs with another seed or tier may share the machine with the default run of the same check
    sfx = ("" if seed() == 1 else f"_s{seed()}") + ("_th" if TIER["tier"] == "thorough" else "")
    d = os.path.join(WORK, name + sfx)
    shutil.rmtree(d, ignore_errors=True)
    os.makedirs(d, exist_ok=True)
    return d


# --------------------------------------------------------------------------------------------
# harness


def build_harness():
    """Incremental build of the harness against /repo's current working tree."""
    t0 = time.time()
    env = dict(os.environ, CARGO_NET_OFFLINE="true")
    p = subprocess.run(
        ["cargo", "build", "--offline", "--quiet"],
        cwd=HARNESS,
        env=env,
        stdout=subprocess.PIPE,
        stderr=subprocess.STDOUT,
        text=True,
    )
    if p.returncode != 0 or not os.path.exists(VH):
        log(p.stdout[-4000:])
        raise ToolError("harness build failed (does /repo compile with --features verif?)")
    return time.time() - t0


def _run_vh_chunk(args):
    """Run one vh process over a chunk of jobs; restart after a hang (exit status 3)."""
    cmd, jobs_path, res_path, trace_path, slot, njobs, timeout = args
    skip = 0
    restarts = 0
    t0 = time.time()
    while True:
        a = [VH, cmd, jobs_path, res_path, trace_path, "--slot", str(slot)]
        if skip:
            a += ["--skip", str(skip)]
        try:
            p = subprocess.run(a, stdout=subprocess.PIPE, stderr=subprocess.PIPE, text=True,
                               timeout=max(10, timeout - (time.time() - t0)))
        except subprocess.TimeoutExpired:
            raise ToolError(f"vh {cmd} chunk {jobs_path} exceeded {timeout}s")
        if p.returncode == 0:
            return restarts
        if p.returncode == 4:
            # worker threads of the last job were still alive: continue in a fresh process
            last = None
            with open(res_path) as f:
                for line in f:
                    if line.strip():
                        last = json.loads(line)
            skip = int(last["index"]) + 1
            restarts += 1
            if skip >= njobs:
                return restarts
            continue
        if p.returncode == 3:
            # a job hung: its result line says which; continue after it
            last = None
            with open(res_path) as f:
                for line in f:
                    if line.strip():
                        last = json.loads(line)
            if last is None or not last.get("hang"):
                raise ToolError("vh exited 3 without a hang record")
            skip = int(last["index"]) + 1
            restarts += 1
            if skip >= njobs:
                return restarts
            continue
        raise ToolError(f"vh {cmd} failed with status {p.returncode}: {p.stderr[-2000:]}")


TIER = {"tier": "quick"}


def tscale(timeout):
    """Tool timeouts are about a stuck tool, not a verdict: they stretch with the tier and the load of the machine
    (other checks running beside this one), so that a busy machine yields a slow run, never exit 2."""
    try:
        load = os.getloadavg()[0] / 16.0
    except OSError:
        load = 1.0
    return int(timeout * max(1.0, min(load, 6.0)) * (3 if TIER["tier"] == "thorough" else 1))


def run_jobs(jobs, wd, nproc=None, timeout=900, cmd="jobs"):
    """Run jobs on `nproc` harness processes. Returns (results by id, list of trace files)."""
    timeout = tscale(timeout)
    nproc = nproc or NPROC
    nproc = max(1, min(nproc, len(jobs)))
    chunks = [[] for _ in range(nproc)]
    for i, j in enumerate(jobs):
        chunks[i % nproc].append(j)
    args = []
    base_slot = (os.getpid() % 16) * 15
    for i, ch in enumerate(chunks):
        jp = os.path.join(wd, f"jobs_{i}.ndjson")
        with open(jp, "w") as f:
            for j in ch:
                f.write(json.dumps(j) + "\n")
        args.append((cmd, jp, os.path.join(wd, f"res_{i}.ndjson"),
                     os.path.join(wd, f"trace_{i}.ndjson"), base_slot + i, len(ch), timeout))
    with ThreadPoolExecutor(max_workers=nproc) as ex:
        list(ex.map(_run_vh_chunk, args))
    results = {}
    for a in args:
        with open(a[2]) as f:
            for line in f:
                if line.strip():
                    r = json.loads(line)
                    results[r["id"]] = r
    return results, [a[3] for a in args]


def read_trace(path):
    with open(path) as f:
        for line in f:
            line = line.strip()
            if line:
                yield json.loads(line)


# --------------------------------------------------------------------------------------------
# TLC


def _java(extra_props, xmx="3g", xss="512m"):
    return ["java", "-XX:+UseParallelGC", f"-Xss{xss}", f"-Xmx{xmx}",
            f"-DTLA-Library={TLA_LIB}"] + extra_props + ["-cp", JARS, "tlc2.TLC"]


def tlc_trace(spec, trace_file, wd, tag, cfg=None, timeout=600, env_extra=None):
    """Validate one projected trace file against a trace specification.
    Returns (violation records, consumed count, stdout)."""
    timeout = tscale(timeout)
    spec_path = os.path.join(SPEC, "trace", spec + ".tla")
    cfg = cfg or os.path.join(SPEC, "trace", spec + ".cfg")
    md = os.path.join(wd, f"md_{tag}")
    env = dict(os.environ, TRACE=os.path.abspath(trace_file))
    env.pop("JAVA_TOOL_OPTIONS", None)
    if env_extra:
        env.update(env_extra)
    cmd = _java(["-Dtlc2.tool.queue.IStateQueue=StateDeque"], xmx="2g") + [
        "-workers", "1", "-metadir", md, "-cleanup", "-noGenerateSpecTE",
        "-config", cfg, spec_path]
    try:
        p = subprocess.run(cmd, env=env, stdout=subprocess.PIPE, stderr=subprocess.STDOUT,
                           text=True, timeout=timeout, cwd=os.path.join(SPEC, "trace"))
    except subprocess.TimeoutExpired:
        raise ToolError(f"TLC trace validation {spec} timed out after {timeout}s")
    finally:
        shutil.rmtree(md, ignore_errors=True)
    out = p.stdout
    viols = []
    consumed = None
    infos = []
    for line in out.splitlines():
        if line.startswith('<<"VIOL", '):
            m = re.match(r'<<"VIOL", (".*")>>$', line.strip())
            if m:
                viols.append(json.loads(json.loads(m.group(1))))
        elif line.startswith('<<"CONSUMED", '):
            m = re.match(r'<<"CONSUMED", (\d+), "VIOLATIONS", (\d+)>>', line.strip())
            if m:
                consumed = int(m.group(1))
        elif line.startswith('<<"INFO", '):
            m = re.match(r'<<"INFO", (".*")>>$', line.strip())
            if m:
                infos.append(json.loads(json.loads(m.group(1))))
    ok = "Model checking completed. No error has been found." in out
    if not ok or consumed is None:
        tail = "\n".join(out.splitlines()[-40:])
        raise ToolError(f"TLC trace validation {spec} on {trace_file} did not complete:\n{tail}")
    stats = parse_tlc_stats(out)
    # de-duplicate (an action may be evaluated more than once)
    seen = set()
    uniq = []
    for v in viols:
        k = json.dumps(v, sort_keys=True)
        if k not in seen:
            seen.add(k)
            uniq.append(v)
    return uniq, consumed, stats, infos


def parse_tlc_stats(out):
    st = {"states": 0, "distinct": 0}
    m = re.search(r"(\d+) states generated, (\d+) distinct states found", out)
    if m:
        st["states"] = int(m.group(1))
        st["distinct"] = int(m.group(2))
    return st


def tlc_check(module_path, cfg_path, wd, tag, workers=8, timeout=900, xmx="8g", simulate=None,
              extra=None, coverage=True, env_extra=None):
    """Model check (or simulate) a specification. Returns dict with ok, out, states, distinct,
    coverage {action: count}, replay lines (JSON values printed as <<"REPLAY", json>>)."""
    timeout = tscale(timeout)
    md = os.path.join(wd, f"md_{tag}")
    env = dict(os.environ)
    env.pop("JAVA_TOOL_OPTIONS", None)
    if env_extra:
        env.update(env_extra)
    cmd = _java([], xmx=xmx) + ["-workers", str(workers), "-metadir", md, "-cleanup",
                                "-noGenerateSpecTE", "-config", cfg_path]
    if coverage:
        cmd += ["-coverage", "1"]
    if simulate:
        cmd += ["-simulate", simulate]
    if extra:
        cmd += extra
    cmd.append(module_path)
    t0 = time.time()
    try:
        p = subprocess.run(cmd, env=env, stdout=subprocess.PIPE, stderr=subprocess.STDOUT,
                           text=True, timeout=timeout, cwd=os.path.dirname(module_path))
    except subprocess.TimeoutExpired:
        raise ToolError(f"TLC on {module_path} timed out after {timeout}s")
    finally:
        shutil.rmtree(md, ignore_errors=True)
    out = p.stdout
    res = parse_tlc_stats(out)
    res["out"] = out
    res["wall_s"] = time.time() - t0
    res["ok"] = "No error has been found" in out or (simulate is not None and "Error" not in out)
    res["invariant_violated"] = None
    m = re.search(r"Invariant (\S+) is violated", out)
    if m:
        res["invariant_violated"] = m.group(1)
    m = re.search(r"Temporal properties were violated", out)
    if m:
        res["invariant_violated"] = "temporal"
    if "Deadlock reached" in out:
        res["invariant_violated"] = "deadlock"
    cov = {}
    for m in re.finditer(r"<(\w+) line \d+, col \d+ to line \d+, col \d+ of module (\w+)>: (\d+):(\d+)", out):
        name = m.group(1)
        cov[name] = cov.get(name, 0) + int(m.group(4))
    res["coverage"] = cov
    replays = []
    for line in out.splitlines():
        if line.startswith('<<"REPLAY", '):
            m = re.match(r'<<"REPLAY", (".*")>>$', line.strip())
            if m:
                replays.append(json.loads(json.loads(m.group(1))))
    res["replays"] = replays
    if not res["ok"] and res["invariant_violated"] is None and simulate is None:
        tail = "\n".join(out.splitlines()[-40:])
        raise ToolError(f"TLC failed on {module_path}:\n{tail}")
    return res


def require_coverage(res, actions, what):
    """Vacuity guard: every listed action must have been taken at least once."""
    missing = [a for a in actions if res["coverage"].get(a, 0) == 0]
    if missing:
        raise ToolError(f"vacuous model check of {what}: actions never taken: {missing}")


def split_trace_files(records, wd, prefix, max_events=40000):
    """Write projected records to chunk files, splitting only at job boundaries."""
    files = []
    cur = []
    n = 0

    def flush():
        nonlocal cur
        if cur:
            p = os.path.join(wd, f"{prefix}_{len(files)}.ndjson")
            with open(p, "w") as f:
                for r in cur:
                    f.write(json.dumps(r) + "\n")
            files.append(p)
            cur = []

    job = []
    for r in records:
        job.append(r)
        if r.get("ev") in ("done", "hang"):
            if n + len(job) > max_events and cur:
                flush()
                n = 0
            cur.extend(job)
            n += len(job)
            job = []
    cur.extend(job)
    flush()
    return files


def validate_parallel(spec, files, wd, nproc=None, timeout=600):
    """Run one single-worker TLC per projected chunk file, in parallel."""
    nproc = nproc or NPROC
    viols, consumed, states = [], 0, 0
    infos = []

    def one(i_f):
        i, f = i_f
        return tlc_trace(spec, f, wd, f"{spec}_{i}", timeout=timeout)

    with ThreadPoolExecutor(max_workers=max(1, min(nproc, len(files) or 1))) as ex:
        for v, c, st, inf in ex.map(one, list(enumerate(files))):
            viols.extend(v)
            consumed += c
            states += st["states"]
            infos.extend(inf)
    return viols, consumed, states, infos


# --------------------------------------------------------------------------------------------
# element projection


def el_str(el):
    """Canonical string of an element (kind, payload, timestamp)."""
    k = el.get("k", "?")
    if k in ("I",):
        return "I:" + json.dumps(el.get("v"), separators=(",", ":"))
    if k == "T":
        return "T:" + json.dumps(el.get("v"), separators=(",", ":")) + "@" + str(el.get("ts"))
    if k == "W":
        return "W@" + str(el.get("ts"))
    return k


def small(n, lim=2_000_000_000):
    """Clamp an integer into TLC's 32-bit range (keeps order among small values)."""
    if n is None:
        return 0
    if n > lim:
        return lim
    if n < -lim:
        return -lim
    return int(n)


# --------------------------------------------------------------------------------------------
# verdicts, known findings, evidence


def load_known():
    p = os.path.join(ROOT, "known_findings.json")
    if not os.path.exists(p):
        return []
    with open(p) as f:
        return json.load(f).get("findings", [])


def match_known(viol, known):
    """A violation record matches an open finding when every key of the finding's signature is
    present in the record with the same value (lists: the record's value must be in the list)."""
    for k in known:
        if k.get("status") != "open" or k.get("property") != viol.get("prop"):
            continue
        sig = k.get("signature", {})
        ok = True
        for key, want in sig.items():
            have = viol.get(key)
            if have is None and isinstance(viol.get("extra"), dict):
                have = viol["extra"].get(key)
            if isinstance(want, list):
                if have not in want:
                    ok = False
                    break
            elif have != want:
                ok = False
                break
        if ok:
            return k
    return None


class Verdict:
    def __init__(self, prop, tier):
        self.prop = prop
        self.tier = tier
        TIER["tier"] = tier
        self.t0 = time.time()
        self.violations = []   # (record, replay payload)
        self.known_hits = {}
        self.drift = []
        self.coverage = {"states": 0, "transitions": 0, "traces_validated_against_impl": 0,
                         "samples": []}
        self.assumptions = []
        self.known = load_known()

    def add_model(self, res, name):
        self.coverage["states"] += res.get("distinct", 0)
        self.coverage["transitions"] += res.get("states", 0)
        self.coverage.setdefault("models", []).append(
            {"model": name, "distinct": res.get("distinct", 0), "generated": res.get("states", 0),
             "wall_s": round(res.get("wall_s", 0), 1), "actions": res.get("coverage", {})})

    def add_violation(self, rec, replay=None):
        """`rec` is a violation record from a predicate evaluated on real-code behaviour."""
        rec = dict(rec)
        rec.setdefault("prop", self.prop)
        if rec["prop"] != self.prop:
            # a predicate of another property fired in a shared trace spec: reported by that
            # property's own check, here only noted
            self.coverage.setdefault("other_property_violations", []).append(rec)
            return
        k = match_known(rec, self.known)
        if k is not None:
            self.known_hits.setdefault(k["id"], {"finding": k, "count": 0, "example": rec})
            self.known_hits[k["id"]]["count"] += 1
            return
        self.violations.append((rec, replay))

    def sample(self, s):
        if len(self.coverage["samples"]) < 6:
            self.coverage["samples"].append(s)

    def finish(self, level="model_checking", dry=False):
        """dry: a --replay run; prints verdict lines but leaves evidence/ and replays/ untouched."""
        os.makedirs(EVID, exist_ok=True)
        os.makedirs(REPLAYS, exist_ok=True)
        if dry:
            for kid, h in sorted(self.known_hits.items()):
                print(f"KNOWN-FINDING: property={self.prop} {h['finding']['what']} [{kid}, {h['count']} occurrence(s)]")
            for rec, _ in self.violations[:20]:
                print(f"REPRODUCED property={self.prop} {json.dumps(rec)[:600]}")
            return 1 if self.violations else 0
        for kid, h in sorted(self.known_hits.items()):
            print(f"KNOWN-FINDING: property={self.prop} {h['finding']['what']} "
                  f"[{kid}, {h['count']} occurrence(s)]")
        paths = []
        for i, (rec, replay) in enumerate(self.violations[:20]):
            path = os.path.join(REPLAYS, f"{self.prop}_{self.tier}_{seed()}_{i}.json")
            with open(path, "w") as f:
                json.dump({"violation": rec, "replay": replay}, f, indent=1)
            paths.append(path)
            print(f"VIOLATION property={self.prop} replay={path}")
            log("  ", json.dumps(rec)[:600])
        for d in self.drift[:10]:
            print(f"DRIFT property={self.prop} {d}")
        cov = self.coverage
        cov["states"] = max(1, cov["states"])
        cov["transitions"] = max(1, cov["transitions"])
        if not cov["samples"]:
            cov["samples"] = ["(no sample recorded)"]
        cov["known_findings_hit"] = {k: v["count"] for k, v in self.known_hits.items()}
        cov["drift"] = self.drift[:20]
        ev = {
            "property_id": self.prop,
            "tier": self.tier,
            "seed": seed(),
            "level": level,
            "coverage": cov,
            "assumptions": self.assumptions,
            "wall_s": round(time.time() - self.t0, 2),
            "violations": len(self.violations),
        }
        with open(os.path.join(EVID, f"{self.prop}.json"), "w") as f:
            json.dump(ev, f, indent=1)
        return 1 if self.violations else 0
