"""C15 - parallel sources split their input exactly once across replicas.

model check (spec/comp/FileSplit, CsvSplit, RangeSplit with the predicates of SourceProps.tla as
invariants) -> behaviour generation (every small file / range, REPLAY lines) -> the cases are run
on the REAL sources by harness-src (`vhs run`) -> TLC (spec/trace/SourceCheck.tla) evaluates the
SourceProps predicates on the real outputs.  Python only moves data."""
import json
import os
import random
import subprocess
import time
from concurrent.futures import ThreadPoolExecutor

from common import (ToolError, log, workdir, seed, tlc_check, require_coverage, validate_parallel,
                    SPEC, ROOT, NPROC)

# VERIF_VHS_DIR (testing aid): a copy of harness-src whose renoir dependency points to a scratch
# copy of /repo, so that hand-made mutants can be tried without touching /repo itself
HS = os.environ.get("VERIF_VHS_DIR") or os.path.join(ROOT, "harness-src")
VHS = os.path.join(HS, "target", "debug", "vhs")

# quick tier: only the pairs within -ASPAN..ASPAN are translated to the limits of the types
ASPAN = {"quick": 4, "thorough": None}
MACRO_TYPES = ["u8", "u16", "u32", "usize", "i8", "i16", "i32", "i64", "isize"]
UNSIGNED = {"u8", "u16", "u32", "u64", "usize"}
BITS = {"u8": 8, "i8": 8, "u16": 16, "i16": 16, "u32": 32, "i32": 32, "u64": 64, "i64": 64,
        "usize": 64, "isize": 64}
ALL_TYPES = MACRO_TYPES + ["u64"]


def build_vhs():
    t0 = time.time()
    env = dict(os.environ, CARGO_NET_OFFLINE="true")
    p = subprocess.run(["cargo", "build", "--offline", "--quiet"], cwd=HS, env=env,
                       stdout=subprocess.PIPE, stderr=subprocess.STDOUT, text=True)
    if p.returncode != 0 or not os.path.exists(VHS):
        log(p.stdout[-4000:])
        raise ToolError("harness-src build failed (does /repo compile with --features verif?)")
    return time.time() - t0


# ------------------------------------------------------------------------------------------------
# TLC runs (model checks, finding configs, generation) - all small, run side by side

def _tlc_many(jobs, wd, par=6):
    """jobs: list of (tag, module, cfg path, coverage). Returns {tag: result}."""
    def one(j):
        tag, module, cfg, cov = j
        return tag, tlc_check(f"{SPEC}/comp/{module}.tla", cfg, wd, tag, workers=2, timeout=900,
                              xmx="3g", coverage=cov)
    with ThreadPoolExecutor(max_workers=par) as ex:
        return dict(ex.map(one, jobs))


def n_files(maxlen, crlflen):
    """Number of files enumerated by FileSplit/CsvSplit: over x | LF of at most maxlen bytes plus over
    x | LF | CRLF of at most crlflen bytes (closed form / recurrence, used to certify that the
    enumeration was complete)."""
    def count(n, crlf):
        a = [1, 2]
        for k in range(2, n + 1):
            a.append(2 * a[k - 1] + (a[k - 2] if crlf else 0))
        return sum(a[:n + 1])
    return count(maxlen, False) + count(crlflen, True) - count(crlflen, False)


# spaces per tier: (max bytes of a file without CRLF, max bytes of a file with CRLF), range bounds
SPACE = {"quick": {"file": (8, 6), "csv": (7, 5), "bounds": 8},
         "thorough": {"file": (13, 10), "csv": (11, 9), "bounds": 12}}


def models(V, wd, tier):
    """Model checks and behaviour generation. The gen/ configurations carry the C15 invariants AND
    EmitReplay (check + generation in one TLC run); the remaining RangeSplit configurations (limits
    of the wide types, the open usize finding, regression documentation of the fixed findings) run
    beside them - all of them in the thorough tier, the usize pair only in the quick tier."""
    q = tier == "quick"
    suf = "quick" if q else "thorough"
    gen = [("FileSplit", f"FileSplit_gen_{suf}", ["AppendX", "AppendLF", "AppendCRLF", "Split"]),
           ("CsvSplit", f"CsvSplit_gen_{suf}", ["AppendX", "AppendLF", "AppendCRLF", "SplitWith"]),
           ("RangeSplit", f"RangeSplit_gen_B_{suf}", ["Pick", "Split"]),
           ("RangeSplit", f"RangeSplit_gen_A_{suf}", ["Pick", "Split"])]
    main = [("RangeSplit", "RangeSplit_usize")]
    finding = [("RangeSplit", "RangeSplit_finding_usize")]
    if not q:
        main += [("RangeSplit", f"RangeSplit_{x}") for x in ("narrow", "unarrow", "wide", "u64")]
        main += [("RangeSplit", f"RangeSplit_{x}_thorough") for x in ("narrow", "unarrow", "wide", "usize", "u64")]
        finding += [("RangeSplit", f"RangeSplit_finding_{x}") for x in ("reversed", "reversed_u64", "nearmax")]
    jobs = [(c, m, f"{SPEC}/gen/{c}.cfg", True) for m, c, _ in gen] + \
           [(c, m, f"{SPEC}/mc/{c}.cfg", True) for m, c in main + finding]
    res = _tlc_many(jobs, wd, par=6)
    for m, c, acts in gen:
        r = res[c]
        if not r["ok"]:
            raise ToolError(f"model check {c}: invariant {r['invariant_violated']} fails on the MODEL; "
                            "reproduce on the code before blaming it (see DESIGN.md 2.6)")
        require_coverage(r, acts, c)
        V.add_model(r, c)
    for m, c in main:
        r = res[c]
        if not r["ok"]:
            raise ToolError(f"model check {c}: invariant {r['invariant_violated']} fails on the MODEL")
        require_coverage(r, ["Pick", "Split"], c)
        V.add_model(r, c)
    # open finding F1-usize: the carve-out of RangeSplit_usize must not silently widen; fixed findings
    # F1 / F1-nearmax: the old arithmetic must still show the counterexample (regression documentation)
    still = {c: res[c]["invariant_violated"] == "C15_Range" for _, c in finding}
    V.coverage["finding_configs_still_fail"] = still
    if not all(still.values()):
        raise ToolError(f"a *_finding config of RangeSplit no longer fails: {still}")
    # TLC prints the behaviours in a worker-dependent order: sort, so that case ids and the seeded
    # job sample are the same in every run
    return {c: sorted(res[c]["replays"], key=lambda b: json.dumps(b, sort_keys=True)) for _, c, _ in gen}, suf


def apalache(V, wd, budget=420):
    """Thorough tier: Apalache (symbolic integers) checks the partition property of RangeSplit for
    the REAL limits of the 64-bit and 32-bit types, all bounds with at most 2^62 elements, 1..6 peers
    (spec/apa/RangeSplitApa.tla, --length=0), reversed ranges included, and must still find the
    counterexamples of the two fixed findings with the old arithmetic.  Skipped with a note when it
    does not finish within the budget."""
    spec = os.path.join(SPEC, "apa", "RangeSplitApa.tla")
    runs = [(c, "Init", "NoError") for c in ("CInitI64", "CInitU64", "CInitUsize", "CInitI32", "CInitU32")]
    runs += [("CInitI64Old", "Init", "Error"), ("CInitI32OldClamp", "Init", "Error")]

    def one(r):
        cinit, init, want = r
        out = os.path.join(wd, f"apa_{cinit}_{init}")
        cmd = ["timeout", str(budget), "apalache-mc", "check", "--length=0", f"--cinit={cinit}",
               f"--init={init}", "--inv=C15_Range", f"--out-dir={out}", spec]
        t0 = time.time()
        p = subprocess.run(cmd, stdout=subprocess.PIPE, stderr=subprocess.STDOUT, text=True, cwd=wd)
        m = [ln for ln in p.stdout.splitlines() if "The outcome is:" in ln]
        got = m[0].split("The outcome is:")[1].split()[0] if m else ("Timeout" if p.returncode == 124 else "Failed")
        return {"cinit": cinit, "init": init, "outcome": got, "expected": want, "wall_s": round(time.time() - t0, 1)}

    with ThreadPoolExecutor(max_workers=len(runs)) as ex:
        res = list(ex.map(one, runs))
    V.coverage["apalache"] = res
    for r in res:
        if r["outcome"] in ("Timeout", "Failed"):
            V.assumptions.append(f"Apalache run {r['cinit']}/{r['init']} did not complete ({r['outcome']}): skipped")
        elif r["outcome"] != r["expected"]:
            raise ToolError(f"Apalache {r['cinit']}/{r['init']}: outcome {r['outcome']}, expected {r['expected']} "
                            "(a model-level result: resolve in spec/apa/RangeSplitApa.tla)")


# ------------------------------------------------------------------------------------------------
# cases

def text_cases(gens, suf):
    """One case per enumerated file (file source) and per file x header flag (csv source)."""
    cases, exp = [], {}
    seen = set()
    for kind, names in (("file", (f"FileSplit_gen_{suf}",)), ("csv", (f"CsvSplit_gen_{suf}",))):
        for name in names:
            for b in gens[name]:
                key = (kind, tuple(b["bytes"]), b.get("header"))
                if key in seen:
                    continue
                seen.add(key)
                cid = f"{kind[0]}{len(cases)}"
                c = {"id": cid, "kind": kind, "bytes": b["bytes"], "ns": list(range(1, len(b["exp"]) + 1))}
                if kind == "csv":
                    c["header"] = b["header"]
                cases.append(c)
                exp[cid] = b["exp"]
    return cases, exp


def range_cases(gens, suf, tier, rng):
    """Every enumerated (lo, hi) for every integer type, around 0 and translated to the type's MIN
    and MAX (direct calls of generate_iterator), a table of huge ranges, and a sample as real jobs."""
    cases, exp = [], {}
    genB = gens[f"RangeSplit_gen_B_{suf}"]
    genA = {(b["lo"], b["hi"]): b["exp"] for b in gens[f"RangeSplit_gen_A_{suf}"]}
    span = max(abs(b["lo"]) for b in genB)
    peers = list(range(1, len(genB[0]["exp"]) + 1))

    def add(ty, lo, hi, mode, prs, e=None):
        cid = f"r{len(cases)}"
        cases.append({"id": cid, "kind": "range", "ty": ty, "lo": lo, "hi": hi, "peers": prs, "mode": mode})
        if e is not None:
            exp[cid] = e
        return cid

    small = []
    # translations to the type's limits: all pairs (thorough) / the pairs within -5..5 (quick)
    aspan = ASPAN[suf] or span
    for b in genB:
        lo, hi = b["lo"], b["hi"]
        for ty in ALL_TYPES:
            if not (ty in UNSIGNED and (lo < 0 or hi < 0)):
                e = genA.get((lo, hi)) if ty == "u64" else b["exp"]
                add(ty, {"b": "0", "o": lo}, {"b": "0", "o": hi}, "direct", peers, e)
                small.append((ty, {"b": "0", "o": lo}, {"b": "0", "o": hi}, e))
            if max(abs(lo), abs(hi)) <= aspan:
                add(ty, {"b": "MAX", "o": lo - aspan}, {"b": "MAX", "o": hi - aspan}, "direct", peers)
                add(ty, {"b": "MIN", "o": lo + aspan}, {"b": "MIN", "o": hi + aspan}, "direct", peers)
                small.append((ty, {"b": "MAX", "o": lo - aspan}, {"b": "MAX", "o": hi - aspan}, None))
                small.append((ty, {"b": "MIN", "o": lo + aspan}, {"b": "MIN", "o": hi + aspan}, None))
    # huge ranges (up to 2^62 elements) and whole-type ranges of the narrow types; more peers
    many = peers + [7, 16, 64]
    P62 = 1 << 62
    for ty in ALL_TYPES:
        if BITS[ty] < 64:
            add(ty, {"b": "MIN", "o": 0}, {"b": "MAX", "o": 0}, "direct", many)
            add(ty, {"b": "MIN", "o": 1}, {"b": "MAX", "o": -1}, "direct", many)
            add(ty, {"b": "0", "o": 0}, {"b": "MAX", "o": 0}, "direct", many)
            add(ty, {"b": "MAX", "o": 0}, {"b": "MIN", "o": 0}, "direct", many)
        else:
            for n in (P62, P62 - 1, (1 << 61) + 1, (1 << 32) + 1, (1 << 32) - 1, 1000003):
                add(ty, {"b": "0", "o": 0}, {"b": "0", "o": n}, "direct", many)
                add(ty, {"b": "MIN", "o": 0}, {"b": "MIN", "o": n}, "direct", many)
                add(ty, {"b": "MAX", "o": -n}, {"b": "MAX", "o": 0}, "direct", many)
                add(ty, {"b": "0", "o": n}, {"b": "0", "o": 0}, "direct", many)
                if ty not in UNSIGNED:
                    add(ty, {"b": "0", "o": -(n // 2)}, {"b": "0", "o": n - n // 2}, "direct", many)
    n_direct = len(cases)
    # real jobs: fixed witnesses + a seeded sample of the small cases
    add("u32", {"b": "0", "o": 10}, {"b": "0", "o": 3}, "job", [1, 2, 3])
    add("u64", {"b": "0", "o": 10}, {"b": "0", "o": 3}, "job", [2])
    add("i8", {"b": "MIN", "o": 0}, {"b": "MAX", "o": 0}, "job", peers)
    add("u8", {"b": "0", "o": 0}, {"b": "MAX", "o": 0}, "job", peers)
    add("u16", {"b": "0", "o": 0}, {"b": "0", "o": 1000}, "job", peers)
    rng.shuffle(small)
    for ty, lo, hi, e in small[:60 if tier == "quick" else 1500]:
        add(ty, lo, hi, "job", [1, 2, 3, 6] if tier == "quick" else peers, e)
    return cases, exp, n_direct


def seq_cases():
    lists = [[], [5], [3, 1, 2], [1, 1, 1], [2, 1, 2, 1], list(range(100)), list(range(300, 0, -1))]
    cases = []
    for kind in ("iter", "channel"):
        for i, items in enumerate(lists):
            cases.append({"id": f"{kind[0]}s{i}", "kind": kind, "items": items, "ns": [1, 2, 3, 4, 6]})
    return cases


# ------------------------------------------------------------------------------------------------
# real runs

def run_vhs(cases, wd, nproc=None, timeout=1500):
    from common import tscale
    timeout = tscale(timeout)
    # every job spawns one thread per replica (+1 for the sink): thread creation, not CPU, bounds the
    # throughput (measured: 14 processes are no faster than 8), so keep the process count moderate
    nproc = max(1, min(nproc or min(NPROC, 8), len(cases)))
    chunks = [cases[i::nproc] for i in range(nproc)]

    def one(i):
        cp, op = os.path.join(wd, f"cases_{i}.ndjson"), os.path.join(wd, f"real_{i}.ndjson")
        with open(cp, "w") as f:
            for c in chunks[i]:
                f.write(json.dumps(c) + "\n")
        try:
            p = subprocess.run([VHS, "run", cp, op], stdout=subprocess.PIPE, stderr=subprocess.PIPE,
                               text=True, timeout=timeout)
        except subprocess.TimeoutExpired:
            raise ToolError(f"vhs run {cp} exceeded {timeout}s")
        if p.returncode != 0:
            raise ToolError(f"vhs run {cp} failed with status {p.returncode}: {p.stderr[-2000:]}")
        out = []
        with open(op) as f:
            for line in f:
                if line.strip():
                    out.append(json.loads(line))
        if len(out) != len(chunks[i]):
            raise ToolError(f"vhs run {cp}: {len(out)} results for {len(chunks[i])} cases")
        return out

    with ThreadPoolExecutor(max_workers=nproc) as ex:
        parts = list(ex.map(one, range(nproc)))
    return [r for part in parts for r in part]


def C15(V, tier):
    wd = workdir("C15")
    rng = random.Random(seed())
    bt = build_vhs()
    log(f"[C15] harness-src built in {bt:.1f}s")
    V.coverage["build_vhs_s"] = round(bt, 1)
    V.coverage["harness_dir"] = HS

    t0 = time.time()
    gens, suf = models(V, wd, tier)
    log(f"[C15] model checks + generation {time.time() - t0:.1f}s")
    if tier != "quick":
        t0 = time.time()
        apalache(V, wd)
        log(f"[C15] apalache {time.time() - t0:.1f}s {[(r['cinit'], r['init'], r['outcome']) for r in V.coverage['apalache']]}")

    tcases, texp = text_cases(gens, suf)
    rcases, rexp, n_direct = range_cases(gens, suf, tier, rng)
    scases = seq_cases()
    exp = dict(texp)
    exp.update(rexp)
    cases = tcases + rcases + scases
    rng.shuffle(cases)          # even out the load of the harness processes
    t0 = time.time()
    real = run_vhs(cases, wd)
    log(f"[C15] {len(cases)} cases on the real sources {time.time() - t0:.1f}s")

    recs, nruns, njobs, ndirect_calls, skipped = [], 0, 0, 0, 0
    for r in real:
        if r.get("skipped"):
            skipped += 1
            continue
        r["ev"] = "case"
        r.pop("ns", None)
        r.pop("peers", None)
        for run in r["runs"]:
            run.pop("subs_s", None)
            if r["kind"] == "range" and r["mode"] == "direct":
                ndirect_calls += run["n"]
            else:
                njobs += 1
        if r["id"] in exp:
            r["exp"] = exp[r["id"]]
        nruns += len(r["runs"])
        recs.append(r)
    files = []
    # a TLC process judges ~1500 records in a few seconds, most of which is JVM start: few, large chunks
    nchunks = max(1, min(NPROC, (len(recs) + 1499) // 1500))
    for i in range(nchunks):
        p = os.path.join(wd, f"sourcecheck_{i}.ndjson")
        with open(p, "w") as f:
            for r in recs[i::nchunks]:
                f.write(json.dumps(r) + "\n")
        files.append(p)
    t0 = time.time()
    viols, consumed, states, infos = validate_parallel("SourceCheck", files, wd, timeout=1500)
    log(f"[C15] TLC judged {consumed} cases ({nruns} runs) {time.time() - t0:.1f}s")
    if consumed != len(recs):
        raise ToolError(f"SourceCheck consumed {consumed} of {len(recs)} records")

    V.coverage["states"] += states
    V.coverage["transitions"] += states
    V.coverage["traces_validated_against_impl"] += nruns
    V.coverage["cases"] = {"file": sum(1 for c in tcases if c["kind"] == "file"),
                           "csv": sum(1 for c in tcases if c["kind"] == "csv"),
                           "range_direct": n_direct - skipped, "range_job": len(rcases) - n_direct,
                           "non_parallel": len(scases)}
    V.coverage["real_jobs"] = njobs
    V.coverage["generate_iterator_calls"] = ndirect_calls
    V.coverage["integer_types"] = ALL_TYPES
    # the finite spaces were enumerated completely iff TLC produced exactly the closed-form number
    # of files / bound pairs and every one of them was run and judged
    sp = SPACE[suf]
    B = sp["bounds"]
    want = {f"FileSplit_gen_{suf}": n_files(*sp["file"]), f"CsvSplit_gen_{suf}": 2 * n_files(*sp["csv"]),
            f"RangeSplit_gen_B_{suf}": (2 * B + 1) ** 2, f"RangeSplit_gen_A_{suf}": (B + 1) ** 2}
    got = {k: len(gens[k]) for k in want}
    V.coverage["enumerated"] = got
    V.coverage["exhaustive"] = got == want and consumed == len(recs)
    V.coverage["space"] = {
        "file": f"every file over x|LF of <= {sp['file'][0]} bytes and over x|LF|CRLF of <= {sp['file'][1]} bytes, replicas 1..6",
        "csv": f"every file over x|LF of <= {sp['csv'][0]} bytes and over x|LF|CRLF of <= {sp['csv'][1]} bytes, "
               "with and without header, replicas 1..6",
        "range": f"every pair of bounds in -{B}..{B} (0..{B} for unsigned types and u64), peers 1..6, all ten integer "
                 f"types around 0; translated to every type's MIN and MAX for the pairs within "
                 f"-{ASPAN[suf] or B}..{ASPAN[suf] or B}; a table of huge ranges with peers up to 64",
    }
    if got != want:
        raise ToolError(f"incomplete enumeration: {got} != {want}")

    drift = [i for i in infos if "drift" in i]
    notes = [i for i in infos if "note" in i]
    V.coverage["model_real_differences"] = len(drift)
    V.coverage["notes"] = {}
    for i in notes:
        V.coverage["notes"][i["note"]] = V.coverage["notes"].get(i["note"], 0) + 1
    if drift:
        V.drift.append(f"{len(drift)} of {nruns} runs differ from the model (first: {json.dumps(drift[0])[:300]})")
    for v in viols:
        ex = v.pop("extra", {})
        inp = ex.get("input", {})
        if isinstance(inp, dict) and "lo_s" in inp:
            v["range"] = f"{inp.get('ty')} {inp.get('lo_s')}..{inp.get('hi_s')} ({inp.get('mode')})"
        if ex.get("run", {}).get("msg"):
            v["msg"] = ex["run"]["msg"]
        V.add_violation(v, replay={"case": inp, "run": ex.get("run")})
    for r in recs[:2]:
        V.sample({k: r[k] for k in r if k != "exp"})
    V.assumptions += [
        "files are enumerated over the tokens x | LF | CRLF; content bytes are position-coded letters so that lines are unique",
        "CSV fields, quoting and delimiters are outside the property text: every record has one field",
        "range values beyond 32 bits reach TLC through a strictly increasing encoding (harness-src/src/main.rs); "
        "the interval predicates only compare values",
        "dev profile: overflow checks on (what the suite runs with); release-mode wrapping is not exercised",
    ]
