//! `vhw` - driver of the real window managers of renoir (C12, C13, C14).
//!
//! `vhw run <cases.ndjson> <out.ndjson>` executes every case on the real code and writes, per
//! case, what the code returned after each input step:
//!
//! case   {id, kind, p, path, recycle?, input: [{k, key, v, ts, tick, op, opt}, ...]}
//!   kind   count | event | txn | pt | session
//!   p      count: {n, s, exact, agg?}  (agg, keyed path only: first | last | min | max | count -
//!          the library aggregator instead of the collecting fold; min/max by (37 * id) % 101)
//!          event: {size, slide}   txn: {}   pt: {size, slide}  session: {gap}
//!          (pt / session: sizes in ticks; 1 tick = 10 ms of MOCK time)
//!   path   direct: `WindowDescription::build(acc)` + `WindowManager::process`, one manager, driven
//!                  the way `WindowOperator` drives the manager of one key (after a control element
//!                  a manager whose `recycle()` is true is replaced by a fresh one)
//!          keyed:  a real single-block job  scripted source -> key_by -> window(descr) -> fold
//!                  -> probe; every output of the operator is attributed to the number of source
//!                  elements consumed when it came out
//!   input  k = I item, T timestamped item, W watermark, R FlushAndRestart, X Terminate
//!          v = element id, ts = timestamp, tick = mock clock (pt/session only, set before the
//!          element is processed), op/opt = what the transaction logic returns for the element
//!          (0 Continue, 1 Commit, 2 CommitAfter(opt), 3 Discard)
//! result {id, out: [[{k, key, g, ts}, ...] per input step], panic?}
//!          k = "G": a window result computed from the elements with ids g (ts = -1: none);
//!          keyed path also k = "W" | "R" | "X": control element forwarded by the operator

use std::fmt::Display;
use std::io::{BufRead, BufReader, BufWriter, Write};
use std::panic::{catch_unwind, AssertUnwindSafe};
use std::sync::atomic::{AtomicUsize, Ordering};
use std::sync::Arc;
use std::time::Duration;

use parking_lot::Mutex;
use renoir::operator::source::Source;
use renoir::operator::window::{
    CountWindow, EventTimeWindow, ProcessingTimeWindow, SessionWindow, TransactionOp,
    TransactionWindow, WindowAccumulator, WindowDescription, WindowManager, WindowResult,
};
use renoir::operator::{Operator, StreamElement};
use renoir::structure::{BlockStructure, OperatorKind, OperatorStructure};
use renoir::{ExecutionMetadata, Replication, RuntimeConfig, StreamContext};
use serde_json::{json, Value};

/// (key, id, transaction op, transaction op argument)
type El = (i64, i64, i64, i64);

const TICK_MS: u64 = 10;

#[derive(Clone)]
struct Step {
    el: StreamElement<El>,
    tick: Option<u64>,
}

/// The accumulator that exposes exactly the group of elements a result was computed from.
#[derive(Clone)]
struct Collect(Vec<i64>);

impl WindowAccumulator for Collect {
    type In = El;
    type Out = Vec<i64>;
    fn process(&mut self, el: El) {
        self.0.push(el.1);
    }
    fn output(self) -> Vec<i64> {
        self.0
    }
}

fn txn_logic(e: &El) -> TransactionOp {
    match e.2 {
        1 => TransactionOp::Commit,
        2 => TransactionOp::CommitAfter(e.3),
        3 => TransactionOp::Discard,
        _ => TransactionOp::Continue,
    }
}

fn parse_input(case: &Value, timed_clock: bool) -> Vec<Step> {
    case["input"]
        .as_array()
        .expect("input")
        .iter()
        .map(|e| {
            let g = |f: &str| e.get(f).and_then(|x| x.as_i64()).unwrap_or(0);
            let el = (g("key"), g("v"), g("op"), g("opt"));
            let se = match e["k"].as_str().unwrap_or("?") {
                "I" => StreamElement::Item(el),
                "T" => StreamElement::Timestamped(el, g("ts")),
                "W" => StreamElement::Watermark(g("ts")),
                "R" => StreamElement::FlushAndRestart,
                "X" => StreamElement::Terminate,
                "B" => StreamElement::FlushBatch,
                k => panic!("bad element kind {k}"),
            };
            Step {
                el: se,
                tick: if timed_clock { Some(g("tick") as u64) } else { None },
            }
        })
        .collect()
}

fn result_json(key: i64, r: WindowResult<Vec<i64>>) -> Value {
    match r {
        WindowResult::Item(g) => json!({"k": "G", "key": key, "g": g, "ts": -1}),
        WindowResult::Timestamped(g, ts) => json!({"k": "G", "key": key, "g": g, "ts": ts}),
    }
}

// ------------------------------------------------------------------------------------------
// direct path

fn drive<M>(init: M, steps: &[Step], key: i64, recycle: bool) -> Vec<Value>
where
    M: WindowManager<In = El, Out = Vec<i64>>,
{
    let mut mgr = init.clone();
    let mut out = Vec::with_capacity(steps.len());
    for st in steps {
        if let Some(t) = st.tick {
            renoir::verif::set_mock_clock(Some(Duration::from_millis(TICK_MS * t)));
        }
        let el = st.el.clone();
        if matches!(el, StreamElement::FlushBatch) {
            // WindowOperator does not hand FlushBatch to the managers
            out.push(json!([]));
            continue;
        }
        let ctrl = !matches!(el, StreamElement::Item(_) | StreamElement::Timestamped(_, _));
        let res: Vec<Value> = mgr
            .process(el)
            .into_iter()
            .map(|r| result_json(key, r))
            .collect();
        if ctrl && recycle && mgr.recycle() {
            mgr = init.clone();
        }
        out.push(Value::Array(res));
    }
    out
}

fn case_key(steps: &[Step]) -> i64 {
    for s in steps {
        if let StreamElement::Item(e) | StreamElement::Timestamped(e, _) = &s.el {
            return e.0;
        }
    }
    0
}

fn run_direct(case: &Value) -> Vec<Value> {
    let kind = case["kind"].as_str().unwrap_or("?");
    let p = &case["p"];
    let recycle = case.get("recycle").and_then(|r| r.as_bool()).unwrap_or(true);
    let gi = |f: &str| p.get(f).and_then(|x| x.as_i64()).unwrap_or(0);
    let acc = Collect(Vec::new());
    match kind {
        "count" => {
            let steps = parse_input(case, false);
            let d = CountWindow::new(
                gi("n") as usize,
                gi("s") as usize,
                p["exact"].as_bool().unwrap_or(true),
            );
            drive(WindowDescription::<El>::build(&d, acc), &steps, case_key(&steps), recycle)
        }
        "event" => {
            let steps = parse_input(case, false);
            let d = EventTimeWindow::sliding(gi("size"), gi("slide"));
            drive(WindowDescription::<El>::build(&d, acc), &steps, case_key(&steps), recycle)
        }
        "txn" => {
            let steps = parse_input(case, false);
            let d = TransactionWindow::new(txn_logic as fn(&El) -> TransactionOp);
            drive(d.build(acc), &steps, case_key(&steps), recycle)
        }
        "pt" => {
            let steps = parse_input(case, true);
            let d = ProcessingTimeWindow::sliding(
                Duration::from_millis(TICK_MS * gi("size") as u64),
                Duration::from_millis(TICK_MS * gi("slide") as u64),
            );
            drive(WindowDescription::<El>::build(&d, acc), &steps, case_key(&steps), recycle)
        }
        "session" => {
            let steps = parse_input(case, true);
            let d = SessionWindow::new(Duration::from_millis(TICK_MS * gi("gap") as u64));
            drive(WindowDescription::<El>::build(&d, acc), &steps, case_key(&steps), recycle)
        }
        k => panic!("bad kind {k}"),
    }
}

// ------------------------------------------------------------------------------------------
// keyed path: a real job

#[derive(Clone)]
struct WinSource {
    steps: Arc<Vec<Step>>,
    pos: usize,
    consumed: Arc<AtomicUsize>,
}

impl Display for WinSource {
    fn fmt(&self, f: &mut std::fmt::Formatter<'_>) -> std::fmt::Result {
        write!(f, "WinSource")
    }
}

impl Operator for WinSource {
    type Out = El;
    fn setup(&mut self, _metadata: &mut ExecutionMetadata) {
        self.pos = 0;
    }
    fn next(&mut self) -> StreamElement<El> {
        // the script ends with X; whatever comes after is Terminate as well
        let (el, tick) = match self.steps.get(self.pos) {
            Some(s) => (s.el.clone(), s.tick),
            None => (StreamElement::Terminate, None),
        };
        self.pos += 1;
        if self.pos <= self.steps.len() {
            self.consumed.store(self.pos, Ordering::SeqCst);
        }
        if let Some(t) = tick {
            // same thread as the window operator (one block): the manager sees this clock
            renoir::verif::set_mock_clock(Some(Duration::from_millis(TICK_MS * t)));
        }
        el
    }
    fn structure(&self) -> BlockStructure {
        let mut operator = OperatorStructure::new::<El, _>("WinSource");
        operator.kind = OperatorKind::Source;
        BlockStructure::default().add_operator(operator)
    }
}

impl Source for WinSource {
    fn replication(&self) -> Replication {
        Replication::One
    }
}

type Log = Arc<Mutex<Vec<(usize, Value)>>>;

#[derive(Clone)]
struct ProbeOp<Prev> {
    prev: Prev,
    consumed: Arc<AtomicUsize>,
    log: Log,
}

impl<Prev: Display> Display for ProbeOp<Prev> {
    fn fmt(&self, f: &mut std::fmt::Formatter<'_>) -> std::fmt::Result {
        write!(f, "{} -> Probe", self.prev)
    }
}

impl<Prev> Operator for ProbeOp<Prev>
where
    Prev: Operator<Out = (i64, Vec<i64>)>,
{
    type Out = (i64, Vec<i64>);
    fn setup(&mut self, metadata: &mut ExecutionMetadata) {
        self.prev.setup(metadata);
    }
    fn next(&mut self) -> StreamElement<(i64, Vec<i64>)> {
        let el = self.prev.next();
        let at = self.consumed.load(Ordering::SeqCst);
        let v = match &el {
            StreamElement::Item((k, g)) => Some(json!({"k": "G", "key": k, "g": g, "ts": -1})),
            StreamElement::Timestamped((k, g), ts) => {
                Some(json!({"k": "G", "key": k, "g": g, "ts": ts}))
            }
            StreamElement::Watermark(ts) => Some(json!({"k": "W", "key": 0, "g": [], "ts": ts})),
            StreamElement::FlushAndRestart => Some(json!({"k": "R", "key": 0, "g": [], "ts": -1})),
            StreamElement::Terminate => Some(json!({"k": "X", "key": 0, "g": [], "ts": -1})),
            StreamElement::FlushBatch => None,
        };
        if let Some(v) = v {
            self.log.lock().push((at, v));
        }
        el
    }
    fn structure(&self) -> BlockStructure {
        self.prev
            .structure()
            .add_operator(OperatorStructure::new::<(i64, Vec<i64>), _>("Probe"))
    }
}

fn run_keyed(case: &Value) -> Vec<Value> {
    let kind = case["kind"].as_str().unwrap_or("?").to_string();
    let p = case["p"].clone();
    let gi = |f: &str| p.get(f).and_then(|x| x.as_i64()).unwrap_or(0);
    let timed_clock = kind == "pt" || kind == "session";
    let steps = parse_input(case, timed_clock);
    let n = steps.len();
    let consumed = Arc::new(AtomicUsize::new(0));
    let log: Log = Arc::new(Mutex::new(Vec::new()));
    let src = WinSource {
        steps: Arc::new(steps),
        pos: 0,
        consumed: consumed.clone(),
    };
    let ctx = StreamContext::new(RuntimeConfig::local(1).unwrap());
    let keyed = ctx.stream(src).key_by(|e: &El| e.0);
    let fold = |v: &mut Vec<i64>, e: El| v.push(e.1);
    macro_rules! finish {
        ($descr:expr) => {{
            let (c, l) = (consumed.clone(), log.clone());
            keyed
                .window($descr)
                .fold(Vec::new(), fold)
                .unkey()
                .add_operator(move |prev| ProbeOp {
                    prev,
                    consumed: c,
                    log: l,
                })
                .for_each(|_| {});
        }};
    }
    let agg = p.get("agg").and_then(|a| a.as_str()).unwrap_or("fold").to_string();
    macro_rules! finish_agg {
        ($ks:expr) => {{
            let (c, l) = (consumed.clone(), log.clone());
            $ks.unkey()
                .add_operator(move |prev| ProbeOp {
                    prev,
                    consumed: c,
                    log: l,
                })
                .for_each(|_| {});
        }};
    }
    let agg_key = |e: &El| (37 * e.1) % 101;
    match kind.as_str() {
        // the library aggregators over count windows: each must see exactly the group
        "count" if agg != "fold" => {
            let w = keyed.window(CountWindow::new(
                gi("n") as usize,
                gi("s") as usize,
                p["exact"].as_bool().unwrap_or(true),
            ));
            match agg.as_str() {
                "first" => finish_agg!(w.first().map(|(_, e): (&i64, El)| vec![e.1])),
                "last" => finish_agg!(w.last().map(|(_, e): (&i64, El)| vec![e.1])),
                "min" => finish_agg!(w.min_by_key(agg_key).map(|(_, e): (&i64, El)| vec![e.1])),
                "max" => finish_agg!(w.max_by_key(agg_key).map(|(_, e): (&i64, El)| vec![e.1])),
                "count" => finish_agg!(w.count().map(|(_, n): (&i64, usize)| vec![n as i64])),
                a => panic!("bad aggregator {a}"),
            }
        }
        "count" => finish!(CountWindow::new(
            gi("n") as usize,
            gi("s") as usize,
            p["exact"].as_bool().unwrap_or(true)
        )),
        "event" => finish!(EventTimeWindow::sliding(gi("size"), gi("slide"))),
        "txn" => finish!(TransactionWindow::new(txn_logic as fn(&El) -> TransactionOp)),
        "pt" => finish!(ProcessingTimeWindow::sliding(
            Duration::from_millis(TICK_MS * gi("size") as u64),
            Duration::from_millis(TICK_MS * gi("slide") as u64),
        )),
        "session" => finish!(SessionWindow::new(Duration::from_millis(
            TICK_MS * gi("gap") as u64
        ))),
        k => panic!("bad kind {k}"),
    }
    ctx.execute_blocking();
    let mut out: Vec<Vec<Value>> = vec![Vec::new(); n];
    for (at, v) in log.lock().drain(..) {
        let i = at.clamp(1, n.max(1)) - 1;
        if i < out.len() {
            out[i].push(v);
        }
    }
    out.into_iter().map(Value::Array).collect()
}

// ------------------------------------------------------------------------------------------

fn run_case(case: &Value) -> Value {
    let id = case["id"].clone();
    let keyed = case["path"].as_str().unwrap_or("direct") == "keyed";
    let r = catch_unwind(AssertUnwindSafe(|| {
        if keyed {
            run_keyed(case)
        } else {
            run_direct(case)
        }
    }));
    renoir::verif::set_mock_clock(None);
    match r {
        Ok(out) => json!({"id": id, "out": out}),
        Err(e) => {
            let msg = if let Some(s) = e.downcast_ref::<&str>() {
                s.to_string()
            } else if let Some(s) = e.downcast_ref::<String>() {
                s.clone()
            } else {
                "panic".to_string()
            };
            json!({"id": id, "out": [], "panic": msg})
        }
    }
}

fn main() {
    let args: Vec<String> = std::env::args().collect();
    if args.len() < 4 || args[1] != "run" {
        eprintln!("usage: vhw run <cases.ndjson> <out.ndjson>");
        std::process::exit(2);
    }
    // panics of the code under test are data; keep stderr quiet
    std::panic::set_hook(Box::new(|_| {}));
    let inp = BufReader::new(std::fs::File::open(&args[2]).expect("open cases"));
    let mut out = BufWriter::new(std::fs::File::create(&args[3]).expect("create out"));
    for line in inp.lines() {
        let line = line.expect("read");
        if line.trim().is_empty() {
            continue;
        }
        let case: Value = serde_json::from_str(&line).expect("case json");
        let r = run_case(&case);
        writeln!(out, "{}", r).unwrap();
    }
    out.flush().unwrap();
}
