------------------------------- MODULE Elem -------------------------------
(***************************************************************************)
(* Stream elements of renoir and the monitors that state the control       *)
(* protocol (C05) and the watermark contract (C06) over a sequence of      *)
(* elements.  An element is a record [k, v, ts]:                           *)
(*   k = "I" item, "T" timestamped item, "W" watermark, "B" FlushBatch,    *)
(*       "R" FlushAndRestart, "X" Terminate.                               *)
(* v and ts are 0 where they do not apply.                                 *)
(***************************************************************************)
EXTENDS Naturals, Integers, Sequences, FiniteSets, SequencesExt, Functions

Item(v)      == [k |-> "I", v |-> v, ts |-> 0]
TItem(v, t)  == [k |-> "T", v |-> v, ts |-> t]
WM(t)        == [k |-> "W", v |-> 0, ts |-> t]
FlushBatch   == [k |-> "B", v |-> 0, ts |-> 0]
Restart      == [k |-> "R", v |-> 0, ts |-> 0]
Terminate    == [k |-> "X", v |-> 0, ts |-> 0]

IsData(e)    == e.k \in {"I", "T"}
IsControl(e) == e.k \in {"W", "B", "R", "X"}

(***************************************************************************)
(* Grammar monitor for ((I|T|W|B)* R)+ X  -- a three state automaton.      *)
(* FlushBatch carries no stream content: it is accepted everywhere before  *)
(* X (the engine emits one on a receive timeout, also between the last R   *)
(* and X) and does not change the state.                                   *)
(*   "open"   inside an iteration (X not allowed)                          *)
(*   "closed" right after an R (data opens the next iteration, X ends)     *)
(*   "done"   after X: nothing may follow                                  *)
(*   "bad"    the sequence left the language                               *)
(***************************************************************************)
GInit == "open"
GStep(g, e) ==
  CASE g = "bad"  -> "bad"
    [] g = "done" -> "bad"
    [] e.k = "B"  -> g
    [] e.k = "R"  -> "closed"
    [] e.k = "X"  -> IF g = "closed" THEN "done" ELSE "bad"
    [] OTHER      -> "open"

RECURSIVE GRun(_, _, _)
GRun(g, s, i) == IF i > Len(s) THEN g ELSE GRun(GStep(g, s[i]), s, i + 1)
(* prefix-closed acceptance and completeness *)
GrammarOK(s)       == GRun(GInit, s, 1) # "bad"
GrammarComplete(s) == GRun(GInit, s, 1) = "done"

(***************************************************************************)
(* Watermark monitor: within one iteration (reset at R) every timestamped  *)
(* element and every watermark is strictly above the last watermark.       *)
(* State: last watermark of the current iteration, or -1 (NoW).            *)
(***************************************************************************)
NoW == -1
WInit == NoW
WOk(w, e) ==
  CASE e.k = "T" -> w = NoW \/ e.ts > w
    [] e.k = "W" -> w = NoW \/ e.ts > w
    [] OTHER     -> TRUE
WStep(w, e) ==
  CASE e.k = "W" -> IF w = NoW \/ e.ts > w THEN e.ts ELSE w
    [] e.k = "R" -> NoW
    [] OTHER     -> w

RECURSIVE WRun(_, _, _)
WRun(w, s, i) ==
  IF i > Len(s) THEN TRUE
  ELSE WOk(w, s[i]) /\ WRun(WStep(w, s[i]), s, i + 1)
WatermarkOK(s) == WRun(WInit, s, 1)

(***************************************************************************)
(* Iterations: split a sequence at R (the R itself and X are dropped).     *)
(***************************************************************************)
RECURSIVE IterSplit(_, _, _, _)
IterSplit(s, i, cur, acc) ==
  IF i > Len(s) THEN (IF cur = <<>> THEN acc ELSE Append(acc, cur))
  ELSE IF s[i].k = "R" THEN IterSplit(s, i + 1, <<>>, Append(acc, cur))
  ELSE IF s[i].k = "X" THEN IterSplit(s, i + 1, cur, acc)
  ELSE IterSplit(s, i + 1, Append(cur, s[i]), acc)
Iterations(s) == IterSplit(s, 1, <<>>, <<>>)

DataOf(s) == SelectSeq(s, IsData)
NoFlush(s) == SelectSeq(s, LAMBDA e : e.k # "B")

(* Bags as functions value -> count over the values that occur *)
BagOfSeq(s) == [x \in Range(s) |-> Cardinality({i \in DOMAIN s : s[i] = x})]
SameBag(s, t) == BagOfSeq(s) = BagOfSeq(t)
=============================================================================
