------------------------------- MODULE Routing -------------------------------
(***************************************************************************)
(* Trace specification for C03: every element that leaves a block is       *)
(* enqueued, for each downstream block, to exactly the replicas that the   *)
(* connection kind promised by the API call allows.                        *)
(*                                                                         *)
(*   job   {id, blocks: <<[b, replicas: <<"b.h.r">>]>>,                    *)
(*          rules: <<[probe, kind, m, feedback]>>}                         *)
(*   emit  {probe, fb, fh, fr, k, v, dests: <<[b, h, r]>>}                 *)
(*         the last operator of a block (probe) returned an element of     *)
(*         kind k with payload v on replica (fb, fh, fr) and End enqueued  *)
(*         it to dests                                                     *)
(*   done  {id, ok}                                                        *)
(* kind of a rule (what the API call promises):                            *)
(*   "forward" same-index replica, some single one if it does not exist    *)
(*   "random"  exactly one replica        "groupby" a function of the key  *)
(*   "all"     every replica                                               *)
(*   "route"   the first downstream block whose predicate holds, one       *)
(*             replica there, and no other block; none if no predicate     *)
(*             holds                                                       *)
(* Control elements (W, R, X) go to every replica of every downstream      *)
(* block (X is not sent along a loop's feedback edge).                     *)
(***************************************************************************)
EXTENDS Naturals, Integers, Sequences, Json, IOUtils, TLC, FiniteSets, SeqSemantics

Rec == ndJsonDeserialize(IOEnv.TRACE)
VARIABLES l, job, blocks, rules, keymap, nviol
vars == <<l, job, blocks, rules, keymap, nviol>>


Init == l = 1 /\ job = "" /\ blocks = <<>> /\ rules = <<>> /\ keymap = [x \in {} |-> 0] /\ nviol = 0

V(kind, e, extra) ==
  PrintT(<<"VIOL", ToJson([prop |-> "C03", kind |-> kind, job |-> job, index |-> l,
                           probe |-> e.probe, extra |-> extra])>>)

RuleOf(p) == CHOOSE r \in Range(rules) : r.probe = p
HasRule(p) == \E r \in Range(rules) : r.probe = p
ReplicasOf(b) == LET x == CHOOSE y \in Range(blocks) : y.b = b IN Range(x.replicas)
DestBlocks(e) == {d.b : d \in Range(e.dests)}
DestsIn(e, b) == {<<d.h, d.r>> : d \in {x \in Range(e.dests) : x.b = b}}
(* the downstream blocks of the producing block: those it ever sends to in this job (taken from  *)
(* the rule, which lists them)                                                                    *)

Emit(e) ==
  IF ~HasRule(e.probe) THEN UNCHANGED <<keymap, nviol>>
  ELSE
  LET r == RuleOf(e.probe)
      data == e.k \in {"I", "T"}
      targets == Range(r.to)                      \* downstream block ids promised by the call
      (* per downstream block: the set of replicas the element was enqueued to *)
      fan(b) == Cardinality(DestsIn(e, b))
      reps(b) == {<<x.h, x.r>> : x \in ReplicasOf(b)}
      (* the replicas of b this producer is connected to: all of them, except on a forward        *)
      (* connection, where it is the same-index replica (or the single replica of b)              *)
      connected(b) == IF r.kind # "forward" THEN reps(b)
                      ELSE IF <<e.fh, e.fr>> \in reps(b) THEN {<<e.fh, e.fr>>}
                      ELSE IF Cardinality(reps(b)) = 1 THEN reps(b)
                      ELSE DestsIn(e, b)
      bad_control == {b \in targets : ~data /\ ~(e.k = "B") /\ ~(e.k = "X" /\ r.feedback)
                                      /\ DestsIn(e, b) # connected(b)}
      bad_fan == {b \in targets : data /\ r.kind \in {"forward", "random", "groupby"} /\ fan(b) # 1}
      bad_all == {b \in targets : data /\ r.kind = "all" /\ DestsIn(e, b) # reps(b)}
      bad_idx == {b \in targets : data /\ r.kind = "forward" /\ fan(b) = 1
                                  /\ <<e.fh, e.fr>> \in reps(b) /\ DestsIn(e, b) # {<<e.fh, e.fr>>}}
      (* group-by: key -> replica must stay a function, per consumer block, whoever produces *)
      key == IF r.kind = "groupby" THEN e.v % r.m ELSE 0
      (* the key -> replica map is kept per key space, not per consumer block: consumer blocks that are *)
      (* later combined by forward connections (keyed join / merge) must be partitioned alike           *)
      kk(b) == <<r.keyspace, key>>
      (* route: index of the first matching predicate (0: none) *)
      first == IF r.kind # "route" \/ ~data THEN 0
               ELSE IF \E i \in 1..Len(r.preds) : FFilter(r.preds[i], e.v)
                    THEN CHOOSE i \in 1..Len(r.preds) : FFilter(r.preds[i], e.v) /\ \A j \in 1..(i - 1) : ~FFilter(r.preds[j], e.v)
                    ELSE 0
      bad_route == {i \in 1..Len(r.to) : data /\ r.kind = "route" /\
                       fan(r.to[i]) # (IF i = first THEN 1 ELSE 0)}
      bad_key == {b \in targets : data /\ r.kind = "groupby" /\ fan(b) = 1 /\ kk(b) \in DOMAIN keymap
                                  /\ {keymap[kk(b)]} # DestsIn(e, b)}
      newkeys == {b \in targets : data /\ r.kind = "groupby" /\ fan(b) = 1 /\ kk(b) \notin DOMAIN keymap}
      stray == {d \in Range(e.dests) : d.b \notin targets}
  IN /\ \A b \in bad_control : V("control_not_broadcast", e, [to |-> b, el |-> e.k, got |-> DestsIn(e, b)])
     /\ \A b \in bad_fan : V("data_fanout", e, [to |-> b, rule |-> r.kind, got |-> fan(b),
                                                 producers |-> Cardinality(ReplicasOf(e.fb)),
                                                 consumers |-> Cardinality(ReplicasOf(b))])
     /\ \A b \in bad_all : V("data_fanout", e, [to |-> b, rule |-> r.kind, got |-> fan(b),
                                                 producers |-> Cardinality(ReplicasOf(e.fb)),
                                                 consumers |-> Cardinality(ReplicasOf(b))])
     /\ \A b \in bad_idx : V("forward_not_same_index", e, [to |-> b, got |-> DestsIn(e, b)])
     /\ \A b \in bad_key : V("groupby_key_split", e, [to |-> b, key |-> key, first |-> keymap[kk(b)], now |-> DestsIn(e, b)])
     /\ \A i \in bad_route : V("route_branch", e, [branch |-> i, expected_branch |-> first, got |-> fan(r.to[i]), v |-> e.v])
     /\ \A d \in stray : V("unpromised_destination", e, [dest |-> d])
     /\ keymap' = [x \in (DOMAIN keymap) \cup {kk(b) : b \in newkeys} |->
                     IF x \in DOMAIN keymap THEN keymap[x]
                     ELSE CHOOSE p \in UNION {DestsIn(e, b) : b \in newkeys} : TRUE]
     /\ nviol' = nviol + Cardinality(bad_control) + Cardinality(bad_fan) + Cardinality(bad_all)
                       + Cardinality(bad_idx) + Cardinality(bad_key) + Cardinality(stray) + Cardinality(bad_route)

(* A data element was enqueued to replica (th, tr) of block tb, where tb is the consumer block of a  *)
(* group-by connection made INSIDE an API call (group_by_fold, group_by_count, ...: the local phase  *)
(* and its End are not probed).  key is the partitioning key of the element.                         *)
DestRules(tb) == {r \in Range(rules) : r.kind = "groupby_dest" /\ r.to = <<tb>>}
Enqd(e) ==
  LET rs == DestRules(e.tb)
      bad == {r \in rs : <<r.keyspace, e.key>> \in DOMAIN keymap /\ keymap[<<r.keyspace, e.key>>] # <<e.th, e.tr>>}
      new == {r \in rs : <<r.keyspace, e.key>> \notin DOMAIN keymap}
  IN /\ \A r \in bad : PrintT(<<"VIOL", ToJson([prop |-> "C03", kind |-> "groupby_key_split", job |-> job, index |-> l,
                                  probe |-> r.probe,
                                  extra |-> [to |-> e.tb, key |-> e.key, first |-> keymap[<<r.keyspace, e.key>>],
                                             now |-> <<e.th, e.tr>>, keyspace |-> r.keyspace]])>>)
     /\ keymap' = [x \in (DOMAIN keymap) \cup {<<r.keyspace, e.key>> : r \in new} |->
                     IF x \in DOMAIN keymap THEN keymap[x] ELSE <<e.th, e.tr>>]
     /\ nviol' = nviol + Cardinality(bad)

Step ==
  /\ l <= Len(Rec)
  /\ l' = l + 1
  /\ LET e == Rec[l] IN
       CASE e.ev = "job"  -> /\ job' = e.id /\ blocks' = e.blocks /\ rules' = e.rules
                             /\ keymap' = [x \in {} |-> 0] /\ UNCHANGED nviol
         [] e.ev = "emit" -> Emit(e) /\ UNCHANGED <<job, blocks, rules>>
         [] e.ev = "enqd" -> Enqd(e) /\ UNCHANGED <<job, blocks, rules>>
         [] OTHER         -> UNCHANGED <<job, blocks, rules, keymap, nviol>>

Spec == Init /\ [][Step]_vars
Final == l <= Len(Rec) \/ PrintT(<<"CONSUMED", Len(Rec), "VIOLATIONS", nviol>>)
Consumed == TLCGet("stats").diameter - 1 = Len(Rec)
=============================================================================
