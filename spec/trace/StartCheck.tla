----------------------------- MODULE StartCheck -----------------------------
(***************************************************************************)
(* R: behaviours of comp/Start.tla (every arrival interleaving of the      *)
(* elements of N upstream replicas) were replayed on the real `Start`      *)
(* (real End + batcher + channel + Start in a real job, arrival order      *)
(* enforced by lock-step gates).  Each record carries the interleaved      *)
(* history recorded from the real code (h: what Start received, from whom, *)
(* and what it returned, in order) and the history the model predicted     *)
(* (hm).  The C05/C06/C17 predicates of StartProps.tla are evaluated on    *)
(* the REAL history; a difference between h and hm that violates no        *)
(* predicate is conformance drift.                                         *)
(*   case {id, n, h, hm, enf}                                              *)
(* enf = FALSE: a lock-step gate of the harness timed out, the prescribed  *)
(* order was not enforced.  The real history is then judged only if it     *)
(* still satisfies the environment assumption of comp/Start.tla (CanSend:  *)
(* a replica sends elements of its iteration i+1 only after the block has  *)
(* emitted i FlushAndRestart - the loop leader guarantees it in a real     *)
(* job, free-running scripted sources do not).                             *)
(***************************************************************************)
EXTENDS Naturals, Integers, Sequences, Json, IOUtils, TLC, FiniteSets, StartProps

Rec == ndJsonDeserialize(IOEnv.TRACE)
VARIABLES l, nviol
vars == <<l, nviol>>

PropOf(kind) ==
  CASE kind \in {"grammar", "restart_before_upstream", "incomplete"} -> "C05"
    [] kind \in {"late_element", "watermark_not_increasing"} -> "C06"
    [] OTHER -> "C17"

KindOf(kind) == IF kind = "watermark_withheld:watermark" \/ kind = "watermark_withheld:replica_ended"
                THEN "watermark_withheld" ELSE kind
CauseOf(kind) == IF kind = "watermark_withheld:watermark" THEN "watermark"
                 ELSE IF kind = "watermark_withheld:replica_ended" THEN "replica_ended" ELSE ""

Init == l = 1 /\ nviol = 0

RECURSIVE EnvRun(_, _, _, _, _)
EnvRun(S, h, i, ri, ro) ==
  IF i > Len(h) THEN TRUE
  ELSE IF h[i].d = "in"
       THEN /\ ri[h[i].p] <= ro
            /\ EnvRun(S, h, i + 1, IF h[i].el.k = "R" THEN [ri EXCEPT ![h[i].p] = @ + 1] ELSE ri, ro)
       ELSE EnvRun(S, h, i + 1, ri, IF h[i].el.k = "R" THEN ro + 1 ELSE ro)
EnvOK(S, h) == EnvRun(S, h, 1, [p \in S |-> 0], 0)

Judged(e) ==
  LET m    == Judge(1..e.n, e.h)
      (* the real Start saw every Terminate: it must have terminated its output *)
      allX == \A p \in 1..e.n : \E i \in 1..Len(e.h) : e.h[i].d = "in" /\ e.h[i].p = p /\ e.h[i].el.k = "X"
      kinds == m.b \cup (IF allX /\ m.g # "done" /\ m.g # "bad" THEN {"incomplete"} ELSE {})
  IN /\ \A kind \in kinds :
          PrintT(<<"VIOL", ToJson([prop |-> PropOf(kind), kind |-> KindOf(kind), cause |-> CauseOf(kind),
                                   job |-> e.id, index |-> l, extra |-> [h |-> e.h]])>>)
     /\ (IF e.h # e.hm THEN PrintT(<<"INFO", ToJson([drift |-> e.id, real |-> e.h, model |-> e.hm])>>) ELSE TRUE)
     /\ nviol' = nviol + Cardinality(kinds)

Case(e) ==
  IF e.enf \/ EnvOK(1..e.n, e.h) THEN Judged(e)
  ELSE /\ PrintT(<<"INFO", ToJson([unenforced |-> e.id])>>)
       /\ UNCHANGED nviol

Step ==
  /\ l <= Len(Rec)
  /\ l' = l + 1
  /\ LET e == Rec[l] IN
       CASE e.ev = "case" -> Case(e)
         [] OTHER         -> UNCHANGED nviol

Spec == Init /\ [][Step]_vars
Final == l <= Len(Rec) \/ PrintT(<<"CONSUMED", Len(Rec), "VIOLATIONS", nviol>>)
Consumed == TLCGet("stats").diameter - 1 = Len(Rec)
=============================================================================
