----------------------------- MODULE StartCheck -----------------------------
(***************************************************************************)
(* R: behaviours of comp/Start.tla (every arrival interleaving of the      *)
(* elements of N upstream replicas) were replayed on the real `Start`      *)
(* (real End + batcher + channel + Start in a real job, arrival order      *)
(* enforced by lock-step gates).  Each record carries the interleaved      *)
(* history recorded from the real code (h: what Start received, from whom, *)
(* and what it returned, in order) and the history the model predicted     *)
(* (hm).  The C05/C06/C17 predicates of StartProps.tla are evaluated on    *)
(* the REAL history; a difference between h and hm that violates no        *)
(* predicate is conformance drift.                                         *)
(*   case {id, n, h, hm}                                                   *)
(***************************************************************************)
EXTENDS Naturals, Integers, Sequences, Json, IOUtils, TLC, FiniteSets, StartProps

Rec == ndJsonDeserialize(IOEnv.TRACE)
VARIABLES l, nviol
vars == <<l, nviol>>

PropOf(kind) ==
  CASE kind \in {"grammar", "restart_before_upstream", "incomplete"} -> "C05"
    [] kind \in {"late_element", "watermark_not_increasing"} -> "C06"
    [] OTHER -> "C17"

KindOf(kind) == IF kind = "watermark_withheld:watermark" \/ kind = "watermark_withheld:replica_ended"
                THEN "watermark_withheld" ELSE kind
CauseOf(kind) == IF kind = "watermark_withheld:watermark" THEN "watermark"
                 ELSE IF kind = "watermark_withheld:replica_ended" THEN "replica_ended" ELSE ""

Init == l = 1 /\ nviol = 0

Case(e) ==
  LET m    == Judge(1..e.n, e.h)
      (* the real Start saw every Terminate: it must have terminated its output *)
      allX == \A p \in 1..e.n : \E i \in 1..Len(e.h) : e.h[i].d = "in" /\ e.h[i].p = p /\ e.h[i].el.k = "X"
      kinds == m.b \cup (IF allX /\ m.g # "done" /\ m.g # "bad" THEN {"incomplete"} ELSE {})
  IN /\ \A kind \in kinds :
          PrintT(<<"VIOL", ToJson([prop |-> PropOf(kind), kind |-> KindOf(kind), cause |-> CauseOf(kind),
                                   job |-> e.id, index |-> l, extra |-> [h |-> e.h]])>>)
     /\ (IF e.h # e.hm THEN PrintT(<<"INFO", ToJson([drift |-> e.id, real |-> e.h, model |-> e.hm])>>) ELSE TRUE)
     /\ nviol' = nviol + Cardinality(kinds)

Step ==
  /\ l <= Len(Rec)
  /\ l' = l + 1
  /\ LET e == Rec[l] IN
       CASE e.ev = "case" -> Case(e)
         [] OTHER         -> UNCHANGED nviol

Spec == Init /\ [][Step]_vars
Final == l <= Len(Rec) \/ PrintT(<<"CONSUMED", Len(Rec), "VIOLATIONS", nviol>>)
Consumed == TLCGet("stats").diameter - 1 = Len(Rec)
=============================================================================
