SPECIFICATION Spec
INVARIANT Final
POSTCONDITION Consumed
CHECK_DEADLOCK FALSE
