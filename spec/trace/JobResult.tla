----------------------------- MODULE JobResult -----------------------------
(***************************************************************************)
(* D: the results that the real engine delivered to the sinks of a job are *)
(* compared with the sequential meaning of the program, computed here by   *)
(* TLC from SeqSemantics!Eval (C01; the same comparison decides C07, C08,  *)
(* C09, C10, C11, C12 and C16 on programs built around those operators).   *)
(*                                                                         *)
(*   run {id, prog, sinks: <<[id, kind, res, ordered]>>, props}            *)
(* `res` is what StreamOutput::get() returned on the host that runs the    *)
(* sink (plain values, or <<k, v>> pairs for keyed sinks).  `ordered` says *)
(* that every producer on the path to the sink is sequential, so that the  *)
(* result must be equal as a sequence (C16).                               *)
(***************************************************************************)
EXTENDS Naturals, Integers, Sequences, Json, IOUtils, TLC, FiniteSets, SeqSemantics

Rec == ndJsonDeserialize(IOEnv.TRACE)

VARIABLES l, nviol
vars == <<l, nviol>>

BagOfSeq(s) == [x \in Range(s) |-> Cardinality({i \in DOMAIN s : s[i] = x})]

Viol(e, prop, kind, sink, extra) ==
  PrintT(<<"VIOL", ToJson([prop |-> prop, kind |-> kind, job |-> e.id, index |-> l,
                           sink |-> sink, extra |-> extra])>>)

SinkOK(snk, env) ==
  LET exp == SinkValue(snk.kind, env["sink:" \o snk.id]) IN
  IF snk.ordered THEN snk.res = exp ELSE BagOfSeq(snk.res) = BagOfSeq(exp)

Init == l = 1 /\ nviol = 0

Run(e) ==
  LET env == Eval(e.prog)
      bad == {i \in 1..Len(e.sinks) : ~SinkOK(e.sinks[i], env)}
  IN /\ \A i \in bad :
          Viol(e, e.prop, IF e.sinks[i].ordered THEN "seq_order" ELSE "result_mismatch", e.sinks[i].id,
               [got |-> e.sinks[i].res,
                expected |-> SinkValue(e.sinks[i].kind, env["sink:" \o e.sinks[i].id])])
     /\ nviol' = nviol + Cardinality(bad)

Step ==
  /\ l <= Len(Rec)
  /\ l' = l + 1
  /\ LET e == Rec[l] IN
       CASE e.ev = "run" -> Run(e)
         [] OTHER        -> UNCHANGED nviol

Spec == Init /\ [][Step]_vars
Final == l <= Len(Rec) \/ PrintT(<<"CONSUMED", Len(Rec), "VIOLATIONS", nviol>>)
Consumed == TLCGet("stats").diameter - 1 = Len(Rec)
=============================================================================
