------------------------------ MODULE JoinCheck ------------------------------
(***************************************************************************)
(* R for two-input operators (C08 joins, C09 zip/merge): TLC enumerated    *)
(* every arrival order of the two sides (comp/Interleave.tla), the harness *)
(* enforced each order on the real operator (real End + channels +         *)
(* BinaryStart + join in a real job, lock-step gates, single-element       *)
(* batches) and recorded what reached the sink.  Here TLC computes, per    *)
(* iteration, the relational definition (SeqSemantics!Join, ZipComb,       *)
(* concatenation) and compares bags.                                       *)
(*   case {id, op, variant, ml, mr, left, right, res}                      *)
(*   case2 {.., res, single}: a run over several iterations whose result   *)
(*   was wrong, together with the results of its iterations run ALONE on   *)
(*   the real operator (single[i]).  When every iteration is right on its  *)
(*   own, the long run is wrong because of what an earlier iteration left  *)
(*   behind: C05 "carry nothing over into the next iteration".             *)
(***************************************************************************)
EXTENDS Naturals, Integers, Sequences, Json, IOUtils, TLC, FiniteSets, SeqSemantics

Rec == ndJsonDeserialize(IOEnv.TRACE)
VARIABLES l, nviol
vars == <<l, nviol>>
Init == l = 1 /\ nviol = 0

BagOf(s) == [x \in Range(s) |-> Cardinality({i \in DOMAIN s : s[i] = x})]
Count(b, x) == IF x \in DOMAIN b THEN b[x] ELSE 0

(* interval join: elements are <<value, timestamp>>; every pair with l.ts - lower <= r.ts <= l.ts + upper *)
IntervalJoin(L, R, lower, upper) ==
  FlatMapSeq(LAMBDA x : MapSeq(LAMBDA y : Comb(x[1], y[1]),
                               SelectSeq(R, LAMBDA y : x[2] - lower <= y[2] /\ y[2] <= x[2] + upper)), L)

(* keyed interval join: additionally the keys (value % variant-modulus given in e.variant) agree *)
KIntervalJoin(L, R, lower, upper, m) ==
  FlatMapSeq(LAMBDA x : MapSeq(LAMBDA y : Comb(x[1], y[1]),
                               SelectSeq(R, LAMBDA y : x[1] % m = y[1] % m /\ x[2] - lower <= y[2] /\ y[2] <= x[2] + upper)), L)

OneIter(e, i) ==
  CASE e.op = "join"  -> Join(e.left[i], e.right[i], e.ml, e.mr, e.variant)
    [] e.op = "ijoin" -> IntervalJoin(e.left[i], e.right[i], e.ml, e.mr)
    [] e.op = "kijoin" -> KIntervalJoin(e.left[i], e.right[i], e.ml, e.mr, e.km)
    [] e.op = "zip"   -> ZipComb(e.left[i], e.right[i])
    [] e.op = "merge" -> e.left[i] \o e.right[i]
Expected(e) == FlatSeq([i \in 1..Len(e.left) |-> OneIter(e, i)], 1)

Case(e) ==
  LET exp == BagOf(Expected(e))
      got == BagOf(e.res)
      missing == {x \in DOMAIN exp : Count(got, x) < exp[x]}
      extra == {x \in DOMAIN got : Count(exp, x) < got[x]}
      prop == IF e.op \in {"join", "ijoin", "kijoin"} THEN "C08" ELSE "C09"
      (* C05: the operator behaved as if its state had survived the FlushAndRestart: the result is *)
      (* what one iteration over the concatenated inputs would give                                 *)
      flat == [x \in {"left", "right"} |-> FlatSeq(IF x = "left" THEN e.left ELSE e.right, 1)]
      noReset == CASE e.op = "join"  -> Join(flat["left"], flat["right"], e.ml, e.mr, e.variant)
                   [] e.op = "ijoin" -> IntervalJoin(flat["left"], flat["right"], e.ml, e.mr)
                   [] e.op = "kijoin" -> KIntervalJoin(flat["left"], flat["right"], e.ml, e.mr, e.km)
                   [] e.op = "zip"   -> ZipComb(flat["left"], flat["right"])
                   [] e.op = "merge" -> flat["left"] \o flat["right"]
      carried == Len(e.left) >= 2 /\ got # exp /\ got = BagOf(noReset)
      V(kind, xs) == PrintT(<<"VIOL", ToJson([prop |-> prop, kind |-> kind, job |-> e.id, index |-> l,
                              extra |-> [op |-> e.op, variant |-> e.variant, values |-> xs,
                                         got |-> e.res, expected |-> Expected(e)]])>>)
  IN /\ (IF missing # {} THEN V(IF e.op \in {"join", "ijoin", "kijoin"} THEN "join_missing_pair" ELSE e.op \o "_missing", missing) ELSE TRUE)
     /\ (IF extra # {} THEN V(IF e.op \in {"join", "ijoin", "kijoin"} THEN "join_extra_pair" ELSE e.op \o "_extra", extra) ELSE TRUE)
     /\ (IF carried THEN PrintT(<<"VIOL", ToJson([prop |-> "C05", kind |-> "carry_over", job |-> e.id, index |-> l,
                                   extra |-> [op |-> e.op, variant |-> e.variant, got |-> e.res]])>>) ELSE TRUE)
     /\ nviol' = nviol + (IF missing # {} THEN 1 ELSE 0) + (IF extra # {} THEN 1 ELSE 0) + (IF carried THEN 1 ELSE 0)

Case2(e) ==
  LET wrong   == BagOf(e.res) # BagOf(Expected(e))
      aloneOK == \A i \in 1..Len(e.left) : BagOf(e.single[i]) = BagOf(OneIter(e, i))
  IN IF wrong /\ aloneOK
     THEN /\ PrintT(<<"VIOL", ToJson([prop |-> "C05", kind |-> "carry_over", job |-> e.id, index |-> l,
                                       extra |-> [op |-> e.op, variant |-> e.variant, got |-> e.res,
                                                  expected |-> Expected(e), alone |-> e.single]])>>)
          /\ nviol' = nviol + 1
     ELSE UNCHANGED nviol

Step ==
  /\ l <= Len(Rec)
  /\ l' = l + 1
  /\ LET e == Rec[l] IN
       CASE e.ev = "case" -> Case(e)
         [] e.ev = "case2" -> Case2(e)
         [] OTHER         -> UNCHANGED nviol

Spec == Init /\ [][Step]_vars
Final == l <= Len(Rec) \/ PrintT(<<"CONSUMED", Len(Rec), "VIOLATIONS", nviol>>)
Consumed == TLCGet("stats").diameter - 1 = Len(Rec)
=============================================================================
