-------------------------------- MODULE Link --------------------------------
(***************************************************************************)
(* Trace specification for C02 (and the marker-accounting part of C04):    *)
(* every link (producer replica -> consumer endpoint) delivers exactly the *)
(* sequence of elements the producer emitted towards it.                   *)
(*                                                                         *)
(* Input (IOEnv.TRACE, one JSON object per line, produced by the hooks in  *)
(* batcher.rs / network_channel.rs and projected by the driver):           *)
(*   job  {id}                      start of a job: all state is reset      *)
(*   enq  {link, el}                Batcher::enqueue(el) on link            *)
(*   send {link, els, via}          NetworkSender::send of a batch          *)
(*   recv {link, els}               a NetworkReceiver receive path returned *)
(*   done {id, ok}                  the job ended (ok: no worker panicked)  *)
(* `link` is "producer>endpoint"; elements are canonical strings.          *)
(*                                                                         *)
(* The next-state relation consumes one event per step and is total, so    *)
(* the whole trace is read; a failed predicate is reported (VIOL line) and *)
(* the run goes on, so one run reports every violation.                    *)
(***************************************************************************)
EXTENDS Naturals, Sequences, SequencesExt, Json, IOUtils, TLC, FiniteSets

Rec == ndJsonDeserialize(IOEnv.TRACE)

VARIABLES l,         \* position in the trace
          pending,   \* link -> elements enqueued in the batcher, not yet sent
          inflight,  \* link -> elements sent, not yet received
          job,       \* id of the current job
          nviol      \* number of violations reported so far
vars == <<l, pending, inflight, job, nviol>>

Get(f, k) == IF k \in DOMAIN f THEN f[k] ELSE <<>>
Put(f, k, v) == [x \in (DOMAIN f) \cup {k} |-> IF x = k THEN v ELSE f[x]]
Empty == [x \in {} |-> <<>>]

DropN(s, n) == SubSeq(s, n + 1, Len(s))

Viol(kind, e, extra) ==
  PrintT(<<"VIOL", ToJson([prop |-> "C02", kind |-> kind, job |-> job, index |-> l,
                           link |-> (IF "link" \in DOMAIN e THEN e.link ELSE ""),
                           extra |-> extra])>>)

Init == /\ l = 1 /\ pending = Empty /\ inflight = Empty /\ job = "" /\ nviol = 0

(* Batcher::enqueue: the producer hands one element to the link *)
Enq(e) ==
  /\ pending' = Put(pending, e.link, Append(Get(pending, e.link), e.el))
  /\ UNCHANGED <<inflight, job, nviol>>

(* NetworkSender::send.  A batcher may only send what was enqueued, in     *)
(* order (element level: re-batching is legal).  Direct sends (iteration   *)
(* leader, IterationEnd, Iterate) have no batcher in front of them.        *)
Send(e) ==
  LET p  == Get(pending, e.link)
      n  == Len(e.els)
      ok == e.via = "direct" \/ IsPrefix(e.els, p)
  IN /\ (IF ok THEN TRUE ELSE Viol("sent_not_enqueued_prefix", e, [sent |-> e.els, pending |-> p]))
     /\ nviol' = IF ok THEN nviol ELSE nviol + 1
     /\ pending' = IF e.via = "direct" THEN pending
                   ELSE Put(pending, e.link, IF ok THEN DropN(p, n) ELSE <<>>)
     /\ inflight' = Put(inflight, e.link, Get(inflight, e.link) \o e.els)
     /\ UNCHANGED job

(* A receive returned a batch: it must be the head of what is in flight on  *)
(* that very link (same producer, same endpoint), element by element.       *)
Recv(e) ==
  LET f  == Get(inflight, e.link)
      n  == Len(e.els)
      ok == IsPrefix(e.els, f)
  IN /\ (IF ok THEN TRUE ELSE Viol("recv_not_sent_prefix", e, [received |-> e.els, inflight |-> f]))
     /\ nviol' = IF ok THEN nviol ELSE nviol + 1
     /\ inflight' = Put(inflight, e.link, IF ok THEN DropN(f, n) ELSE <<>>)
     /\ UNCHANGED <<pending, job>>

(* End of a job without a panic: nothing may be left in any link.           *)
LeftOver == {k \in DOMAIN pending : pending[k] # <<>>} \cup
            {k \in DOMAIN inflight : inflight[k] # <<>>}
Done(e) ==
  LET bad == e.ok /\ LeftOver # {} IN
  /\ (IF ~bad THEN TRUE
      ELSE Viol("left_in_link_at_end", e,
                [links |-> SetToSeq(LeftOver),
                 what |-> [k \in LeftOver |-> <<Get(pending, k), Get(inflight, k)>>]]))
  /\ nviol' = IF bad THEN nviol + 1 ELSE nviol
  /\ UNCHANGED <<pending, inflight, job>>

Job(e) == /\ pending' = Empty /\ inflight' = Empty /\ job' = e.id /\ UNCHANGED nviol

Step ==
  /\ l <= Len(Rec)
  /\ l' = l + 1
  /\ LET e == Rec[l] IN
       CASE e.ev = "enq"  -> Enq(e)
         [] e.ev = "send" -> Send(e)
         [] e.ev = "recv" -> Recv(e)
         [] e.ev = "done" -> Done(e)
         [] e.ev = "job"  -> Job(e)
         [] OTHER         -> UNCHANGED <<pending, inflight, job, nviol>>

Spec == Init /\ [][Step]_vars

(* reported once, in the final state *)
Final == l <= Len(Rec) \/ PrintT(<<"CONSUMED", Len(Rec), "VIOLATIONS", nviol>>)
Consumed == TLCGet("stats").diameter - 1 = Len(Rec)
=============================================================================
