----------------------------- MODULE CrashCheck -----------------------------
(***************************************************************************)
(* C20 on the real engine: a user function panicked in one replica of an   *)
(* acyclic job (injected by the harness at a chosen operator, replica and  *)
(* element index).  From the property text:                                *)
(*   - execute_blocking fails on every host that runs the failed replica   *)
(*     or anything downstream of it             (kind crash_masked)        *)
(*   - no sink downstream of the failure publishes a result, partial or    *)
(*     complete                                  (kind result_after_crash) *)
(*   - all workers unwind: the run ends          (kind hang_after_crash)   *)
(*   case {id, crashed: <<[b, h, c] replicas whose user function panicked>>,*)
(*         edges: <<[from, to]>> (blocks), links: <<[from, to]>> (replica   *)
(*         coordinates), replicas: <<[b, h, c]>>,                           *)
(*         hosts: <<[h, failed]>>, sinks: <<[id, b, published, h]>>, hung}  *)
(* The blocks/edges/replica placement come from the execution graph dump.  *)
(***************************************************************************)
EXTENDS Naturals, Integers, Sequences, Json, IOUtils, TLC, FiniteSets

Rec == ndJsonDeserialize(IOEnv.TRACE)
VARIABLES l, nviol
vars == <<l, nviol>>
Range(s) == {s[i] : i \in DOMAIN s}

Init == l = 1 /\ nviol = 0

(* blocks reachable from the crashed ones (including them) *)
RECURSIVE Reach(_, _)
Reach(S, edges) ==
  LET nxt == S \cup {e.to : e \in {x \in edges : x.from \in S}} IN
  IF nxt = S THEN S ELSE Reach(nxt, edges)

Case(e) ==
  LET cblocks == {c.b : c \in Range(e.crashed)}
      all    == Reach(cblocks, Range(e.edges))
      (* "the failed replica or anything downstream of it": replicas reachable from the failed   *)
      (* REPLICA through the replica-level links of the execution graph (a same-index forward    *)
      (* connection does not make the sibling lanes downstream of it)                            *)
      rdown  == Reach({x.to : x \in {y \in Range(e.links) : y.from \in {c.c : c \in Range(e.crashed)}}},
                      Range(e.links))
      down   == {r.b : r \in {x \in Range(e.replicas) : x.c \in rdown}}
      must   == {c.h : c \in Range(e.crashed)} \cup {r.h : r \in {x \in Range(e.replicas) : x.c \in rdown}}
      masked == {h \in Range(e.hosts) : h.h \in must /\ ~h.failed}
      (* a sink is downstream of the failure when the block that feeds it is the failed block *)
      (* or downstream of it (s.b is the block of the sink's input)                           *)
      leaked == {s \in Range(e.sinks) : s.b \in all /\ s.published}
      V(kind, extra) == PrintT(<<"VIOL", ToJson([prop |-> "C20", kind |-> kind, job |-> e.id,
                                                index |-> l, extra |-> extra])>>)
  IN /\ (IF e.hung THEN V("hang_after_crash", [crashed |-> e.crashed]) ELSE TRUE)
     /\ \A h \in masked : V("crash_masked", [host |-> h.h, crashed |-> e.crashed, downstream |-> down])
     /\ \A s \in leaked : V("result_after_crash", [sink |-> s.id, host |-> s.h, crashed |-> e.crashed])
     /\ nviol' = nviol + Cardinality(masked) + Cardinality(leaked) + (IF e.hung THEN 1 ELSE 0)

Step ==
  /\ l <= Len(Rec)
  /\ l' = l + 1
  /\ LET e == Rec[l] IN
       CASE e.ev = "case" -> Case(e)
         [] OTHER         -> UNCHANGED nviol

Spec == Init /\ [][Step]_vars
Final == l <= Len(Rec) \/ PrintT(<<"CONSUMED", Len(Rec), "VIOLATIONS", nviol>>)
Consumed == TLCGet("stats").diameter - 1 = Len(Rec)
=============================================================================
