----------------------------- MODULE WindowCheck -----------------------------
(***************************************************************************)
(* R for C12 / C13 / C14: behaviours of the window models (comp/           *)
(* CountWindow, EventTimeWindow, TransactionWindow, ProcTimeWindow,        *)
(* SessionWindow) were replayed on the REAL window managers by             *)
(* harness-win (`vhw run`): directly through WindowDescription::build +    *)
(* WindowManager::process, or through WindowOperator in a real single      *)
(* block job.  Each record carries the input script, what the real code    *)
(* emitted after every input step (out) and what the model predicted       *)
(* (outm).  The predicates of comp/WindowProps.tla are evaluated on the    *)
(* REAL outputs; a difference between out and outm that violates no        *)
(* predicate is conformance drift (INFO).                                  *)
(*   case {ev: "case", id, kind, path, p, input, out, outm?}               *)
(* The models are used here for two things only: the INFO comparison and   *)
(* the `cause` field of a lost event-time element (is the element below    *)
(* the start of the oldest open slot of the series as the unchanged        *)
(* algorithm allocates it = input class of finding F3).                    *)
(***************************************************************************)
EXTENDS Naturals, Integers, Sequences, Json, IOUtils, TLC, FiniteSets, WindowProps

Rec == ndJsonDeserialize(IOEnv.TRACE)
VARIABLES l, nviol
vars == <<l, nviol>>

EV == INSTANCE EventTimeWindow WITH
        SIZES <- {1}, TMAX <- 0, WMAX <- 0, MAXE <- 0, MAXW <- 0, ITERS <- 0, KEYS <- {0}, BEFORE <- TRUE, FIX_F4 <- TRUE, ba <- 0,
        p <- 0, live <- 0, st <- 0, inp <- 0, outs <- 0, it <- 0, cnt <- 0, nw <- 0, lastw <- 0,
        nid <- 0, done <- 0

PropOf(kind) == CASE kind = "count" -> "C12"
                  [] kind \in {"event", "txn"} -> "C13"
                  [] OTHER -> "C14"

(* state of the model manager of `key` after the steps 1..upto (WindowOperator semantics) *)
RECURSIVE EvRun(_, _, _, _, _, _)
EvRun(p, inp, key, i, upto, s) ==
  IF i > upto THEN s
  ELSE LET e == inp[i] IN
       IF IsData(e)
       THEN EvRun(p, inp, key, i + 1, upto,
                  IF e.key = key THEN [live |-> TRUE, st |-> EV!EvStep(p, s.st, e).st] ELSE s)
       ELSE IF ~s.live THEN EvRun(p, inp, key, i + 1, upto, s)
       ELSE LET n == EV!EvStep(p, s.st, e).st
            IN EvRun(p, inp, key, i + 1, upto,
                     IF EV!EvRecycle(n) THEN [live |-> FALSE, st |-> EV!EvInit] ELSE [live |-> TRUE, st |-> n])

LostCause(e, v) ==
  LET s == EvRun(e.p, e.input, v.key, 1, v.step - 1, [live |-> FALSE, st |-> EV!EvInit])
  IN IF EV!BeforeAnchor(s.st, e.input[v.step].ts) THEN "element_before_anchor" ELSE "lost"

Refine(e, v) ==
  IF e.kind = "event" /\ v.cause = "lost" THEN [v EXCEPT !.cause = LostCause(e, v)] ELSE v

(* C06 by-product *)
LateCause(e, v) ==
  LET rs == RSteps(e.input)
      a  == ItFirst(rs, v.iter)
      w  == LastW(e.input, a, v.step - 1)
  IN e.kind \o (IF e.input[v.step].k = "R" /\ e.kind = "count" THEN "_end_flush_ts_below_watermark"
                ELSE IF v.v = w THEN "_result_ts_equals_watermark"
                ELSE "_result_ts_below_watermark")

SameOutputs(e) ==
  \A key \in Keys(e.input, e.out) \cup Keys(e.input, e.outm) :
     FlatRes(e.out, key, 1, Len(e.input)) = FlatRes(e.outm, key, 1, Len(e.input))

Init == l = 1 /\ nviol = 0

Case(e) ==
  LET vs   == {Refine(e, v) : v \in Judge(e.kind, e.p, e.input, e.out)}
      late == LateResultViol(e.input, e.out)
      path == IF "path" \in DOMAIN e THEN e.path ELSE "direct"
  IN /\ \A v \in vs :
          PrintT(<<"VIOL", ToJson([prop |-> PropOf(e.kind), kind |-> v.kind, cause |-> v.cause,
                                   window |-> e.kind, path |-> path, job |-> e.id, index |-> l,
                                   key |-> v.key, iter |-> v.iter, step |-> v.step, v |-> v.v,
                                   extra |-> [p |-> e.p, input |-> e.input, out |-> e.out]])>>)
     /\ \A v \in late :
          PrintT(<<"VIOL", ToJson([prop |-> "C06", kind |-> v.kind, cause |-> LateCause(e, v),
                                   window |-> e.kind, path |-> path, job |-> e.id, index |-> l,
                                   key |-> v.key, iter |-> v.iter, step |-> v.step, v |-> v.v,
                                   extra |-> [p |-> e.p, input |-> e.input, out |-> e.out]])>>)
     /\ (IF "outm" \in DOMAIN e /\ ~SameOutputs(e)
         THEN PrintT(<<"INFO", ToJson([drift |-> e.id, window |-> e.kind, p |-> e.p, input |-> e.input,
                                       real |-> e.out, model |-> e.outm])>>)
         ELSE TRUE)
     /\ nviol' = nviol + Cardinality(vs)

(***************************************************************************)
(* C05 at the window operators (record ev = "c05": a multi-iteration case  *)
(* with `solo` = the real outputs of a fresh instance on each iteration's  *)
(* input alone).  Reported with prop "C05": output_after_restart,          *)
(* carry_over (metamorphic), and carry_over for the WindowProps verdicts   *)
(* that say a result mixes iterations (cause = that verdict's kind).       *)
(* Losses (F3) and timestamps (F5) are no carry-over and not reported.     *)
(***************************************************************************)
MixesIterations(v) ==
  \/ v.cause \in {"other_iteration", "carried_over_iteration", "after_restart"}
Case05(e) ==
  LET path == IF "path" \in DOMAIN e THEN e.path ELSE "direct"
      mix  == {V("carry_over", v.kind, v.key, v.iter, v.step, v.v) :
                 v \in {v \in Judge(e.kind, e.p, e.input, e.out) : MixesIterations(v)}}
      vs   == AfterRestartViol(e.input, e.out) \cup CarryOverViol(e.input, e.out, e.solo) \cup mix
  IN /\ \A v \in vs :
          PrintT(<<"VIOL", ToJson([prop |-> "C05", kind |-> v.kind, cause |-> v.cause,
                                   window |-> e.kind, path |-> path, job |-> e.id, index |-> l,
                                   key |-> v.key, iter |-> v.iter, step |-> v.step, v |-> v.v,
                                   extra |-> [p |-> e.p, input |-> e.input, out |-> e.out, solo |-> e.solo]])>>)
     /\ nviol' = nviol + Cardinality(vs)

Step ==
  /\ l <= Len(Rec)
  /\ l' = l + 1
  /\ LET e == Rec[l] IN
       CASE e.ev = "case" -> Case(e)
         [] e.ev = "c05"  -> Case05(e)
         [] OTHER         -> UNCHANGED nviol

Spec == Init /\ [][Step]_vars
Final == l <= Len(Rec) \/ PrintT(<<"CONSUMED", Len(Rec), "VIOLATIONS", nviol>>)
Consumed == TLCGet("stats").diameter - 1 = Len(Rec)
=============================================================================
