----------------------------- MODULE StartConform -----------------------------
(***************************************************************************)
(* T (conformance) for the single-input block head: the receive events and *)
(* the `start_out` events of ONE real replica (program order: one thread)  *)
(* replayed through comp/StartCore.tla, the transcription of Start::next   *)
(* with the watermark frontier.                                            *)
(*   begin {job, p, senders, to}   replica p and the upstream replicas its  *)
(*                      Start listens to (start_setup hook), timeouts on   *)
(*   r {from, els}      a network message (els: <<[k, v, ts]>>)            *)
(*   o {k, v, ts}       Start handed an element to the operators           *)
(*   done {ok}                                                             *)
(* Markers and watermarks that make nothing new safe are consumed without  *)
(* an event (`Settle`); the machine is deterministic given the receives.   *)
(* A mismatch is conformance DRIFT, never a property verdict by itself.    *)
(***************************************************************************)
EXTENDS Naturals, Integers, Sequences, Json, IOUtils, TLC, StartCore

Rec == ndJsonDeserialize(IOEnv.TRACE)
VARIABLES l, st, mode, who, ndrift
vars == <<l, st, mode, who, ndrift>>
Range(s) == {s[i] : i \in DOMAIN s}

TInit == l = 1 /\ st = SInit({"x"}) /\ mode = "idle" /\ who = [job |-> "", p |-> "", to |-> FALSE] /\ ndrift = 0

RECURSIVE Settle(_)
Settle(s) ==
  IF s.missX = 0 \/ s.missR = 0 \/ s.batch = <<>> THEN s
  ELSE IF Silent(s) THEN Settle(PopSilent(s)) ELSE s

Expect(s) ==
  IF s.missX = 0 THEN "out X"
  ELSE IF s.missR = 0 THEN "out FR"
  ELSE IF s.batch # <<>> THEN "out " \o HeadOut(s).k
  ELSE "a receive" \o (IF s.timedOut THEN "" ELSE " or out B")

Drift(e, s) ==
  /\ PrintT(<<"INFO", ToJson([drift |-> "start", job |-> who.job, p |-> who.p, index |-> l,
                              expected |-> Expect(s), got |-> e])>>)
  /\ mode' = "lost" /\ ndrift' = ndrift + 1 /\ UNCHANGED <<st, who>>

Begin(e) ==
  /\ st' = SInit(Range(e.senders)) /\ mode' = "run"
  /\ who' = [job |-> e.job, p |-> e.p, to |-> e.to] /\ UNCHANGED ndrift

RecvEv(e) ==
  IF st.missX > 0 /\ st.missR > 0 /\ st.batch = <<>> /\ e.from \in DOMAIN st.wm
  THEN st' = Settle(SReceived(st, e.from, e.els)) /\ UNCHANGED <<mode, who, ndrift>>
  ELSE Drift(e, st)

OutEv(e) ==
  CASE e.k = "X" ->
         IF st.missX = 0 THEN UNCHANGED <<st, mode, who, ndrift>> ELSE Drift(e, st)
    [] e.k = "FR" ->
         IF st.missX > 0 /\ st.missR = 0
         THEN st' = Settle(EmitRestart(st)) /\ UNCHANGED <<mode, who, ndrift>>
         ELSE Drift(e, st)
    [] e.k = "B" ->
         IF st.missX > 0 /\ st.missR > 0 /\ st.batch = <<>> /\ who.to /\ ~st.timedOut
         THEN st' = [st EXCEPT !.timedOut = TRUE] /\ UNCHANGED <<mode, who, ndrift>>
         ELSE Drift(e, st)
    [] OTHER ->
         IF st.missX > 0 /\ st.missR > 0 /\ st.batch # <<>> /\ HeadOut(st) = [k |-> e.k, v |-> e.v, ts |-> e.ts]
         THEN st' = Settle(PopOut(st)) /\ UNCHANGED <<mode, who, ndrift>>
         ELSE Drift(e, st)

EndEv(e) ==
  IF e.ok /\ st.missX # 0 THEN Drift(e, st)
  ELSE mode' = "idle" /\ UNCHANGED <<st, who, ndrift>>

Step ==
  /\ l <= Len(Rec)
  /\ l' = l + 1
  /\ LET e == Rec[l] IN
       CASE e.ev = "begin" -> Begin(e)
         [] mode # "run"   -> UNCHANGED <<st, mode, who, ndrift>>
         [] e.ev = "r"     -> RecvEv(e)
         [] e.ev = "o"     -> OutEv(e)
         [] e.ev = "done"  -> EndEv(e)
         [] OTHER          -> UNCHANGED <<st, mode, who, ndrift>>

Spec == TInit /\ [][Step]_vars
Final == l <= Len(Rec) \/ PrintT(<<"CONSUMED", Len(Rec), "VIOLATIONS", 0>>)
Consumed == TLCGet("stats").diameter - 1 = Len(Rec)
=============================================================================
