------------------------------- MODULE Latency -------------------------------
(***************************************************************************)
(* Trace specification for C18 on streaming jobs: a channel source is fed  *)
(* a few elements, then nothing for a long time (orders of magnitude more  *)
(* than the configured maximum delay), then it is closed.                  *)
(*   job    {id, adaptive}      adaptive: the job uses BatchMode::adaptive *)
(*   fed    {v}                 an element was handed to the channel source *)
(*   arrive {v}                 an element came out of the channel sink     *)
(*   close                      the source was closed (after the idle time) *)
(*   done   {id, ok}                                                       *)
(* The pipelines are element-wise (one output per input), so counting is   *)
(* enough; the verdict depends on the ORDER of events only.                *)
(*   not_delivered_while_idle  adaptive batching: something fed before the *)
(*        idle period had not arrived when the source was closed           *)
(*   not_delivered_at_end      any mode: something fed never arrived       *)
(***************************************************************************)
EXTENDS Naturals, Sequences, Json, IOUtils, TLC, FiniteSets

Rec == ndJsonDeserialize(IOEnv.TRACE)
VARIABLES l, job, adaptive, nfed, narr, nviol
vars == <<l, job, adaptive, nfed, narr, nviol>>

Init == l = 1 /\ job = "" /\ adaptive = FALSE /\ nfed = 0 /\ narr = 0 /\ nviol = 0

V(kind, extra) == PrintT(<<"VIOL", ToJson([prop |-> "C18", kind |-> kind, job |-> job, index |-> l, extra |-> extra])>>)

Step ==
  /\ l <= Len(Rec)
  /\ l' = l + 1
  /\ LET e == Rec[l] IN
     CASE e.ev = "job" -> job' = e.id /\ adaptive' = e.adaptive /\ nfed' = 0 /\ narr' = 0 /\ UNCHANGED nviol
       [] e.ev = "fed" -> nfed' = nfed + 1 /\ UNCHANGED <<job, adaptive, narr, nviol>>
       [] e.ev = "arrive" -> narr' = narr + 1 /\ UNCHANGED <<job, adaptive, nfed, nviol>>
       [] e.ev = "close" ->
            LET bad == adaptive /\ narr < nfed IN
            /\ (IF bad THEN V("not_delivered_while_idle", [fed |-> nfed, arrived |-> narr]) ELSE TRUE)
            /\ nviol' = IF bad THEN nviol + 1 ELSE nviol
            /\ UNCHANGED <<job, adaptive, nfed, narr>>
       [] e.ev = "done" ->
            LET bad == e.ok /\ narr # nfed IN
            /\ (IF bad THEN V("not_delivered_at_end", [fed |-> nfed, arrived |-> narr]) ELSE TRUE)
            /\ nviol' = IF bad THEN nviol + 1 ELSE nviol
            /\ UNCHANGED <<job, adaptive, nfed, narr>>
       [] OTHER -> UNCHANGED <<job, adaptive, nfed, narr, nviol>>

Spec == Init /\ [][Step]_vars
Final == l <= Len(Rec) \/ PrintT(<<"CONSUMED", Len(Rec), "VIOLATIONS", nviol>>)
Consumed == TLCGet("stats").diameter - 1 = Len(Rec)
=============================================================================
