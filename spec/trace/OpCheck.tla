------------------------------- MODULE OpCheck -------------------------------
(***************************************************************************)
(* R for single-input stateful operators fed with timestamped scripts:     *)
(* TLC generated every contract-respecting script (comp/Start.tla with one *)
(* sender: data, watermarks, FlushAndRestart x ITERS, Terminate); the real *)
(* operator ran on it inside a real job; the probes before and after the   *)
(* operator give the interleaved history h of inputs and outputs.          *)
(*   case {id, op, m, h}   h[i] = [d |-> "in"|"out", el |-> [k, v, ts]]    *)
(* op = "reorder": C16 (sorted, nothing lost, released only when covered   *)
(*      by a watermark or the end of the iteration) and C06 on the output  *)
(* op = "fold" / "kfold": C07 (one result per key per iteration, value =   *)
(*      sequential fold, timestamp = max input timestamp), C05 (results    *)
(*      before the FlushAndRestart of their iteration, nothing carried     *)
(*      over), C06 on the output                                           *)
(* keyed values: v = [key, value] pairs for kfold outputs                  *)
(***************************************************************************)
EXTENDS Naturals, Integers, Sequences, Json, IOUtils, TLC, FiniteSets, Elem

Rec == ndJsonDeserialize(IOEnv.TRACE)
VARIABLES l, nviol
vars == <<l, nviol>>
Init == l = 1 /\ nviol = 0

Ins(h) == [i \in 1..Len(SelectSeq(h, LAMBDA x : x.d = "in")) |-> SelectSeq(h, LAMBDA x : x.d = "in")[i].el]
Outs(h) == [i \in 1..Len(SelectSeq(h, LAMBDA x : x.d = "out")) |-> SelectSeq(h, LAMBDA x : x.d = "out")[i].el]
MaxOf(S) == CHOOSE m \in S : \A x \in S : x <= m

(* state of the scan over h for reorder: max watermark consumed in this iteration, R consumed *)
RECURSIVE EarlyRelease(_, _, _, _)
EarlyRelease(h, i, maxw, ended) ==
  IF i > Len(h) THEN {}
  ELSE LET e == h[i] IN
    IF e.d = "in" THEN
      EarlyRelease(h, i + 1,
                   IF e.el.k = "W" /\ e.el.ts > maxw THEN e.el.ts ELSE IF e.el.k = "R" THEN maxw ELSE maxw,
                   IF e.el.k = "R" THEN TRUE ELSE ended)
    ELSE
      (IF e.el.k = "T" /\ ~ended /\ maxw < e.el.ts THEN {i} ELSE {})
      \cup EarlyRelease(h, i + 1, IF e.el.k = "R" THEN -1 ELSE maxw, IF e.el.k = "R" THEN FALSE ELSE ended)

SortedTs(s) == \A i \in 1..(Len(s) - 1) : s[i].ts <= s[i + 1].ts
DataBag(s) == BagOfSeq([i \in 1..Len(DataOf(s)) |-> <<DataOf(s)[i].v, DataOf(s)[i].ts>>])

ReorderKinds(h) ==
  LET ii == Iterations(Ins(h))
      oo == Iterations(Outs(h))
      n == IF Len(ii) < Len(oo) THEN Len(ii) ELSE Len(oo)
  IN (IF \E i \in 1..Len(oo) : ~SortedTs(DataOf(oo[i])) THEN {"reorder_unsorted"} ELSE {})
     \cup (IF Len(ii) # Len(oo) \/ \E i \in 1..n : DataBag(ii[i]) # DataBag(oo[i]) THEN {"reorder_lost"} ELSE {})
     (* C05: the first iteration is right and a later one is not: something was carried over *)
     \cup (IF n >= 2 /\ DataBag(ii[1]) = DataBag(oo[1]) /\ \E i \in 2..n : DataBag(ii[i]) # DataBag(oo[i])
           THEN {"carry_over"} ELSE {})
     \cup (IF EarlyRelease(h, 1, -1, FALSE) # {} THEN {"reorder_early_release"} ELSE {})

(* folds: per iteration, per key: one result, value = sum, ts = max input ts *)
KeyOf(e, m) == IF m = 0 THEN 0 ELSE e.v % m
FoldKinds(h, m) ==
  LET ii == Iterations(Ins(h))
      oo == Iterations(Outs(h))
      n == IF Len(ii) < Len(oo) THEN Len(ii) ELSE Len(oo)
      keys(s) == {KeyOf(e, m) : e \in Range(DataOf(s))}
      sumOf(s, k) == LET xs == SelectSeq(DataOf(s), LAMBDA e : KeyOf(e, m) = k)
                         RECURSIVE Sum(_)
                         Sum(j) == IF j > Len(xs) THEN 0 ELSE xs[j].v + Sum(j + 1)
                     IN Sum(1)
      maxTs(s, k) == MaxOf({e.ts : e \in {x \in Range(DataOf(s)) : KeyOf(x, m) = k}})
      (* an output of a keyed fold carries v = <<key, value>>, of a global fold v = value *)
      outKey(e) == IF m = 0 THEN 0 ELSE e.v[1]
      outVal(e) == IF m = 0 THEN e.v ELSE e.v[2]
      resultsFor(s, k) == SelectSeq(DataOf(s), LAMBDA e : outKey(e) = k)
      badIter(i) ==
        (IF \E k \in keys(ii[i]) : Len(resultsFor(oo[i], k)) # 1 THEN {"agg_results_per_key"} ELSE {})
        \cup (IF {outKey(e) : e \in Range(DataOf(oo[i]))} \ keys(ii[i]) # {} THEN {"agg_result_on_empty"} ELSE {})
        \cup (IF \E k \in keys(ii[i]) : Len(resultsFor(oo[i], k)) = 1 /\ outVal(resultsFor(oo[i], k)[1]) # sumOf(ii[i], k)
              THEN {"agg_value"} ELSE {})
        \cup (IF \E k \in keys(ii[i]) : Len(resultsFor(oo[i], k)) = 1 /\
                   ~(resultsFor(oo[i], k)[1].k = "T" /\ resultsFor(oo[i], k)[1].ts = maxTs(ii[i], k))
              THEN {"agg_timestamp"} ELSE {})
  IN (IF Len(ii) # Len(oo) THEN {"carry_over"} ELSE {}) \cup UNION {badIter(i) : i \in 1..n}
     (* C05: the first iteration is right and a later one is not: something was carried over *)
     \cup (IF n >= 2 /\ badIter(1) = {} /\ \E i \in 2..n : badIter(i) # {} THEN {"carry_over"} ELSE {})

PropOfKind(kind) ==
  CASE kind \in {"reorder_unsorted", "reorder_lost", "reorder_early_release"} -> "C16"
    [] kind \in {"agg_results_per_key", "agg_result_on_empty", "agg_value", "agg_timestamp"} -> "C07"
    [] kind \in {"late_element"} -> "C06"
    [] OTHER -> "C05"

Case(e) ==
  LET kinds == (IF e.op = "reorder" THEN ReorderKinds(e.h) ELSE FoldKinds(e.h, e.m))
               \cup (IF ~WatermarkOK(Outs(e.h)) THEN {"late_element"} ELSE {})
               \cup (IF ~GrammarOK(NoFlush(Outs(e.h))) THEN {"grammar"} ELSE {})
  IN /\ \A kind \in kinds :
          PrintT(<<"VIOL", ToJson([prop |-> PropOfKind(kind), kind |-> kind, job |-> e.id, index |-> l,
                                   extra |-> [op |-> e.op, h |-> e.h]])>>)
     /\ nviol' = nviol + Cardinality(kinds)

Step ==
  /\ l <= Len(Rec)
  /\ l' = l + 1
  /\ LET e == Rec[l] IN
       CASE e.ev = "case" -> Case(e)
         [] OTHER         -> UNCHANGED nviol

Spec == Init /\ [][Step]_vars
Final == l <= Len(Rec) \/ PrintT(<<"CONSUMED", Len(Rec), "VIOLATIONS", nviol>>)
Consumed == TLCGet("stats").diameter - 1 = Len(Rec)
=============================================================================
