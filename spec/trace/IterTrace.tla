------------------------------ MODULE IterTrace ------------------------------
(***************************************************************************)
(* Trace specification for C10 on real loop jobs (the T binding of         *)
(* sys/Iteration.tla).  The hooks log, in one total order:                 *)
(*   read   {th, round, state}   a body operator (map_st) read the loop    *)
(*          state through the public IterationStateHandle; `round` is the  *)
(*          number of FlushAndRestart the operator's replica had seen      *)
(*          before, plus one (computed by the driver from the probe events *)
(*          of the same operator on the same thread)                       *)
(*   lock / unlock / wait_ret {lock, gen, want}  IterationStateLock         *)
(*   set_state {lock, state}     the local leader wrote the host's state   *)
(*   leader {round, cont, state} the IterationLeader decided               *)
(*   job {id, prog, loop}        prog: the program; loop: the loop node id  *)
(*   done {id, ok}                                                         *)
(* Predicates (from the property text):                                    *)
(*   state_read_wrong_round  a read in round k did not return S(k-1),      *)
(*        where S is SeqSemantics!LoopStates of the program (computed here) *)
(*   rounds_executed         the leader did not decide exactly the rounds  *)
(*        of the sequential semantics, or continued/stopped wrongly        *)
(*   leader_state            the state broadcast after round k is not S(k) *)
(*   lock_discipline         generation not monotone / unlock of an even   *)
(*        generation / wait returned below the requested generation        *)
(*   set_state_value         a host's state was set to something else than *)
(*        the leader's decision for that round                             *)
(***************************************************************************)
EXTENDS Naturals, Integers, Sequences, Json, IOUtils, TLC, FiniteSets, SeqSemantics

Rec == ndJsonDeserialize(IOEnv.TRACE)
VARIABLES l, job, S, gens, nlead, lstates, sets, nviol
vars == <<l, job, S, gens, nlead, lstates, sets, nviol>>

Init == l = 1 /\ job = "" /\ S = <<>> /\ gens = [x \in {} |-> 0] /\ nlead = 0 /\ lstates = <<>> /\ sets = [x \in {} |-> 0] /\ nviol = 0

V(kind, extra) == PrintT(<<"VIOL", ToJson([prop |-> "C10", kind |-> kind, job |-> job, index |-> l, extra |-> extra])>>)
Chk(ok, kind, extra) == IF ok THEN TRUE ELSE V(kind, extra)
B2N(b) == IF b THEN 0 ELSE 1

Step ==
  /\ l <= Len(Rec)
  /\ l' = l + 1
  /\ LET e == Rec[l] IN
     CASE e.ev = "job" ->
            /\ job' = e.id /\ S' = LoopStates(e.prog, e.loop) /\ gens' = [x \in {} |-> 0]
            /\ nlead' = 0 /\ lstates' = <<>> /\ sets' = [x \in {} |-> 0] /\ UNCHANGED nviol
       [] e.ev = "read" ->
            LET ok == e.round <= Len(S) /\ e.state = S[e.round] IN
            /\ Chk(ok, "state_read_wrong_round",
                   [round |-> e.round, read |-> e.state,
                    expected |-> IF e.round <= Len(S) THEN S[e.round] ELSE -1, th |-> e.th])
            /\ nviol' = nviol + B2N(ok) /\ UNCHANGED <<job, S, gens, nlead, lstates, sets>>
       [] e.ev = "leader" ->
            (* the state broadcast with a "continue" decision after round k is S(k); with the final *)
            (* decision the engine broadcasts the INITIAL state again (the loop is re-armed for an   *)
            (* enclosing loop; the final state leaves through the output stream, checked by D)       *)
            LET k == nlead + 1
                okState == IF e.cont THEN k + 1 <= Len(S) /\ e.state = S[k + 1] ELSE e.state = S[1]
                okCont == e.cont = (k + 1 < Len(S))
            IN /\ Chk(okState, "leader_state", [round |-> k, state |-> e.state, cont |-> e.cont])
               /\ Chk(okCont, "rounds_executed", [round |-> k, cont |-> e.cont, expected_rounds |-> Len(S) - 1])
               /\ nlead' = k /\ lstates' = Append(lstates, e.state)
               /\ nviol' = nviol + B2N(okState) + B2N(okCont)
               /\ UNCHANGED <<job, S, gens, sets>>
       [] e.ev \in {"lock", "unlock", "wait_ret"} ->
            LET g0 == IF e.lock \in DOMAIN gens THEN gens[e.lock] ELSE 0
                ok == /\ e.gen >= g0
                      /\ (e.ev = "unlock" => e.gen % 2 = 0 /\ e.gen = g0 + 1)
                      /\ (e.ev = "lock" => e.gen % 2 = 1 /\ e.gen \in {g0, g0 + 1})
                      /\ (e.ev = "wait_ret" => e.gen >= e.want)
            IN /\ Chk(ok, "lock_discipline", [what |-> e.ev, gen |-> e.gen, before |-> g0, want |-> e.want])
               /\ gens' = [x \in (DOMAIN gens) \cup {e.lock} |-> IF x = e.lock THEN e.gen ELSE gens[x]]
               /\ nviol' = nviol + B2N(ok) /\ UNCHANGED <<job, S, nlead, lstates, sets>>
       [] e.ev = "set_state" ->
            (* the k-th write of a host's state carries the leader's k-th decision *)
            LET k == (IF e.lock \in DOMAIN sets THEN sets[e.lock] ELSE 0) + 1
                ok == k <= Len(lstates) /\ e.state = lstates[k]
            IN /\ Chk(ok, "set_state_value", [nth |-> k, state |-> e.state])
               /\ sets' = [x \in (DOMAIN sets) \cup {e.lock} |-> IF x = e.lock THEN k ELSE sets[x]]
               /\ nviol' = nviol + B2N(ok) /\ UNCHANGED <<job, S, gens, nlead, lstates>>
       [] e.ev = "done" ->
            LET ok == ~e.ok \/ nlead = Len(S) - 1 IN
            /\ Chk(ok, "rounds_executed", [rounds |-> nlead, expected_rounds |-> Len(S) - 1])
            /\ nviol' = nviol + B2N(ok) /\ UNCHANGED <<job, S, gens, nlead, lstates, sets>>
       [] OTHER -> UNCHANGED <<job, S, gens, nlead, lstates, sets, nviol>>

Spec == Init /\ [][Step]_vars
Final == l <= Len(Rec) \/ PrintT(<<"CONSUMED", Len(Rec), "VIOLATIONS", nviol>>)
Consumed == TLCGet("stats").diameter - 1 = Len(Rec)
=============================================================================
