----------------------------- MODULE GraphCheck -----------------------------
(***************************************************************************)
(* C19 on the real scheduler: for every enumerated (program, cluster) the  *)
(* harness asks EVERY host of the cluster for the execution graph and the  *)
(* address map it derives (StreamContext::verif_execution_graph, a hook    *)
(* that runs build_execution_graph + topology.build without starting any  *)
(* worker).  TLC checks every dump against the rules of GraphProps.tla and *)
(* all dumps of one configuration against each other.                      *)
(*   case {id, cores, dumps: <<g>>, fwd_repr: per dump, per block}         *)
(***************************************************************************)
EXTENDS Naturals, Integers, Sequences, Json, IOUtils, TLC, FiniteSets, GraphProps

Rec == ndJsonDeserialize(IOEnv.TRACE)
VARIABLES l, nviol
vars == <<l, nviol>>

Init == l = 1 /\ nviol = 0

V(e, kind, extra) ==
  PrintT(<<"VIOL", ToJson([prop |-> "C19", kind |-> kind, job |-> e.id, index |-> l, extra |-> extra])>>)

(* violations of one dump, as a set of [kind, ...] records *)
DumpViolations(cores, g) ==
     {[kind |-> "replica_set", block |-> b] : b \in BadReplicaSet(cores, g)}
  \cup {[kind |-> "global_ids", block |-> b] : b \in BadGlobalIds(g)}
  \cup {[kind |-> x.kind, from |-> x.from, to |-> x.to, producer |-> x.producer,
         class |-> IF x.kind = "forward_link_missing" /\ x.consumers > 1
                   THEN "no_same_index_consumer_among_several" ELSE "other"] : x \in BadForward(g)}
  \cup {[kind |-> "alltoall_missing", from |-> x.from, to |-> x.to, producer |-> x.producer] : x \in BadAllToAll(g)}
  \cup {[kind |-> "link_extra", link |-> k] : k \in BadExtraLinks(g)}
  \cup {[kind |-> "address_collision", a |-> p[1], b |-> p[2]] : p \in AddrCollisions(g)}
  \cup {[kind |-> "address_missing", link |-> k] : k \in AddrMissing(g)}
  \cup {[kind |-> "strategy_flag_mismatch", block |-> b.id] : b \in {x \in Range(g.blocks) : x.fwd # x.fwd_repr}}

Case(e) ==
  LET vs == UNION {{[host |-> i - 1, v |-> x] : x \in DumpViolations(e.cores, e.dumps[i])} : i \in 1..Len(e.dumps)}
      disagree == {i \in 2..Len(e.dumps) : Canon(e.dumps[i]) # Canon(e.dumps[1])}
  IN /\ \A x \in vs : V(e, x.v.kind, x)
     /\ \A i \in disagree : V(e, "host_disagreement", [host |-> i - 1])
     /\ nviol' = nviol + Cardinality(vs) + Cardinality(disagree)

Step ==
  /\ l <= Len(Rec)
  /\ l' = l + 1
  /\ LET e == Rec[l] IN
       CASE e.ev = "case" -> Case(e)
         [] OTHER         -> UNCHANGED nviol

Spec == Init /\ [][Step]_vars
Final == l <= Len(Rec) \/ PrintT(<<"CONSUMED", Len(Rec), "VIOLATIONS", nviol>>)
Consumed == TLCGet("stats").diameter - 1 = Len(Rec)
=============================================================================
