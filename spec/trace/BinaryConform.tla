---------------------------- MODULE BinaryConform ----------------------------
(***************************************************************************)
(* T (conformance) for the two-input block head: the receive events and    *)
(* the `start_out` events of ONE real replica of a join / merge / zip      *)
(* block - in program order, they come from one thread - are replayed      *)
(* through comp/BinaryStart.tla, the transcription of Start::next over     *)
(* BinaryStartReceiver::select.  Every event must be the one the           *)
(* specification's state machine allows next:                              *)
(*   begin {job, p, nl, nr, cl, cr, to}  replica p: upstream replicas per   *)
(*                      side, which side is cached, receive timeouts on    *)
(*   rl / rr {els}      a network message was received from the left /     *)
(*                      right side (els: <<[k, v]>>, k = I | FR | X)       *)
(*   o {k, v}           Start handed an element to the operators           *)
(*                      (L, R, LE, RE, FR, X, B)                           *)
(*   done {ok}          the job ended (ok: normally)                       *)
(* What the code does without an event - popping markers, replaying the    *)
(* cache, synthesising the Terminates of a cached side, the reset between  *)
(* rounds - is inferred (`Settle`): the machine is deterministic given the *)
(* receives, so validation is linear.                                      *)
(* A mismatch is conformance DRIFT (the model no longer describes the code *)
(* - or the code changed): reported, never a property verdict by itself.   *)
(***************************************************************************)
EXTENDS Naturals, Integers, Sequences, Json, IOUtils, TLC, BinaryStart

Rec == ndJsonDeserialize(IOEnv.TRACE)
VARIABLES l, st, mode, who, ndrift, nseg
vars == <<l, st, mode, who, ndrift, nseg>>

NoState == BSInit(1, 1, FALSE, FALSE)
TInit == l = 1 /\ st = NoState /\ mode = "idle" /\ who = [job |-> "", p |-> "", to |-> FALSE] /\ ndrift = 0 /\ nseg = 0

(* the steps the code takes without an event, until it needs a receive or emits something *)
RECURSIVE Settle(_)
Settle(s) ==
  IF s.missX = 0 \/ s.missR = 0 THEN s
  ELSE IF s.batch # <<>>
       THEN IF Head(s.batch).k \in {"FR", "X"} THEN Settle(PopMarker(s)) ELSE s
  ELSE LET r == AfterReset(s)
           c == Choice(r)
       IN IF c[1] = "synth" THEN Settle([r EXCEPT !.batch = SynthBatch(r), !.timedOut = FALSE])
          ELSE IF c[1] = "cache" THEN Settle([FromCache(r, c[2]) EXCEPT !.timedOut = FALSE])
          ELSE s

(* what the specification expects next, for the drift report *)
Expect(s) ==
  IF s.missX = 0 THEN "out X"
  ELSE IF s.missR = 0 THEN "out FR"
  ELSE IF s.batch # <<>> THEN "out " \o Head(s.batch).k
  ELSE LET c == Choice(AfterReset(s)) IN
       IF c[1] = "recv" THEN "receive from " \o (IF c[2] = {"L"} THEN "L" ELSE IF c[2] = {"R"} THEN "R" ELSE "L or R")
                             \o (IF s.timedOut THEN "" ELSE " or out B")
       ELSE "nothing (both sides terminated)"

Drift(e, s) ==
  /\ PrintT(<<"INFO", ToJson([drift |-> "binary_start", job |-> who.job, p |-> who.p, index |-> l,
                              expected |-> Expect(s), got |-> e])>>)
  /\ mode' = "lost" /\ ndrift' = ndrift + 1 /\ UNCHANGED <<st, who, nseg>>

Begin(e) ==
  /\ st' = Settle(BSInit(e.nl, e.nr, e.cl, e.cr)) /\ mode' = "run"
  /\ who' = [job |-> e.job, p |-> e.p, to |-> e.to] /\ nseg' = nseg + 1 /\ UNCHANGED ndrift

RecvEv(e, side) ==
  LET r == AfterReset(st)
      c == Choice(r)
  IN IF st.missX > 0 /\ st.missR > 0 /\ st.batch = <<>> /\ c[1] = "recv" /\ side \in c[2]
     THEN /\ st' = Settle([Received(r, side, e.els, c[3]) EXCEPT !.timedOut = FALSE])
          /\ UNCHANGED <<mode, who, ndrift, nseg>>
     ELSE Drift(e, st)

OutEv(e) ==
  CASE e.k = "X" ->
         IF st.missX = 0 THEN UNCHANGED <<st, mode, who, ndrift, nseg>> ELSE Drift(e, st)
    [] e.k = "FR" ->
         IF st.missX > 0 /\ st.missR = 0
         THEN st' = Settle([st EXCEPT !.missR = st.n]) /\ UNCHANGED <<mode, who, ndrift, nseg>>
         ELSE Drift(e, st)
    [] e.k = "B" ->
         LET r == AfterReset(st) IN
         IF st.missX > 0 /\ st.missR > 0 /\ st.batch = <<>> /\ Choice(r)[1] = "recv" /\ who.to /\ ~st.timedOut
         THEN st' = [r EXCEPT !.timedOut = TRUE] /\ UNCHANGED <<mode, who, ndrift, nseg>>
         ELSE Drift(e, st)
    [] OTHER ->
         IF st.missX > 0 /\ st.missR > 0 /\ st.batch # <<>> /\ Head(st.batch) = El(e.k, e.v)
         THEN st' = Settle([st EXCEPT !.batch = Tail(@)]) /\ UNCHANGED <<mode, who, ndrift, nseg>>
         ELSE Drift(e, st)

EndEv(e) ==
  IF e.ok /\ st.missX # 0 THEN Drift(e, st)
  ELSE mode' = "idle" /\ UNCHANGED <<st, who, ndrift, nseg>>

Step ==
  /\ l <= Len(Rec)
  /\ l' = l + 1
  /\ LET e == Rec[l] IN
       CASE e.ev = "begin" -> Begin(e)
         [] mode # "run"   -> UNCHANGED <<st, mode, who, ndrift, nseg>>
         [] e.ev = "rl"    -> RecvEv(e, "L")
         [] e.ev = "rr"    -> RecvEv(e, "R")
         [] e.ev = "o"     -> OutEv(e)
         [] e.ev = "done"  -> EndEv(e)
         [] OTHER          -> UNCHANGED <<st, mode, who, ndrift, nseg>>

Spec == TInit /\ [][Step]_vars
Final == l <= Len(Rec) \/ PrintT(<<"CONSUMED", Len(Rec), "VIOLATIONS", 0>>)
Consumed == TLCGet("stats").diameter - 1 = Len(Rec)
=============================================================================
