------------------------------ MODULE Boundary ------------------------------
(***************************************************************************)
(* Trace specification for the operator-boundary part of C05 (control      *)
(* protocol) and C06 (watermark safety).  Every output of every operator   *)
(* of every traced job passes a probe (the harness wraps each operator in  *)
(* a type-erased operator that logs what it returns); the monitors of      *)
(* Elem.tla are run on the element sequence of every (probe, replica).     *)
(*                                                                         *)
(*   job   {id}            reset                                           *)
(*   probe {p, k, ts}      probe p (= "node@replica") returned an element  *)
(*   done  {id, ok}        end of job; ok = no worker panicked             *)
(***************************************************************************)
EXTENDS Naturals, Integers, Sequences, Json, IOUtils, TLC, FiniteSets, Elem

Rec == ndJsonDeserialize(IOEnv.TRACE)

VARIABLES l, g, w, job, nviol
vars == <<l, g, w, job, nviol>>

Put(f, k, v) == [x \in (DOMAIN f) \cup {k} |-> IF x = k THEN v ELSE f[x]]
EmptyF == [x \in {} |-> 0]

Viol(prop, kind, p, extra) ==
  PrintT(<<"VIOL", ToJson([prop |-> prop, kind |-> kind, job |-> job, index |-> l,
                           probe |-> p, extra |-> extra])>>)

Init == l = 1 /\ g = EmptyF /\ w = EmptyF /\ job = "" /\ nviol = 0

Probe(e) ==
  LET el  == [k |-> e.k, v |-> 0, ts |-> e.ts]
      g0  == IF e.p \in DOMAIN g THEN g[e.p] ELSE GInit
      w0  == IF e.p \in DOMAIN w THEN w[e.p] ELSE WInit
      g1  == GStep(g0, el)
      gbad == g1 = "bad" /\ g0 # "bad"
      wbad == ~WOk(w0, el)
  IN /\ (IF gbad THEN Viol("C05", "grammar", e.p, [state |-> g0, el |-> e.k]) ELSE TRUE)
     /\ (IF wbad THEN Viol("C06", IF e.k = "W" THEN "watermark_not_increasing" ELSE "late_element",
                           e.p, [last_watermark |-> w0, ts |-> e.ts, el |-> e.k])
         ELSE TRUE)
     /\ g' = Put(g, e.p, g1)
     /\ w' = Put(w, e.p, WStep(w0, el))
     /\ nviol' = nviol + (IF gbad THEN 1 ELSE 0) + (IF wbad THEN 1 ELSE 0)
     /\ UNCHANGED job

(* at the end of a job that did not crash every boundary has seen Terminate *)
Incomplete == {p \in DOMAIN g : g[p] \notin {"done", "bad"}}
Done(e) ==
  LET bad == e.ok /\ Incomplete # {} IN
  /\ (IF bad THEN Viol("C05", "grammar_incomplete", "", [probes |-> SetToSeq(Incomplete),
                       states |-> [p \in Incomplete |-> g[p]]])
      ELSE TRUE)
  /\ nviol' = IF bad THEN nviol + 1 ELSE nviol
  /\ UNCHANGED <<g, w, job>>

Job(e) == g' = EmptyF /\ w' = EmptyF /\ job' = e.id /\ UNCHANGED nviol

Step ==
  /\ l <= Len(Rec)
  /\ l' = l + 1
  /\ LET e == Rec[l] IN
       CASE e.ev = "probe" -> Probe(e)
         [] e.ev = "done"  -> Done(e)
         [] e.ev = "job"   -> Job(e)
         [] OTHER          -> UNCHANGED <<g, w, job, nviol>>

Spec == Init /\ [][Step]_vars
Final == l <= Len(Rec) \/ PrintT(<<"CONSUMED", Len(Rec), "VIOLATIONS", nviol>>)
Consumed == TLCGet("stats").diameter - 1 = Len(Rec)
=============================================================================
