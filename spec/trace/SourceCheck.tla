---------------------------- MODULE SourceCheck ----------------------------
(***************************************************************************)
(* R for C15: the cases enumerated by comp/FileSplit, CsvSplit, RangeSplit *)
(* (every small file x every replica count, every small range x every      *)
(* number of peers, instantiated for the ten integer types and near their  *)
(* limits) were run on the REAL sources by harness-src (`vhs run`): real   *)
(* jobs on RuntimeConfig::local(n) with every element tagged by the        *)
(* replica that produced it, and direct calls of                           *)
(* IntoParallelSource::generate_iterator.  One record per case:            *)
(*   file    {id, kind, bytes, runs:[{n, out, setups, panic, msg}], exp?}  *)
(*   csv     the same + header                                             *)
(*   iter | channel {id, kind, items, runs:[{n, out, setups, panic, msg}]} *)
(*   range   {id, kind, ty, mode, lo, hi, enc, span,                       *)
(*            runs:[{n, subs, vals, setups, panic, msg, tag}], exp?}       *)
(* The predicates of comp/SourceProps.tla are evaluated on the REAL        *)
(* outputs.  `exp` (when present) is what the implementation-shaped model  *)
(* produced for the same input; a difference that violates no predicate is *)
(* printed as INFO (conformance drift).  A panic of the code under test is *)
(* a violation kind, and nothing else is judged on a run that panicked.    *)
(***************************************************************************)
EXTENDS Naturals, Integers, Sequences, Json, IOUtils, TLC, FiniteSets, SourceProps

Rec == ndJsonDeserialize(IOEnv.TRACE)
VARIABLES l, nviol
vars == <<l, nviol>>

Init == l = 1 /\ nviol = 0

Has(e, f) == f \in DOMAIN e

(* elements of a modelled sub-range *)
Expand(iv) == IF Len(iv) = 2 /\ iv[1] < iv[2] THEN [k \in 1..(iv[2] - iv[1]) |-> iv[1] + k - 1] ELSE <<>>

(* kinds violated by run r of case e *)
RunKinds(e, r) ==
  CASE e.kind = "file" ->
         IF r.panic = 1 THEN {"source_panic"} ELSE FileKinds(e.bytes, r.out)
    [] e.kind = "csv" ->
         IF r.panic = 1 THEN {"source_panic"} ELSE CsvKinds(e.bytes, e.header, r.out)
    [] e.kind \in {"iter", "channel"} ->
         IF r.panic = 1 THEN {"source_panic"} ELSE SeqKinds(e.items, r.out, r.setups)
    [] e.kind = "range" ->
         IF r.panic = 1 THEN {"range_panic"}
         ELSE IF e.mode = "job" THEN RangeKindsSeq(e.lo, e.hi, r.vals)
         ELSE RangeKindsIv(e.lo, e.hi, r.subs)
    [] OTHER -> {"unknown_case_kind"}

(* what the real code produced, in the shape of the model's expectation *)
RealOf(e, r) == IF e.kind = "range" THEN (IF e.mode = "job" THEN r.vals ELSE r.subs) ELSE r.out
ModelOf(e, r) ==
  IF e.kind = "range" /\ e.mode = "job"
  THEN [g \in DOMAIN e.exp[r.n] |-> Expand(e.exp[r.n][g])]
  ELSE e.exp[r.n]

Viol(e, r, kind) ==
  PrintT(<<"VIOL", ToJson([prop |-> "C15", kind |-> kind, job |-> e.id, index |-> l,
                           src |-> e.kind, n |-> r.n,
                           cls |-> IF e.kind = "range" THEN RangeClass(e.lo, e.hi) ELSE "",
                           ty |-> IF e.kind = "range" THEN e.ty ELSE "",
                           tag |-> IF e.kind = "range" THEN r.tag ELSE "",
                           extra |-> [input |-> [f \in DOMAIN e \ {"runs", "exp"} |-> e[f]], run |-> r]])>>)

Run(e, r) ==
  LET kinds == RunKinds(e, r)
      drift == kinds = {} /\ Has(e, "exp") /\ r.n \in DOMAIN e.exp /\ RealOf(e, r) # ModelOf(e, r)
      ambig == kinds = {} /\ e.kind = "csv" /\ r.panic = 0 /\ e.header /\ HeaderAmbiguous(e.bytes)
               /\ CsvKindsRecord(e.bytes, r.out) # {}
      repl  == e.kind \in {"file", "csv", "range"} /\ r.panic = 0 /\ r.setups # <<>>
               /\ (Len(r.setups) # r.n \/ \E i \in DOMAIN r.setups : r.setups[i][2] # r.n)
  IN /\ \A kind \in kinds : Viol(e, r, kind)
     /\ (IF drift THEN PrintT(<<"INFO", ToJson([drift |-> e.id, n |-> r.n, real |-> RealOf(e, r),
                                                 model |-> ModelOf(e, r)])>>) ELSE TRUE)
     /\ (IF ambig THEN PrintT(<<"INFO", ToJson([note |-> "csv_header_is_first_line_even_if_empty",
                                                 id |-> e.id, n |-> r.n])>>) ELSE TRUE)
     /\ (IF repl THEN PrintT(<<"INFO", ToJson([note |-> "replica_count_differs_from_parallelism",
                                                id |-> e.id, n |-> r.n, setups |-> r.setups])>>) ELSE TRUE)

NKinds(e) ==
  LET cnt[i \in 0..Len(e.runs)] == IF i = 0 THEN 0 ELSE cnt[i - 1] + Cardinality(RunKinds(e, e.runs[i]))
  IN cnt[Len(e.runs)]

Case(e) == /\ \A i \in DOMAIN e.runs : Run(e, e.runs[i])
           /\ nviol' = nviol + NKinds(e)

Step ==
  /\ l <= Len(Rec)
  /\ l' = l + 1
  /\ LET e == Rec[l] IN
       CASE e.ev = "case" -> Case(e)
         [] OTHER         -> UNCHANGED nviol

Spec == Init /\ [][Step]_vars
Final == l <= Len(Rec) \/ PrintT(<<"CONSUMED", Len(Rec), "VIOLATIONS", nviol>>)
Consumed == TLCGet("stats").diameter - 1 = Len(Rec)
=============================================================================
