------------------------------ MODULE SideTrace ------------------------------
(***************************************************************************)
(* Trace specification for C11 on real loop jobs (T binding of             *)
(* comp/SideInput.tla).  For the block in which a loop body combines the   *)
(* loop stream with a stream from outside the loop, the hooks give per     *)
(* replica p of that block:                                                *)
(*   side {p, v}     a data element of the OUTSIDE stream was received     *)
(*                   from the network (it is read only once)               *)
(*   out  {p, k, v}  what the block's Start handed to its operators:       *)
(*                   k = "S" side item (v), "L" loop item, "SE" end of     *)
(*                   side marker, "LE" end of loop side, "FR", "X"         *)
(*   job {id} / done {id, ok}                                              *)
(* C11: every round presents the side input completely and exactly once    *)
(* (the bag of side items of every closed round equals the bag received    *)
(* from the network), identically in every round, with one end-of-side     *)
(* marker per round, nothing but Terminate after the last round, and       *)
(* Terminate exactly once.                                                 *)
(***************************************************************************)
EXTENDS Naturals, Integers, Sequences, Json, IOUtils, TLC, FiniteSets

Rec == ndJsonDeserialize(IOEnv.TRACE)
VARIABLES l, job, recvd, cur, nse, rounds, term, nviol
vars == <<l, job, recvd, cur, nse, rounds, term, nviol>>

EmptyF == [x \in {} |-> <<>>]
Get(f, k, d) == IF k \in DOMAIN f THEN f[k] ELSE d
Put(f, k, v) == [x \in (DOMAIN f) \cup {k} |-> IF x = k THEN v ELSE f[x]]
Range(s) == {s[i] : i \in DOMAIN s}
BagOf(s) == [x \in Range(s) |-> Cardinality({i \in DOMAIN s : s[i] = x})]

Init == l = 1 /\ job = "" /\ recvd = EmptyF /\ cur = EmptyF /\ nse = EmptyF /\ rounds = EmptyF
        /\ term = EmptyF /\ nviol = 0

V(kind, p, extra) == PrintT(<<"VIOL", ToJson([prop |-> "C11", kind |-> kind, job |-> job, index |-> l,
                                              probe |-> p, extra |-> extra])>>)
Chk(ok, kind, p, extra) == IF ok THEN TRUE ELSE V(kind, p, extra)
N(b) == IF b THEN 0 ELSE 1

Out(e) ==
  LET p == e.p
      c == Get(cur, p, <<>>)
      done == Get(term, p, 0) > 0
  IN
  CASE e.k = "S" ->
         /\ Chk(~done, "side_after_terminate", p, [v |-> e.v])
         /\ cur' = Put(cur, p, Append(c, e.v)) /\ nviol' = nviol + N(~done)
         /\ UNCHANGED <<nse, rounds, term>>
    [] e.k = "SE" ->
         /\ nse' = Put(nse, p, Get(nse, p, 0) + 1) /\ UNCHANGED <<cur, rounds, term, nviol>>
    [] e.k = "FR" ->
         (* a round closes: complete, exactly once, one end-of-side marker *)
         LET okBag == BagOf(c) = BagOf(Get(recvd, p, <<>>))
             okEnd == Get(nse, p, 0) = 1
         IN /\ Chk(okBag, IF \E x \in Range(c) : BagOf(c)[x] > Get(BagOf(Get(recvd, p, <<>>)), x, 0)
                          THEN "side_duplicated" ELSE "side_incomplete", p,
                   [round |-> Get(rounds, p, 0) + 1, seen |-> c, received |-> Get(recvd, p, <<>>)])
            /\ Chk(okEnd, "side_end_marker", p, [round |-> Get(rounds, p, 0) + 1, markers |-> Get(nse, p, 0)])
            /\ cur' = Put(cur, p, <<>>) /\ nse' = Put(nse, p, 0)
            /\ rounds' = Put(rounds, p, Get(rounds, p, 0) + 1)
            /\ nviol' = nviol + N(okBag) + N(okEnd) /\ UNCHANGED term
    [] e.k = "X" ->
         (* Terminate: once, and nothing of the side input may be pending in an unclosed round *)
         LET ok == ~done /\ c = <<>> /\ Get(nse, p, 0) = 0 IN
         /\ Chk(ok, IF done THEN "side_terminate_count" ELSE "side_after_last_round", p,
                [pending |-> c, markers |-> Get(nse, p, 0)])
         /\ term' = Put(term, p, Get(term, p, 0) + 1) /\ nviol' = nviol + N(ok)
         /\ UNCHANGED <<cur, nse, rounds>>
    [] OTHER -> UNCHANGED <<cur, nse, rounds, term, nviol>>

Step ==
  /\ l <= Len(Rec)
  /\ l' = l + 1
  /\ LET e == Rec[l] IN
     CASE e.ev = "job" -> /\ job' = e.id /\ recvd' = EmptyF /\ cur' = EmptyF /\ nse' = EmptyF /\ rounds' = EmptyF
                          /\ term' = EmptyF /\ UNCHANGED nviol
       [] e.ev = "side" -> recvd' = Put(recvd, e.p, Append(Get(recvd, e.p, <<>>), e.v))
                           /\ UNCHANGED <<job, cur, nse, rounds, term, nviol>>
       [] e.ev = "out" -> Out(e) /\ UNCHANGED <<job, recvd>>
       [] e.ev = "done" ->
            LET bad == {p \in DOMAIN rounds : e.ok /\ Get(term, p, 0) # 1} IN
            /\ \A p \in bad : V("side_terminate_count", p, [terminates |-> Get(term, p, 0)])
            /\ nviol' = nviol + Cardinality(bad) /\ UNCHANGED <<job, recvd, cur, nse, rounds, term>>
       [] OTHER -> UNCHANGED <<job, recvd, cur, nse, rounds, term, nviol>>

Spec == Init /\ [][Step]_vars
Final == l <= Len(Rec) \/ PrintT(<<"CONSUMED", Len(Rec), "VIOLATIONS", nviol>>)
Consumed == TLCGet("stats").diameter - 1 = Len(Rec)
=============================================================================
