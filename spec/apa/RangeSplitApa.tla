--------------------------- MODULE RangeSplitApa ---------------------------
(***************************************************************************)
(* comp/RangeSplit.tla for Apalache (symbolic integers, so the REAL limits *)
(* of the 64-bit types can be used; TLC's integers are 32-bit).  Same two  *)
(* bodies, same arithmetic; multiplication and division by the number of   *)
(* peers are written as case splits over 1..6 so that everything stays     *)
(* linear.  One step (--length=0): the invariant is checked on EVERY       *)
(* initial state, i.e. for all lo, hi within the type with at most         *)
(* MAXELEMS (2^62) elements - reversed ranges of any span included - and   *)
(* all peers 1..6.  FIX_REVERSED / FIX_CLAMP_START select the arithmetic   *)
(* after / before the fixes 09da878 / 663b135 as in comp/RangeSplit.tla:   *)
(* the CInit* of the current code must give NoError, CInitI64Old and       *)
(* CInitI32OldClamp (regression documentation) must give Error.  usize is  *)
(* checked up to i64::MAX only (open finding F1-usize).                    *)
(***************************************************************************)
EXTENDS Integers

CONSTANTS
  \* @type: Str;
  BODY,
  \* @type: Int;
  TMIN,
  \* @type: Int;
  TMAX,
  \* @type: Int;
  CMIN,
  \* @type: Int;
  CMAX,
  \* @type: Int;
  MAXELEMS,
  \* @type: Bool;
  FIX_REVERSED,
  \* @type: Bool;
  FIX_CLAMP_START

VARIABLES
  \* @type: Int;
  lo,
  \* @type: Int;
  hi,
  \* @type: Int;
  peers,
  \* @type: Int;
  chunk,        \* chunk_size (a variable, not a definition: Apalache inlines definitions)
  \* @type: Int -> Int;
  s,            \* s[i], e[i]: the sub-range of index i
  \* @type: Int -> Int;
  e

Fixed == FIX_REVERSED = TRUE /\ FIX_CLAMP_START = TRUE
I64MIN == -9223372036854775808
I64MAX == 9223372036854775807
P62 == 4611686018427387904

CInitI64 == BODY = "B" /\ TMIN = I64MIN /\ TMAX = I64MAX /\ CMIN = I64MIN /\ CMAX = I64MAX /\ MAXELEMS = P62 /\ Fixed
CInitU64 == BODY = "A" /\ TMIN = 0 /\ TMAX = 18446744073709551615 /\ CMIN = 0 /\ CMAX = 18446744073709551615 /\ MAXELEMS = P62 /\ Fixed
CInitUsize == BODY = "B" /\ TMIN = 0 /\ TMAX = I64MAX /\ CMIN = I64MIN /\ CMAX = I64MAX /\ MAXELEMS = P62 /\ Fixed
CInitI32 == BODY = "B" /\ TMIN = -2147483648 /\ TMAX = 2147483647 /\ CMIN = I64MIN /\ CMAX = I64MAX /\ MAXELEMS = P62 /\ Fixed
CInitU32 == BODY = "B" /\ TMIN = 0 /\ TMAX = 4294967295 /\ CMIN = I64MIN /\ CMAX = I64MAX /\ MAXELEMS = P62 /\ Fixed

CInitI64Old == BODY = "B" /\ TMIN = I64MIN /\ TMAX = I64MAX /\ CMIN = I64MIN /\ CMAX = I64MAX /\ MAXELEMS = P62
               /\ FIX_REVERSED = FALSE /\ FIX_CLAMP_START = TRUE
CInitI32OldClamp == BODY = "B" /\ TMIN = -2147483648 /\ TMAX = 2147483647 /\ CMIN = I64MIN /\ CMAX = I64MAX
                    /\ MAXELEMS = P62 /\ FIX_REVERSED = TRUE /\ FIX_CLAMP_START = FALSE

Max2(a, b) == IF a >= b THEN a ELSE b
Min2(a, b) == IF a <= b THEN a ELSE b
SatAdd(a, b) == IF a + b > CMAX THEN CMAX ELSE IF a + b < CMIN THEN CMIN ELSE a + b
(* x * p and x \div p for p in 1..6, x >= 0 *)
Mul(x, p) == IF p = 1 THEN x ELSE IF p = 2 THEN 2 * x ELSE IF p = 3 THEN 3 * x
             ELSE IF p = 4 THEN 4 * x ELSE IF p = 5 THEN 5 * x ELSE IF p = 6 THEN 6 * x ELSE 0
Div(x, p) == IF p = 1 THEN x ELSE IF p = 2 THEN x \div 2 ELSE IF p = 3 THEN x \div 3
             ELSE IF p = 4 THEN x \div 4 ELSE IF p = 5 THEN x \div 5 ELSE x \div 6

(* Rust's `/` truncates towards zero (matters for reversed ranges only: InitAll) *)
TruncDiv(x, p) == IF x >= 0 THEN Div(x, p) ELSE 0 - Div(0 - x, p)
Idx == 0..5
Prod(i) == IF chunk >= 0 THEN Mul(chunk, i) ELSE 0 - Mul(0 - chunk, i)
(* a call panics: overflow of index * chunk, the plain subtraction of the old code, or (body B) *)
(* a result outside the value type                                                               *)
Panics(i) == Prod(i) > CMAX \/ Prod(i) < CMIN
             \/ (~FIX_REVERSED /\ (hi - lo > CMAX \/ hi - lo < CMIN))
             \/ (BODY = "B" /\ (s[i] < TMIN \/ s[i] > TMAX \/ e[i] < TMIN \/ e[i] > TMAX))

Act(i) == i < peers
NonEmpty(i) == Act(i) /\ s[i] < e[i]
In(c, i) == NonEmpty(i) /\ s[i] <= c /\ c < e[i]

Clamp(v) == IF v > CMAX THEN CMAX ELSE IF v < CMIN THEN CMIN ELSE v
N == IF FIX_REVERSED THEN Max2(Clamp(hi - lo), 0) ELSE hi - lo
Raw(i) == SatAdd(lo, Prod(i))
Compute == /\ chunk = TruncDiv(SatAdd(N, peers - 1), peers)
           /\ s = [i \in Idx |-> IF BODY = "B" /\ FIX_CLAMP_START THEN Min2(Raw(i), Max2(hi, lo)) ELSE Raw(i)]
           /\ e = [i \in Idx |-> Max2(Min2(SatAdd(s[i], chunk), hi), lo)]

Init == /\ lo \in Int /\ hi \in Int /\ peers \in 1..6
        /\ TMIN <= lo /\ lo <= TMAX /\ TMIN <= hi /\ hi <= TMAX
        /\ hi - lo <= MAXELEMS
        /\ Compute
Next == UNCHANGED <<lo, hi, peers, chunk, s, e>>

NoPanic == \A i \in Idx : Act(i) => ~Panics(i)
NoOverlap == \A i \in Idx : \A j \in Idx :
               (i # j /\ NonEmpty(i) /\ NonEmpty(j)) => ~(Max2(s[i], s[j]) < Min2(e[i], e[j]))
Covered(c) == (lo <= c /\ c < hi) => \E i \in Idx : In(c, i)
NoGap == Covered(lo) /\ \A i \in Idx : NonEmpty(i) => Covered(e[i])
NoExtra == \A i \in Idx : NonEmpty(i) => (lo <= s[i] /\ e[i] <= hi)
EmptyYieldsNothing == lo >= hi => \A i \in Idx : ~NonEmpty(i)

C15_Range == NoPanic /\ NoOverlap /\ NoGap /\ NoExtra /\ EmptyYieldsNothing
=============================================================================
