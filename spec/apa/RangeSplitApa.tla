--------------------------- MODULE RangeSplitApa ---------------------------
(***************************************************************************)
(* comp/RangeSplit.tla for Apalache (symbolic integers, so the REAL limits *)
(* of the 64-bit types can be used; TLC's integers are 32-bit).  Same two  *)
(* bodies, same arithmetic; multiplication and division by the number of   *)
(* peers are written as case splits over 1..6 so that everything stays     *)
(* linear.  One step (--length=0): the invariant is checked on EVERY       *)
(* initial state, i.e. for all lo, hi within the type with at most         *)
(* MAXELEMS (2^62) elements and all peers 1..6.  The three input classes   *)
(* of the known deviations (reversed, chunk start beyond TMAX, usize above *)
(* i64::MAX) are excluded exactly as in the main TLC configs.              *)
(***************************************************************************)
EXTENDS Integers

CONSTANTS
  \* @type: Str;
  BODY,
  \* @type: Int;
  TMIN,
  \* @type: Int;
  TMAX,
  \* @type: Int;
  CMIN,
  \* @type: Int;
  CMAX,
  \* @type: Int;
  MAXELEMS

VARIABLES
  \* @type: Int;
  lo,
  \* @type: Int;
  hi,
  \* @type: Int;
  peers

I64MIN == -9223372036854775808
I64MAX == 9223372036854775807
P62 == 4611686018427387904

CInitI64 == BODY = "B" /\ TMIN = I64MIN /\ TMAX = I64MAX /\ CMIN = I64MIN /\ CMAX = I64MAX /\ MAXELEMS = P62
CInitU64 == BODY = "A" /\ TMIN = 0 /\ TMAX = 18446744073709551615 /\ CMIN = 0 /\ CMAX = 18446744073709551615 /\ MAXELEMS = P62
CInitUsize == BODY = "B" /\ TMIN = 0 /\ TMAX = I64MAX /\ CMIN = I64MIN /\ CMAX = I64MAX /\ MAXELEMS = P62
CInitI32 == BODY = "B" /\ TMIN = -2147483648 /\ TMAX = 2147483647 /\ CMIN = I64MIN /\ CMAX = I64MAX /\ MAXELEMS = P62
CInitU32 == BODY = "B" /\ TMIN = 0 /\ TMAX = 4294967295 /\ CMIN = I64MIN /\ CMAX = I64MAX /\ MAXELEMS = P62

Max2(a, b) == IF a >= b THEN a ELSE b
Min2(a, b) == IF a <= b THEN a ELSE b
SatAdd(a, b) == IF a + b > CMAX THEN CMAX ELSE IF a + b < CMIN THEN CMIN ELSE a + b
(* x * p and x \div p for p in 1..6, x >= 0 *)
Mul(x, p) == IF p = 1 THEN x ELSE IF p = 2 THEN 2 * x ELSE IF p = 3 THEN 3 * x
             ELSE IF p = 4 THEN 4 * x ELSE IF p = 5 THEN 5 * x ELSE IF p = 6 THEN 6 * x ELSE 0
Div(x, p) == IF p = 1 THEN x ELSE IF p = 2 THEN x \div 2 ELSE IF p = 3 THEN x \div 3
             ELSE IF p = 4 THEN x \div 4 ELSE IF p = 5 THEN x \div 5 ELSE x \div 6

(* Rust's `/` truncates towards zero (matters for reversed ranges only: InitAll) *)
TruncDiv(x, p) == IF x >= 0 THEN Div(x, p) ELSE 0 - Div(0 - x, p)
Chunk == TruncDiv(SatAdd(hi - lo, peers - 1), peers)
Prod(i) == IF Chunk >= 0 THEN Mul(Chunk, i) ELSE 0 - Mul(0 - Chunk, i)
S(i) == SatAdd(lo, Prod(i))
E(i) == Max2(Min2(SatAdd(S(i), Chunk), hi), lo)
(* a call panics: overflow of index * chunk, or (body B) a result outside the value type *)
Panics(i) == Prod(i) > CMAX \/ Prod(i) < CMIN \/ (BODY = "A" /\ hi < lo) \/ (BODY = "B" /\ (S(i) < TMIN \/ S(i) > TMAX \/ E(i) < TMIN \/ E(i) > TMAX))

Idx == 0..5
Act(i) == i < peers
NonEmpty(i) == Act(i) /\ S(i) < E(i)
In(c, i) == NonEmpty(i) /\ S(i) <= c /\ c < E(i)

NearMax == lo < hi /\ lo + Mul(Div(hi - lo + peers - 1, peers), peers - 1) > TMAX

Init == /\ lo \in Int /\ hi \in Int /\ peers \in 1..6
        /\ TMIN <= lo /\ lo <= TMAX /\ TMIN <= hi /\ hi <= TMAX
        /\ lo <= hi                    \* reversed ranges: finding F1
        /\ hi - lo <= MAXELEMS
        /\ ~NearMax                    \* finding F11 (never true when T = C)
(* without the carve-out for reversed ranges: Apalache must report the F1 counterexample *)
InitAll == /\ lo \in Int /\ hi \in Int /\ peers \in 1..6
           /\ TMIN <= lo /\ lo <= TMAX /\ TMIN <= hi /\ hi <= TMAX
           /\ hi - lo <= MAXELEMS /\ lo - hi <= MAXELEMS
           /\ ~NearMax
Next == UNCHANGED <<lo, hi, peers>>

NoPanic == \A i \in Idx : Act(i) => ~Panics(i)
NoOverlap == \A i \in Idx : \A j \in Idx : (i # j /\ NonEmpty(i) /\ NonEmpty(j)) => ~(Max2(S(i), S(j)) < Min2(E(i), E(j)))
Covered(c) == (lo <= c /\ c < hi) => \E i \in Idx : In(c, i)
NoGap == Covered(lo) /\ \A i \in Idx : NonEmpty(i) => Covered(E(i))
NoExtra == \A i \in Idx : NonEmpty(i) => (lo <= S(i) /\ E(i) <= hi)
EmptyYieldsNothing == lo >= hi => \A i \in Idx : ~NonEmpty(i)

C15_Range == NoPanic /\ NoOverlap /\ NoGap /\ NoExtra /\ EmptyYieldsNothing
=============================================================================
