----------------------------- MODULE FrontierApa -----------------------------
(***************************************************************************)
(* The watermark frontier of comp/StartCore.tla (FrontierOf, UpdateW: the   *)
(* transcription of WatermarkFrontier::compute_frontier / update) for      *)
(* Apalache: timestamps are unbounded integers (TLC explores 1..TMAX), the *)
(* number of upstream replicas is 3.  IndInv is shown inductive:           *)
(*   apalache-mc check --init=Init    --inv=IndInv --length=0              *)
(*   apalache-mc check --init=IndInit --inv=IndInv --length=1              *)
(* and IndInv implies the two facts C06 needs from the frontier: the value *)
(* handed downstream never exceeds the latest watermark of ANY upstream    *)
(* replica (so, by the per-replica contract, nothing that arrives later is *)
(* late), and the emitted watermarks strictly increase.                    *)
(* Steps: a replica sends a watermark above its previous one, or ends its  *)
(* iteration (update with MAX, return value dropped as in Start::next).    *)
(***************************************************************************)
EXTENDS Integers

S == {1, 2, 3}
NOTS == -1
TSMAX == 9223372036854775807

VARIABLES
  \* @type: Int -> Int;
  w,          \* watermark_frontier.map: latest watermark per replica, NOTS = none
  \* @type: Int;
  f,          \* watermark_frontier.front
  \* @type: Int;
  lastEmit,   \* last watermark handed downstream in this iteration, NOTS = none
  \* @type: Bool;
  mono        \* every emission so far was above the previous one

\* @type: (Int -> Int) => Int;
FrontierOf(ww) ==
  IF \E p \in S : ww[p] = NOTS THEN NOTS
  ELSE CHOOSE m \in {ww[p] : p \in S} : \A q \in S : m <= ww[q]

Init == w = [p \in S |-> NOTS] /\ f = NOTS /\ lastEmit = NOTS /\ mono = TRUE

(* WatermarkFrontier::update(p, t) followed by what Start::next does with the result *)
\* @type: (Int, Int, Bool) => Bool;
Update(p, t, forward) ==
  IF w[p] # NOTS /\ w[p] >= t
  THEN UNCHANGED <<w, f, lastEmit, mono>>
  ELSE LET w2 == [w EXCEPT ![p] = t]
           f2 == FrontierOf(w2)
           emit == f2 # NOTS /\ f2 # f
       IN /\ w' = w2 /\ f' = f2
          /\ lastEmit' = IF emit /\ forward THEN f2 ELSE lastEmit
          /\ mono' = (mono /\ (emit /\ forward => f2 > lastEmit))

SendWm == \E p \in S : \E t \in Int : t >= 0 /\ t < TSMAX /\ Update(p, t, TRUE)
EndIter == \E p \in S : Update(p, TSMAX, FALSE)
Next == SendWm \/ EndIter

TypeOK == /\ w \in [S -> Int] /\ f \in Int /\ lastEmit \in Int /\ mono \in BOOLEAN
          /\ \A p \in S : w[p] = NOTS \/ (w[p] >= 0 /\ w[p] <= TSMAX)
          /\ (f = NOTS \/ (f >= 0 /\ f <= TSMAX)) /\ (lastEmit = NOTS \/ (lastEmit >= 0 /\ lastEmit <= TSMAX))

(* the frontier is defined exactly when every replica reported, and then it is the minimum *)
FrontIsMin == /\ (f = NOTS <=> \E p \in S : w[p] = NOTS)
              /\ (f # NOTS => (\A p \in S : f <= w[p]) /\ (\E p \in S : f = w[p]))
(* what went downstream is never above the frontier (F6: it may lag behind it) *)
EmitBelowFront == lastEmit # NOTS => (f # NOTS /\ lastEmit <= f)
IndInv == TypeOK /\ FrontIsMin /\ EmitBelowFront /\ mono
IndInit == IndInv

(* C06 at the block input: nothing handed downstream exceeds any replica's latest watermark *)
Safe == lastEmit # NOTS => \A p \in S : lastEmit <= w[p]
=============================================================================
