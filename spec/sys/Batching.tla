------------------------------ MODULE Batching ------------------------------
(***************************************************************************)
(* Adaptive batching with explicit time (src/block/batcher.rs,             *)
(* Start::next's receive timeout in start/mod.rs, ChannelSource):          *)
(* a streaming source feeds a chain of DEPTH+1 blocks; block i hands its   *)
(* output to a Batcher (Adaptive(N, D): flush when N elements are buffered *)
(* or when more than D ticks passed since the last flush) in front of a    *)
(* channel; the Start of block i+1 waits for a batch for at most D ticks   *)
(* (recv_timeout(max_delay)); when the wait times out it emits FlushBatch, *)
(* which makes the End of its block flush its batchers, and then blocks    *)
(* WITHOUT timeout (already_timed_out) until the next batch arrives.       *)
(* ChannelSource emits FlushBatch itself when no element is ready.         *)
(*                                                                         *)
(* Time is discrete; actions that the code performs without waiting are    *)
(* urgent: Tick is enabled only when none of them is.                      *)
(*   Feed         the user hands the next element to the channel source    *)
(*   SourceStep   the source block forwards an element / its idle flush    *)
(*   Recv(i)      Start of block i takes a batch and processes it          *)
(*   Timeout(i)   the receive timeout of block i fires: FlushBatch         *)
(*   Tick         one time unit passes                                     *)
(* C18: an element handed to the source at time t has reached the sink by  *)
(* t + DEPTH * D, even if no further input ever arrives.                   *)
(***************************************************************************)
EXTENDS Naturals, Sequences, FiniteSets, TLC

CONSTANTS DEPTH,  \* number of block boundaries (links)
          N,      \* batch size of Adaptive(N, D)
          D,      \* maximum delay in ticks
          K,      \* elements fed
          TMAX,   \* time horizon
          FIXTO,  \* TRUE: as coded; FALSE: variant where a timed-out Start never re-arms its timeout
          BLIND   \* blocks whose Start receives WITHOUT a timeout ({} as coded; seeded/C18b: a two-input
                  \* block whose left input has ended keeps receiving from the right one with recv(None))

Links == 1..DEPTH          \* link i connects block i-1 to block i; block 0 is the source block
NOTIME == 1000

VARIABLES now, nextId, fedAt, srcq, buf, lastSend, ch, deadline, timedOut, arrivedAt
vars == <<now, nextId, fedAt, srcq, buf, lastSend, ch, deadline, timedOut, arrivedAt>>

Init ==
  /\ now = 0 /\ nextId = 1 /\ fedAt = [x \in 1..K |-> NOTIME] /\ arrivedAt = [x \in 1..K |-> NOTIME]
  /\ srcq = <<>>
  /\ buf = [i \in Links |-> <<>>] /\ lastSend = [i \in Links |-> 0]
  /\ ch = [i \in Links |-> <<>>]
  /\ deadline = [i \in Links |-> IF i \in BLIND THEN NOTIME ELSE D]   \* the first recv_timeout starts at time 0
  /\ timedOut = [i \in Links |-> FALSE]

(* Batcher::enqueue on link i: buffer, flush on size or on elapsed time; returns [buf, ch, last] *)
Enq(i, b, c, last, x) ==
  LET b2 == Append(b, x) IN
  IF Len(b2) >= N \/ now - last > D
  THEN [buf |-> <<>>, ch |-> Append(c, b2), last |-> now]
  ELSE [buf |-> b2, ch |-> c, last |-> last]
(* Batcher::flush *)
Flush(i, b, c, last) ==
  IF b = <<>> THEN [buf |-> b, ch |-> c, last |-> last] ELSE [buf |-> <<>>, ch |-> Append(c, b), last |-> now]

Feed ==
  /\ nextId <= K
  /\ srcq' = Append(srcq, nextId) /\ fedAt' = [fedAt EXCEPT ![nextId] = now] /\ nextId' = nextId + 1
  /\ UNCHANGED <<now, buf, lastSend, ch, deadline, timedOut, arrivedAt>>

(* the source block: forward the next element, or (nothing ready) the idle FlushBatch *)
SourceStep ==
  \/ /\ srcq # <<>>
     /\ LET r == Enq(1, buf[1], ch[1], lastSend[1], Head(srcq)) IN
        /\ buf' = [buf EXCEPT ![1] = r.buf] /\ ch' = [ch EXCEPT ![1] = r.ch]
        /\ lastSend' = [lastSend EXCEPT ![1] = r.last]
     /\ srcq' = Tail(srcq)
     /\ UNCHANGED <<now, nextId, fedAt, deadline, timedOut, arrivedAt>>
  \/ /\ srcq = <<>> /\ buf[1] # <<>>
     /\ LET r == Flush(1, buf[1], ch[1], lastSend[1]) IN
        /\ buf' = [buf EXCEPT ![1] = r.buf] /\ ch' = [ch EXCEPT ![1] = r.ch]
        /\ lastSend' = [lastSend EXCEPT ![1] = r.last]
     /\ UNCHANGED <<now, nextId, fedAt, srcq, deadline, timedOut, arrivedAt>>

(* block i (1..DEPTH) receives a batch from link i and pushes every element into link i+1, or, *)
(* for the last block, into the sink                                                           *)
RECURSIVE EnqAll(_, _, _, _, _, _)
EnqAll(i, b, c, last, xs, k) ==
  IF k > Len(xs) THEN [buf |-> b, ch |-> c, last |-> last]
  ELSE LET r == Enq(i, b, c, last, xs[k]) IN EnqAll(i, r.buf, r.ch, r.last, xs, k + 1)

Recv(i) ==
  /\ ch[i] # <<>>
  /\ LET batch == Head(ch[i]) IN
     IF i = DEPTH THEN
       /\ arrivedAt' = [x \in 1..K |-> IF \E j \in DOMAIN batch : batch[j] = x THEN now ELSE arrivedAt[x]]
       /\ ch' = [ch EXCEPT ![i] = Tail(@)]
       /\ UNCHANGED <<buf, lastSend>>
     ELSE
       LET r == EnqAll(i + 1, buf[i + 1], ch[i + 1], lastSend[i + 1], batch, 1) IN
       /\ buf' = [buf EXCEPT ![i + 1] = r.buf]
       /\ ch' = [ch EXCEPT ![i] = Tail(@), ![i + 1] = r.ch]
       /\ lastSend' = [lastSend EXCEPT ![i + 1] = r.last]
       /\ UNCHANGED arrivedAt
  (* back in next(): the next wait is a recv_timeout(D) again (already_timed_out was reset) *)
  /\ timedOut' = [timedOut EXCEPT ![i] = FALSE]
  /\ deadline' = [deadline EXCEPT ![i] = IF i \notin BLIND /\ (FIXTO \/ ~timedOut[i]) THEN now + D ELSE NOTIME]
  /\ UNCHANGED <<now, nextId, fedAt, srcq>>

(* the receive timeout of block i fires: FlushBatch travels down its chain, End flushes *)
Timeout(i) ==
  /\ ch[i] = <<>> /\ ~timedOut[i] /\ now >= deadline[i]
  /\ timedOut' = [timedOut EXCEPT ![i] = TRUE]
  /\ deadline' = [deadline EXCEPT ![i] = NOTIME]
  /\ IF i < DEPTH THEN
       LET r == Flush(i + 1, buf[i + 1], ch[i + 1], lastSend[i + 1]) IN
       /\ buf' = [buf EXCEPT ![i + 1] = r.buf] /\ ch' = [ch EXCEPT ![i + 1] = r.ch]
       /\ lastSend' = [lastSend EXCEPT ![i + 1] = r.last]
     ELSE UNCHANGED <<buf, ch, lastSend>>
  /\ UNCHANGED <<now, nextId, fedAt, srcq, arrivedAt>>

Urgent == \/ srcq # <<>> \/ buf[1] # <<>>
          \/ \E i \in Links : ch[i] # <<>>
          \/ \E i \in Links : ch[i] = <<>> /\ ~timedOut[i] /\ now >= deadline[i]
Tick == /\ ~Urgent /\ now < TMAX /\ now' = now + 1
        /\ UNCHANGED <<nextId, fedAt, srcq, buf, lastSend, ch, deadline, timedOut, arrivedAt>>

Next == Feed \/ SourceStep \/ (\E i \in Links : Recv(i) \/ Timeout(i)) \/ Tick
Spec == Init /\ [][Next]_vars

(* C18: bounded delay, whatever happens afterwards (also if nothing is ever fed again) *)
BoundedDelay ==
  \A x \in 1..K : (fedAt[x] # NOTIME /\ now > fedAt[x] + DEPTH * D) => arrivedAt[x] # NOTIME /\ arrivedAt[x] <= fedAt[x] + DEPTH * D
(* nothing is delivered twice or out of thin air *)
ArrivedWasFed == \A x \in 1..K : arrivedAt[x] # NOTIME => fedAt[x] # NOTIME /\ fedAt[x] <= arrivedAt[x]
=============================================================================
