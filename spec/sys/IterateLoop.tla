----------------------------- MODULE IterateLoop -----------------------------
(***************************************************************************)
(* The data cycle of `iterate` (src/operator/iteration/iterate.rs): the    *)
(* head (`Iterate`) pushes the content of the round into the body through  *)
(* a bounded channel; what the body produces comes back to the head        *)
(* through another bounded channel (the feedback).  One replica each;      *)
(* every message carries one element (BatchMode::single / Fixed(1)).       *)
(*                                                                         *)
(*   HeadNext    Iterate::next: FIRST drain the feedback channel into the  *)
(*               private buffer (try_recv loop), then return the next      *)
(*               element of the round; End::next sends it (blocking)       *)
(*   HeadSend    the blocked send of the head completes                    *)
(*   HeadWait    the round's content is out: blocking receives on the      *)
(*               feedback until the round's FlushAndRestart came back      *)
(*   BodyRecv    the body block takes one element and produces AMP outputs *)
(*   BodySend    the body's End sends one output to the feedback (blocking)*)
(* DRAIN = "always" is the code; "input_only" is the seeded regression     *)
(* seeded/C04 (drain only while the outside input is still open).          *)
(*                                                                         *)
(* C04: the cycle never deadlocks.  With AMP = 1 and DRAIN = "always" the  *)
(* head empties the feedback before every element it pushes, so the body   *)
(* can always finish its send.  With an amplifying body (AMP >= 2) the     *)
(* head can block in its send while the body blocks in its own: finding F9.*)
(***************************************************************************)
EXTENDS Naturals, Sequences, TLC

CONSTANTS NITEMS,  \* elements of the outside input
          ROUNDS,  \* rounds
          CAP,     \* capacity of both channels (16 batches in the code)
          AMP,     \* outputs of the body per input element
          DRAIN    \* "always" | "input_only"

VARIABLES round, todo, hpend, toBody, toHead, fb, bout, gotR, done
vars == <<round, todo, hpend, toBody, toHead, fb, bout, gotR, done>>

D == "d"
R == "R"
Rep(n) == [i \in 1..n |-> D]

Init ==
  /\ round = 1
  /\ todo = Rep(NITEMS) \o <<R>>   \* what the head still has to return in this round
  /\ hpend = <<>>                  \* element the head's End is blocked sending
  /\ toBody = <<>> /\ toHead = <<>>
  /\ fb = <<>>                     \* feedback_content
  /\ bout = <<>>                   \* outputs the body still has to send
  /\ gotR = FALSE                  \* the round's FlushAndRestart came back
  /\ done = FALSE

Drained(f, ch) == f \o ch

(* Iterate::next returns the next element of the round *)
HeadNext ==
  /\ ~done /\ hpend = <<>> /\ todo # <<>>
  /\ LET drain == DRAIN = "always" \/ round = 1      \* in round 1 the outside input is still open
         f2 == IF drain THEN fb \o toHead ELSE fb
         ch2 == IF drain THEN <<>> ELSE toHead
     IN /\ fb' = f2 /\ toHead' = ch2
        /\ gotR' = (gotR \/ (drain /\ \E i \in DOMAIN toHead : toHead[i] = R))
  /\ IF Len(toBody) < CAP
     THEN toBody' = Append(toBody, Head(todo)) /\ hpend' = <<>>
     ELSE hpend' = <<Head(todo)>> /\ UNCHANGED toBody
  /\ todo' = Tail(todo)
  /\ UNCHANGED <<round, bout, done>>

HeadSend ==
  /\ hpend # <<>> /\ Len(toBody) < CAP
  /\ toBody' = Append(toBody, hpend[1]) /\ hpend' = <<>>
  /\ UNCHANGED <<round, todo, toHead, fb, bout, gotR, done>>

(* everything of the round was returned: wait (blocking recv) for the rest of the feedback *)
HeadWait ==
  /\ ~done /\ hpend = <<>> /\ todo = <<>>
  /\ IF gotR
     THEN (* swap: the feedback is the content of the next round *)
          /\ IF round < ROUNDS
             THEN /\ round' = round + 1 /\ todo' = fb /\ fb' = <<>> /\ gotR' = FALSE /\ UNCHANGED done
             ELSE /\ done' = TRUE /\ UNCHANGED <<round, todo, fb, gotR>>
          /\ UNCHANGED toHead
     ELSE /\ toHead # <<>>
          /\ fb' = Append(fb, Head(toHead)) /\ toHead' = Tail(toHead)
          /\ gotR' = (Head(toHead) = R)
          /\ UNCHANGED <<round, todo, done>>
  /\ UNCHANGED <<hpend, toBody, bout>>

BodyRecv ==
  /\ bout = <<>> /\ toBody # <<>>
  /\ bout' = IF Head(toBody) = R THEN <<R>> ELSE Rep(AMP)
  /\ toBody' = Tail(toBody)
  /\ UNCHANGED <<round, todo, hpend, toHead, fb, gotR, done>>

BodySend ==
  /\ bout # <<>> /\ Len(toHead) < CAP
  /\ toHead' = Append(toHead, Head(bout)) /\ bout' = Tail(bout)
  /\ UNCHANGED <<round, todo, hpend, toBody, fb, gotR, done>>

Finished == done /\ UNCHANGED vars
Next == HeadNext \/ HeadSend \/ HeadWait \/ BodyRecv \/ BodySend \/ Finished
Spec == Init /\ [][Next]_vars
FairSpec == Spec /\ WF_vars(Next)

(* C04 *)
NoDeadlock == done \/ ENABLED (HeadNext \/ HeadSend \/ HeadWait \/ BodyRecv \/ BodySend)
Terminates == <>done
=============================================================================
