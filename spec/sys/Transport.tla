------------------------------ MODULE Transport ------------------------------
(***************************************************************************)
(* The remote path of a link (src/network/sync/{multiplexer,demultiplexer, *)
(* remote}.rs, network_channel.rs): on every sending host ONE multiplexer  *)
(* per (consumer block on a host, producer block) serialises the messages  *)
(* of all the local producer replicas, whatever their endpoint, onto ONE   *)
(* TCP connection; on the receiving host one demultiplexer thread per      *)
(* connection reads (endpoint, message) frames and forwards each to the    *)
(* endpoint's bounded channel with a BLOCKING send (head-of-line blocking: *)
(* a full endpoint stalls everything behind it on that connection).        *)
(*                                                                         *)
(*   Produce(p)     NetworkSender::send into the mux channel (cap MC)      *)
(*   MuxWrite(h)    mux thread: channel -> TCP stream                      *)
(*   DemuxRead(h)   demux thread: TCP stream -> the frame in its hands     *)
(*   DemuxFwd(h)    demux thread: blocking send into the endpoint channel  *)
(*   Consume(e)     NetworkReceiver::recv at endpoint e                    *)
(* C02: for every producer p and endpoint e the sequence received at e     *)
(* from p is a prefix of the sequence p sent to e (in order, no loss, no   *)
(* duplicate, no alteration, never at another endpoint), and is all of it  *)
(* at quiescence.  C04: consumers that keep receiving always drain it.     *)
(***************************************************************************)
EXTENDS Naturals, Sequences, FiniteSets, TLC, SequencesExt

CONSTANTS SENDHOSTS,  \* number of sending hosts (connections into the demultiplexer)
          NP,         \* producer replicas per sending host
          NE,         \* endpoints (consumer replicas) on the receiving host
          K,          \* messages per producer
          MC,         \* capacity of the mux channel (MUX_CHANNEL_CAPACITY = 10 in the code)
          CAP         \* capacity of an endpoint channel (CHANNEL_CAPACITY = 16 in the code)

Hs == 1..SENDHOSTS
Ps == Hs \X (1..NP)
Es == 1..NE
Msg(p, e, n) == [from |-> p, to |-> e, n |-> n]

VARIABLES nsent, sent, muxq, tcp, hand, epq, recvd
vars == <<nsent, sent, muxq, tcp, hand, epq, recvd>>

Init ==
  /\ nsent = [p \in Ps |-> 0]
  /\ sent = [p \in Ps |-> [e \in Es |-> <<>>]]
  /\ muxq = [h \in Hs |-> <<>>] /\ tcp = [h \in Hs |-> <<>>]
  /\ hand = [h \in Hs |-> <<>>]            \* at most one frame
  /\ epq = [e \in Es |-> <<>>]
  /\ recvd = [e \in Es |-> <<>>]

Produce(p) ==
  /\ nsent[p] < K /\ Len(muxq[p[1]]) < MC
  /\ \E e \in Es :
       LET m == Msg(p, e, nsent[p] + 1) IN
       /\ muxq' = [muxq EXCEPT ![p[1]] = Append(@, m)]
       /\ sent' = [sent EXCEPT ![p][e] = Append(@, m)]
  /\ nsent' = [nsent EXCEPT ![p] = @ + 1]
  /\ UNCHANGED <<tcp, hand, epq, recvd>>

MuxWrite(h) ==
  /\ muxq[h] # <<>>
  /\ tcp' = [tcp EXCEPT ![h] = Append(@, Head(muxq[h]))]
  /\ muxq' = [muxq EXCEPT ![h] = Tail(@)]
  /\ UNCHANGED <<nsent, sent, hand, epq, recvd>>

DemuxRead(h) ==
  /\ hand[h] = <<>> /\ tcp[h] # <<>>
  /\ hand' = [hand EXCEPT ![h] = <<Head(tcp[h])>>]
  /\ tcp' = [tcp EXCEPT ![h] = Tail(@)]
  /\ UNCHANGED <<nsent, sent, muxq, epq, recvd>>

DemuxFwd(h) ==
  /\ hand[h] # <<>>
  /\ LET m == hand[h][1] IN
     /\ Len(epq[m.to]) < CAP
     /\ epq' = [epq EXCEPT ![m.to] = Append(@, m)]
  /\ hand' = [hand EXCEPT ![h] = <<>>]
  /\ UNCHANGED <<nsent, sent, muxq, tcp, recvd>>

Consume(e) ==
  /\ epq[e] # <<>>
  /\ recvd' = [recvd EXCEPT ![e] = Append(@, Head(epq[e]))]
  /\ epq' = [epq EXCEPT ![e] = Tail(@)]
  /\ UNCHANGED <<nsent, sent, muxq, tcp, hand>>

Quiescent == /\ \A p \in Ps : nsent[p] = K
             /\ \A h \in Hs : muxq[h] = <<>> /\ tcp[h] = <<>> /\ hand[h] = <<>>
             /\ \A e \in Es : epq[e] = <<>>
Finished == Quiescent /\ UNCHANGED vars

Next == (\E p \in Ps : Produce(p)) \/ (\E h \in Hs : MuxWrite(h) \/ DemuxRead(h) \/ DemuxFwd(h))
        \/ (\E e \in Es : Consume(e)) \/ Finished
Spec == Init /\ [][Next]_vars
FairSpec == Spec /\ WF_vars(Next)

From(s, p) == SelectSeq(s, LAMBDA m : m.from = p)
(* C02 *)
PrefixOK == \A p \in Ps, e \in Es : IsPrefix(From(recvd[e], p), sent[p][e])
RightEndpoint == \A e \in Es : \A i \in DOMAIN recvd[e] : recvd[e][i].to = e
Complete == Quiescent => \A p \in Ps, e \in Es : From(recvd[e], p) = sent[p][e]
(* C04 *)
Drains == <>Quiescent
=============================================================================
