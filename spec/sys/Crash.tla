-------------------------------- MODULE Crash --------------------------------
(***************************************************************************)
(* Fail-stop (C20) on top of sys/Runtime.tla: a user function panics in    *)
(* one replica at any point; the worker thread unwinds and drops its       *)
(* channel handles (src/worker.rs, flume channel semantics):               *)
(*   Crash(r)    the injected panic: r is about to run its operator on an  *)
(*               element (enabled in every state where r could pull)       *)
(*   SendDead(r) NetworkSender::send to an endpoint whose replica is gone  *)
(*               returns Disconnected and the sender unwraps: r dies       *)
(*   Starve(r)   receive on an endpoint whose producers are all gone (dead *)
(*               or finished) with an empty channel, while r still expects *)
(*               markers from them: "Network receiver failed", r dies      *)
(* Checked: no sink that the failed replica can reach publishes a result,  *)
(* partial or complete; every replica eventually stops (done or dead): no  *)
(* worker blocks forever.                                                  *)
(***************************************************************************)
EXTENDS Runtime

VARIABLES alive, injected
cvars == <<vars, alive, injected>>

CInit == Init /\ alive = [r \in Replicas |-> TRUE] /\ injected = <<>>

Stopped(r) == ~alive[r] \/ (stage[r] = "done" /\ outbox[r] = <<>>)

(* normal steps of live replicas; a send to a dead consumer kills the sender instead *)
TargetAlive(r) == IF outbox[r] = <<>> THEN TRUE ELSE alive[Head(outbox[r]).ep[1]]
Work(r) ==
  /\ alive[r]
  /\ \/ SourcePull(r) \/ Pull(r)
     \/ (TargetAlive(r) /\ Send(r))
  /\ UNCHANGED <<alive, injected>>

Die(r) == alive' = [alive EXCEPT ![r] = FALSE] /\ UNCHANGED vars

Crash(r) ==
  /\ injected = <<>> /\ alive[r] /\ stage[r] # "done" /\ outbox[r] = <<>> /\ Kind[r[1]] # "sink"
  /\ injected' = <<r>> /\ Die(r)

SendDead(r) ==
  /\ alive[r] /\ outbox[r] # <<>> /\ ~TargetAlive(r)
  /\ Die(r) /\ UNCHANGED injected

Starve(r) ==
  /\ alive[r] /\ Kind[r[1]] # "source" /\ stage[r] # "done" /\ outbox[r] = <<>> /\ cur[r].els = <<>>
  /\ ~AllX(r) /\ ~AllR(r)
  /\ \A ep \in {x \in Endpoints : x[1] = r} : chan[ep] = <<>>
  /\ \E ep \in {x \in Endpoints : x[1] = r} :
       /\ missX[r][ep[2]] > 0
       /\ \A p \in ProducersOf(ep) : Stopped(p)
  /\ Die(r) /\ UNCHANGED injected

AllStopped == \A r \in Replicas : Stopped(r)
CFinished == AllStopped /\ UNCHANGED cvars

CNext == (\E r \in Replicas : Work(r) \/ Crash(r) \/ SendDead(r) \/ Starve(r)) \/ CFinished
CSpec == CInit /\ [][CNext]_cvars
CFairSpec == CSpec /\ \A r \in Replicas : WF_cvars(Work(r) \/ SendDead(r) \/ Starve(r))

---------------------------------------------------------------------------
(* blocks reachable from b (b included) *)
RECURSIVE ReachB(_)
ReachB(S) == LET n == S \cup {e.to : e \in {x \in Edges : x.from \in S}} IN IF n = S THEN S ELSE ReachB(n)
Downstream(r) == ReachB({r[1]})

(* C20: no sink fed (transitively) by the failed replica's block publishes anything *)
NoResultAfterCrash ==
  injected # <<>> =>
    \A s \in Replicas : (Kind[s[1]] = "sink" /\ s[1] \in Downstream(injected[1])) => result[s].published = 0
(* C20: every other worker unwinds instead of blocking for ever (with or without a crash) *)
EveryoneStops == <>AllStopped
(* without a crash nothing dies *)
NoSpuriousDeath == injected = <<>> => \A r \in Replicas : alive[r]
=============================================================================
