----------------------------- MODULE IterateLoop2 -----------------------------
(***************************************************************************)
(* The data cycle of `iterate` with NREP replicas and a SHUFFLE inside the *)
(* body: head i pushes every element of its content to SOME body replica;  *)
(* body replica j sends what it produces (AMP = 1: one output per input)   *)
(* forward to head j.  All channels are bounded (CAP) and every send       *)
(* blocks.  Same actions as sys/IterateLoop.tla, per replica; one round    *)
(* is enough to show the cycle                                             *)
(*     head 1 -> body 2 -> head 2 -> body 1 -> head 1                      *)
(* in which every participant is blocked in a send: the same root cause as *)
(* finding F9 (the head cannot drain its feedback while it is blocked in   *)
(* its own send), reachable WITHOUT an amplifying body when a shuffle can  *)
(* unbalance the load.                                                     *)
(***************************************************************************)
EXTENDS Naturals, Sequences, TLC

CONSTANTS NREP, NITEMS, CAP

Rs == 1..NREP
VARIABLES todo, hpend, toBody, toHead, bout, nfb
vars == <<todo, hpend, toBody, toHead, bout, nfb>>

Init ==
  /\ todo = [i \in Rs |-> NITEMS]          \* elements head i still has to push
  /\ hpend = [i \in Rs |-> 0]              \* 0, or the body replica the blocked send goes to
  /\ toBody = [j \in Rs |-> 0]             \* occupancy of body j's input channel
  /\ toHead = [i \in Rs |-> 0]             \* occupancy of head i's feedback channel
  /\ bout = [j \in Rs |-> 0]               \* outputs body j still has to send
  /\ nfb = [i \in Rs |-> 0]                \* feedback elements head i has taken

(* Iterate::next of head i: drain the feedback, then push one element to some body replica *)
HeadNext(i) ==
  /\ hpend[i] = 0 /\ todo[i] > 0
  /\ nfb' = [nfb EXCEPT ![i] = @ + toHead[i]]
  /\ toHead' = [toHead EXCEPT ![i] = 0]
  /\ todo' = [todo EXCEPT ![i] = @ - 1]
  /\ \E j \in Rs :
       IF toBody[j] < CAP
       THEN toBody' = [toBody EXCEPT ![j] = @ + 1] /\ UNCHANGED hpend
       ELSE hpend' = [hpend EXCEPT ![i] = j] /\ UNCHANGED toBody
  /\ UNCHANGED bout

HeadSend(i) ==
  /\ hpend[i] # 0 /\ toBody[hpend[i]] < CAP
  /\ toBody' = [toBody EXCEPT ![hpend[i]] = @ + 1] /\ hpend' = [hpend EXCEPT ![i] = 0]
  /\ UNCHANGED <<todo, toHead, bout, nfb>>

(* the content is out: blocking receives on the feedback *)
HeadWait(i) ==
  /\ hpend[i] = 0 /\ todo[i] = 0 /\ toHead[i] > 0
  /\ toHead' = [toHead EXCEPT ![i] = @ - 1] /\ nfb' = [nfb EXCEPT ![i] = @ + 1]
  /\ UNCHANGED <<todo, hpend, toBody, bout>>

BodyRecv(j) ==
  /\ bout[j] = 0 /\ toBody[j] > 0
  /\ toBody' = [toBody EXCEPT ![j] = @ - 1] /\ bout' = [bout EXCEPT ![j] = 1]
  /\ UNCHANGED <<todo, hpend, toHead, nfb>>

BodySend(j) ==
  /\ bout[j] > 0 /\ toHead[j] < CAP
  /\ toHead' = [toHead EXCEPT ![j] = @ + 1] /\ bout' = [bout EXCEPT ![j] = @ - 1]
  /\ UNCHANGED <<todo, hpend, toBody, nfb>>

AllBack == \A i \in Rs : todo[i] = 0 /\ hpend[i] = 0 /\ toBody[i] = 0 /\ toHead[i] = 0 /\ bout[i] = 0
Finished == AllBack /\ UNCHANGED vars
Step == \E i \in Rs : HeadNext(i) \/ HeadSend(i) \/ HeadWait(i) \/ BodyRecv(i) \/ BodySend(i)
Next == Step \/ Finished
Spec == Init /\ [][Next]_vars

NoDeadlock == AllBack \/ ENABLED Step
=============================================================================
