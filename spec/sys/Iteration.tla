------------------------------ MODULE Iteration ------------------------------
(***************************************************************************)
(* The loop protocol of renoir (src/operator/iteration/*.rs, replay form): *)
(*                                                                         *)
(*   head replicas (Replay)  --shuffle-->  body replicas (Start with the   *)
(*   state lock, user operators reading the state, local fold,             *)
(*   IterationEnd)  --deltas-->  IterationLeader (one replica)             *)
(*   --(continue?, new state)--> every head replica                        *)
(*                                                                         *)
(* on HOSTS hosts with HEADS head replicas and BODIES body replicas each.  *)
(* Per host there is ONE copy of the loop state (IterationStateHandle, an  *)
(* UnsafeCell) and one IterationStateLock (a generation counter: odd =     *)
(* locked).  Actions, one per critical section of the code:                *)
(*   HeadData(a)   Replay::next returns a stored element (sent to some     *)
(*                 body replica: the shuffle is a free choice)             *)
(*   HeadRestart(a) Replay::next returns FlushAndRestart: state.lock(),    *)
(*                 the marker goes to every body replica                   *)
(*   BodyRecv(b,a) the body's Start takes the next element sent by head a: *)
(*                 FlushAndRestart is counted (the last one ends the round:*)
(*                 generation += 2, wait flag, IterationEnd sends the      *)
(*                 delta); a data element first waits for the generation   *)
(*                 (wait_for_update) if the wait flag is set, then the     *)
(*                 user operators READ THE STATE of the host               *)
(*   LeaderDecide  all deltas of the round arrived: next state, continue?  *)
(*                 broadcast to every head replica                         *)
(*   HeadState(a)  wait_update returns; wait_sync_state: the local leader  *)
(*                 (smallest replica of the host) SETS the host's state    *)
(*   HeadBarrier(a) the barrier of the host's head replicas opens; the     *)
(*                 local leader unlocks (generation becomes even)          *)
(* Data elements carry the round they belong to as a ghost field.  The     *)
(* state after round k is k (S(0) = 0), so "the body evaluates round k     *)
(* against exactly the state of round k-1" is:  read value = round - 1.    *)
(*                                                                         *)
(* WAIT = FALSE removes wait_for_update (the adversarial variant used to   *)
(* derive schedules): TLC then shows a body replica of one host reading    *)
(* the OLD state for an element of the next round that a faster host sent. *)
(***************************************************************************)
EXTENDS Naturals, Integers, Sequences, FiniteSets, TLC

CONSTANTS HOSTS, HEADS, BODIES, ROUNDS, DATA, WAIT

Hs == 1..HOSTS
HeadR == Hs \X (1..HEADS)      \* head replica: <<host, index>>
BodyR == Hs \X (1..BODIES)
HostOf(r) == r[1]
LocalLeader(h) == <<h, 1>>     \* select_leader: the minimum coordinate of the host
D(k) == [k |-> "D", round |-> k]
FR == [k |-> "R", round |-> 0]

VARIABLES
  hpc,        \* head: "emit" | "wait" | "barrier" | "done"
  hround,     \* head: round being emitted (1-based)
  hsent,      \* head: data elements emitted in this round
  hcont,      \* head: the leader's decision received for this round
  q,          \* q[a][b]: FIFO link head a -> body b
  sq,         \* sq[a]: FIFO link leader -> head a (state feedback)
  gen,        \* gen[h]: IterationStateLock generation of host h
  state,      \* state[h]: the host's copy of the loop state
  arrived,    \* arrived[h]: head replicas of h waiting at the barrier
  passed,     \* passed[h]: head replicas that left the barrier in this round
  bmissR,     \* body: missing FlushAndRestart of this round
  bgen,       \* body: state_generation
  bwait,      \* body: wait_for_state
  bround,     \* body: rounds completed (ghost)
  bdata,      \* body: consumed a data element of the round in progress (its operators may hold a
              \* reference to the state)
  deltas,     \* deltas received by the leader for the current round
  lround,     \* leader: rounds completed
  ldone,      \* leader finished
  badRead,    \* set of [body, round, read] where the state read was not S(round-1)
  badSet      \* set of hosts whose state was set while a body replica was inside a round
vars == <<hpc, hround, hsent, hcont, q, sq, gen, state, arrived, passed, bmissR, bgen, bwait, bround, bdata,
          deltas, lround, ldone, badRead, badSet>>

NHeads == HOSTS * HEADS
NBodies == HOSTS * BODIES

Init ==
  /\ hpc = [a \in HeadR |-> "emit"] /\ hround = [a \in HeadR |-> 1] /\ hsent = [a \in HeadR |-> 0]
  /\ hcont = [a \in HeadR |-> TRUE]
  /\ q = [a \in HeadR |-> [b \in BodyR |-> <<>>]]
  /\ sq = [a \in HeadR |-> <<>>]
  /\ gen = [h \in Hs |-> 0] /\ state = [h \in Hs |-> 0]
  /\ arrived = [h \in Hs |-> 0] /\ passed = [h \in Hs |-> 0]
  /\ bmissR = [b \in BodyR |-> NHeads] /\ bgen = [b \in BodyR |-> 0] /\ bwait = [b \in BodyR |-> FALSE]
  /\ bround = [b \in BodyR |-> 0] /\ bdata = [b \in BodyR |-> FALSE]
  /\ deltas = 0 /\ lround = 0 /\ ldone = FALSE
  /\ badRead = {} /\ badSet = {}

(* Replay::next: a stored data element goes to one body replica *)
HeadData(a) ==
  /\ hpc[a] = "emit" /\ hsent[a] < DATA
  /\ \E b \in BodyR : q' = [q EXCEPT ![a][b] = Append(@, D(hround[a]))]
  /\ hsent' = [hsent EXCEPT ![a] = @ + 1]
  /\ UNCHANGED <<hpc, hround, hcont, sq, gen, state, arrived, passed, bmissR, bgen, bwait, bround, bdata,
                 deltas, lround, ldone, badRead, badSet>>

(* Replay::next returns FlushAndRestart: IterationStateLock::lock (idempotent while odd) *)
HeadRestart(a) ==
  /\ hpc[a] = "emit" /\ hsent[a] = DATA
  /\ q' = [q EXCEPT ![a] = [b \in BodyR |-> Append(@[b], FR)]]
  /\ gen' = [gen EXCEPT ![HostOf(a)] = IF @ % 2 = 0 THEN @ + 1 ELSE @]
  /\ hpc' = [hpc EXCEPT ![a] = "wait"]
  /\ UNCHANGED <<hround, hsent, hcont, sq, state, arrived, passed, bmissR, bgen, bwait, bround, bdata,
                 deltas, lround, ldone, badRead, badSet>>

(* the body's Start (with the state lock) consumes the next element of head a *)
BodyRecv(b, a) ==
  /\ q[a][b] # <<>>
  /\ LET e == Head(q[a][b]) IN
     IF e.k = "R" THEN
       /\ q' = [q EXCEPT ![a][b] = Tail(@)]
       /\ IF bmissR[b] = 1 THEN
            (* the round ends here: generation += 2, wait flag, IterationEnd sends the delta *)
            /\ bmissR' = [bmissR EXCEPT ![b] = NHeads]
            /\ bgen' = [bgen EXCEPT ![b] = @ + 2]
            /\ bwait' = [bwait EXCEPT ![b] = TRUE]
            /\ bround' = [bround EXCEPT ![b] = @ + 1]
            /\ bdata' = [bdata EXCEPT ![b] = FALSE]
            /\ deltas' = deltas + 1
          ELSE /\ bmissR' = [bmissR EXCEPT ![b] = @ - 1]
               /\ UNCHANGED <<bgen, bwait, bround, bdata, deltas>>
       /\ UNCHANGED badRead
     ELSE
       (* a data element: wait_for_update(state_generation) if this is the first one after a round *)
       /\ (WAIT /\ bwait[b]) => gen[HostOf(b)] >= bgen[b]
       /\ q' = [q EXCEPT ![a][b] = Tail(@)]
       /\ bwait' = [bwait EXCEPT ![b] = FALSE]
       /\ bdata' = [bdata EXCEPT ![b] = TRUE]
       (* the user operators of the body read the state of the host *)
       /\ badRead' = IF state[HostOf(b)] = e.round - 1 THEN badRead
                     ELSE badRead \cup {[body |-> b, round |-> e.round, read |-> state[HostOf(b)]]}
       /\ UNCHANGED <<bmissR, bgen, bround, deltas>>
  /\ UNCHANGED <<hpc, hround, hsent, hcont, sq, gen, state, arrived, passed, lround, ldone, badSet>>

(* IterationLeader::next: all the deltas of the round are there *)
LeaderDecide ==
  /\ ~ldone /\ deltas = NBodies
  /\ LET r == lround + 1
         cont == r < ROUNDS
     IN /\ lround' = r
        /\ sq' = [a \in HeadR |-> Append(sq[a], [cont |-> cont, state |-> r])]
        /\ ldone' = ~cont
  /\ deltas' = 0
  /\ UNCHANGED <<hpc, hround, hsent, hcont, q, gen, state, arrived, passed, bmissR, bgen, bwait, bround, bdata,
                 badRead, badSet>>

(* wait_update returns; wait_sync_state: the local leader sets the state, everybody goes to the barrier *)
HeadState(a) ==
  /\ hpc[a] = "wait" /\ sq[a] # <<>>
  /\ LET m == Head(sq[a])
         h == HostOf(a)
     IN /\ sq' = [sq EXCEPT ![a] = Tail(@)]
        /\ hcont' = [hcont EXCEPT ![a] = m.cont]
        /\ IF a = LocalLeader(h)
           THEN /\ state' = [state EXCEPT ![h] = m.state]
                (* SAFETY comment of wait_sync_state: no body replica of this host may be inside a round *)
                /\ badSet' = IF \E b \in BodyR : HostOf(b) = h /\ bdata[b] THEN badSet \cup {h} ELSE badSet
           ELSE UNCHANGED <<state, badSet>>
        /\ arrived' = [arrived EXCEPT ![h] = @ + 1]
  /\ hpc' = [hpc EXCEPT ![a] = "barrier"]
  /\ UNCHANGED <<hround, hsent, q, gen, passed, bmissR, bgen, bwait, bround, bdata, deltas, lround, ldone, badRead>>

(* the barrier opens when all the head replicas of the host arrived; the local leader unlocks *)
HeadBarrier(a) ==
  /\ hpc[a] = "barrier"
  /\ LET h == HostOf(a) IN
     /\ arrived[h] = HEADS
     /\ IF a = LocalLeader(h)
        THEN /\ gen[h] % 2 = 1          \* assert_eq!(*lock % 2, 1, "cannot unlock a non-locked lock")
             /\ gen' = [gen EXCEPT ![h] = @ + 1]
        ELSE UNCHANGED gen
     /\ IF passed[h] + 1 = HEADS
        THEN arrived' = [arrived EXCEPT ![h] = 0] /\ passed' = [passed EXCEPT ![h] = 0]
        ELSE passed' = [passed EXCEPT ![h] = @ + 1] /\ UNCHANGED arrived
  /\ IF hcont[a]
     THEN /\ hpc' = [hpc EXCEPT ![a] = "emit"]
          /\ hround' = [hround EXCEPT ![a] = @ + 1] /\ hsent' = [hsent EXCEPT ![a] = 0]
     ELSE /\ hpc' = [hpc EXCEPT ![a] = "done"] /\ UNCHANGED <<hround, hsent>>
  /\ UNCHANGED <<hcont, q, sq, state, bmissR, bgen, bwait, bround, bdata, deltas, lround, ldone, badRead, badSet>>

AllDone == ldone /\ \A a \in HeadR : hpc[a] = "done"
Finished == AllDone /\ UNCHANGED vars

Next == (\E a \in HeadR : HeadData(a) \/ HeadRestart(a) \/ HeadState(a) \/ HeadBarrier(a))
        \/ (\E b \in BodyR, a \in HeadR : BodyRecv(b, a))
        \/ LeaderDecide \/ Finished
Spec == Init /\ [][Next]_vars
FairSpec == Spec /\ WF_vars(Next)

---------------------------------------------------------------------------
(* C10: in round k every replica on every host evaluates the body against exactly S(k-1) *)
StateReadOK == badRead = {}
(* the state of a host is never set while one of its body replicas is inside a round *)
SetStateSafe == badSet = {}
(* the loop runs exactly ROUNDS rounds (condition always true) *)
RoundsOK == lround <= ROUNDS /\ (ldone => lround = ROUNDS) /\ \A a \in HeadR : hround[a] <= ROUNDS
(* every head replica receives exactly one decision per round, all the same *)
LockDiscipline == \A h \in Hs : gen[h] \in 0..(2 * ROUNDS)
(* a barrier of n replicas never sees more than n arrivals *)
BarrierOK == \A h \in Hs : arrived[h] <= HEADS /\ passed[h] < HEADS
(* C04: the loop terminates *)
Terminates == <>AllDone
=============================================================================
