------------------------------- MODULE Runtime -------------------------------
(***************************************************************************)
(* The runtime of renoir at small scope: replicated blocks (chains of      *)
(* pull-based operators) connected by links.  A link is                    *)
(*   producer replica: End (routing) -> Batcher (size BS) -> bounded       *)
(*   channel of the consumer endpoint (CAP batches) -> Start (marker       *)
(*   counting) of the consumer replica.                                    *)
(* All coordination is in-band: data elements, FlushAndRestart ("R") and   *)
(* Terminate ("X") (watermarks: comp/Start.tla; loops: sys/Iteration.tla). *)
(*                                                                         *)
(* A job is given by constants:                                            *)
(*   Blocks        set of block ids (naturals)                             *)
(*   Kind[b]       "source" | "map" | "fold" | "kfold" | "sink" | "merge"  *)
(*   NRep[b]       number of replicas                                      *)
(*   Edges         set of [from, to, strat]; strat \in                     *)
(*                 {"random", "groupby", "forward", "all"}                 *)
(*   Input[b][i]   the data of replica i of source block b (a sequence)    *)
(*   CAP, BS       channel capacity (batches) and batch size               *)
(*   KeyMod        group-by key = value % KeyMod                           *)
(* One action per critical section of the code:                            *)
(*   Pull(r)   a replica pulls one element through its chain:              *)
(*             Start::next (pop from the current batch / take the next     *)
(*             batch from a channel / count markers), the operator, and    *)
(*             End::next (route, Batcher::enqueue, flush at R, end at X).  *)
(*             Batches that must be sent go to the replica's outbox.       *)
(*   Send(r)   NetworkSender::send of the head of the outbox; blocks while *)
(*             the consumer's channel is full (back-pressure).             *)
(* A replica cannot pull while its outbox is not empty (send is blocking). *)
(*                                                                         *)
(* Checked: no deadlock (C04), every sink completes exactly once and its   *)
(* content is the sequential meaning of the job (C01), marker counters     *)
(* never underflow (C05), link FIFO/exactly-once by construction of the    *)
(* channels plus SentRecv (C02).                                           *)
(***************************************************************************)
EXTENDS Naturals, Integers, Sequences, FiniteSets, TLC, SequencesExt, Functions

CONSTANTS Blocks, Kind, NRep, Edges, Input, CAP, BS, KeyMod

Replicas == {<<b, i>> : b \in Blocks, i \in 1..3} \cap {r \in Blocks \X (1..3) : r[2] <= NRep[r[1]]}
RepsOf(b) == {r \in Replicas : r[1] = b}
InEdges(b) == {e \in Edges : e.to = b}
OutEdges(b) == {e \in Edges : e.from = b}
(* an endpoint: consumer replica x producer block *)
Endpoints == {<<r, e.from>> : r \in Replicas, e \in Edges} \cap {x \in Replicas \X Blocks : \E e \in Edges : e.to = x[1][1] /\ e.from = x[2]}

(* producers connected to an endpoint (execution graph: forward = same index or single consumer) *)
Connected(p, c, strat) ==
  IF strat = "forward" THEN (NRep[c[1]] = 1 \/ p[2] = c[2]) ELSE TRUE
ProducersOf(ep) ==
  LET c == ep[1]  fb == ep[2]
      e == CHOOSE x \in Edges : x.from = fb /\ x.to = c[1]
  IN {p \in RepsOf(fb) : Connected(p, c, e.strat)}

R == [k |-> "R", v |-> 0]
X == [k |-> "X", v |-> 0]
D(v) == [k |-> "D", v |-> v]

VARIABLES
  chan,     \* chan[ep]: sequence of batches in the consumer endpoint's channel
  cur,      \* cur[r]: the batch Start is iterating over: [from, els] (els may be <<>>)
  missR,    \* missR[r][fb]: FlushAndRestart still missing from producer block fb
  missX,    \* missX[r][fb]: Terminate still missing
  pos,      \* pos[r]: next input position (sources)
  acc,      \* acc[r]: operator state (fold accumulator / key -> accumulator)
  stage,    \* stage[r]: "run" | "flushed" (source sent R, X next) | "emitR" ... | "done"
  buf,      \* buf[r][dest endpoint]: Batcher buffer
  outbox,   \* outbox[r]: sequence of [ep, batch] waiting to be sent
  sunk,     \* sunk[r]: what a sink replica collected
  result,   \* result[r]: published result of a sink replica (<<>> until completion), published flag
  rr        \* rr[r]: round-robin / random choice is nondeterministic; rr unused placeholder
vars == <<chan, cur, missR, missX, pos, acc, stage, buf, outbox, sunk, result, rr>>

InBlocks(b) == {e.from : e \in InEdges(b)}

Init ==
  /\ chan = [ep \in Endpoints |-> <<>>]
  /\ cur = [r \in Replicas |-> [from |-> <<0, 0>>, els |-> <<>>]]
  /\ missR = [r \in Replicas |-> [fb \in InBlocks(r[1]) |-> Cardinality(ProducersOf(<<r, fb>>))]]
  /\ missX = [r \in Replicas |-> [fb \in InBlocks(r[1]) |-> Cardinality(ProducersOf(<<r, fb>>))]]
  /\ pos = [r \in Replicas |-> 1]
  /\ acc = [r \in Replicas |-> IF Kind[r[1]] = "kfold" THEN [k \in {} |-> 0] ELSE -1]
  /\ stage = [r \in Replicas |-> "run"]
  /\ buf = [r \in Replicas |-> [ep \in {x \in Endpoints : x[2] = r[1] /\ r \in ProducersOf(x)} |-> <<>>]]
  /\ outbox = [r \in Replicas |-> <<>>]
  /\ sunk = [r \in Replicas |-> <<>>]
  /\ result = [r \in Replicas |-> [published |-> 0, content |-> <<>>]]
  /\ rr = 0

---------------------------------------------------------------------------
(* End::next: route element e of replica r; returns the new buffers and the batches to send.   *)
(* Data: one destination per downstream block (per strategy; "random" is a nondeterministic    *)
(* choice made by the caller through `pick`), "all": every connected replica.  Control: every  *)
(* connected endpoint.  FlushAndRestart flushes every batcher; Terminate ends them.            *)
MyDests(r) == DOMAIN buf[r]
DestsOfBlock(r, tb) == {ep \in MyDests(r) : ep[1][1] = tb}

(* the endpoints a data element goes to, given a choice function pick: block -> endpoint *)
TargetsFor(r, e, pick, ed) ==
  LET tb == ed.to
      ds == DestsOfBlock(r, tb)
  IN CASE ed.strat = "all"     -> ds
       [] ed.strat = "groupby" -> {ep \in ds : ep[1][2] = ((e.v % KeyMod) % NRep[tb]) + 1}
       [] ed.strat = "forward" -> ds
       [] ed.strat = "random"  -> {pick[tb]}
DataTargets(r, e, pick) == UNION {TargetsFor(r, e, pick, ed) : ed \in OutEdges(r[1])}

(* enqueue e to the endpoints T; flush full buffers (and all buffers when flushAll) *)
Enqueue(b0, T, e, flushAll) ==
  LET b1 == [ep \in DOMAIN b0 |-> IF ep \in T THEN Append(b0[ep], e) ELSE b0[ep]]
      toSend == {ep \in DOMAIN b1 : b1[ep] # <<>> /\ (Len(b1[ep]) >= BS \/ flushAll)}
  IN [buf |-> [ep \in DOMAIN b1 |-> IF ep \in toSend THEN <<>> ELSE b1[ep]],
      send |-> toSend, batches |-> b1]

(* Emit a sequence of output elements es of replica r through End (data with choice `pick`).    *)
RECURSIVE EmitSeq(_, _, _, _, _, _)
EmitSeq(r, es, i, b0, ob, pick) ==
  IF i > Len(es) THEN [buf |-> b0, outbox |-> ob]
  ELSE LET e == es[i]
           T == IF e.k = "D" THEN DataTargets(r, e, pick) ELSE DOMAIN b0
           q == Enqueue(b0, T, e, e.k \in {"R", "X"})
           order == SetToSeq(q.send)
           newob == ob \o [j \in 1..Len(order) |-> [ep |-> order[j], batch |-> [from |-> r, els |-> q.batches[order[j]]]]]
       IN EmitSeq(r, es, i + 1, q.buf, newob, pick)

Picks(r) == [{e.to : e \in {x \in OutEdges(r[1]) : x.strat = "random"}} ->
               UNION {DestsOfBlock(r, tb) : tb \in {e.to : e \in OutEdges(r[1])}}]
GoodPick(r, pick) == \A tb \in DOMAIN pick : pick[tb] \in DestsOfBlock(r, tb)

---------------------------------------------------------------------------
(* Operators: what a replica does with one input element; returns [acc, out]                    *)
Op(r, e) ==
  LET k == Kind[r[1]] IN
  CASE k = "map"  -> [acc |-> acc[r], out |-> IF e.k = "D" THEN <<D(e.v + 100)>> ELSE <<e>>]
    [] k = "merge" -> [acc |-> acc[r], out |-> <<e>>]
    [] k = "fold" ->
         IF e.k = "D" THEN [acc |-> (IF acc[r] = -1 THEN 0 ELSE acc[r]) + e.v, out |-> <<>>]
         ELSE IF e.k = "R" THEN [acc |-> -1, out |-> (IF acc[r] = -1 THEN <<>> ELSE <<D(acc[r])>>) \o <<R>>]
         ELSE [acc |-> acc[r], out |-> <<e>>]
    [] k = "kfold" ->
         IF e.k = "D" THEN
           LET key == e.v % KeyMod
               old == IF key \in DOMAIN acc[r] THEN acc[r][key] ELSE 0
           IN [acc |-> [x \in (DOMAIN acc[r]) \cup {key} |-> IF x = key THEN old + e.v ELSE acc[r][x]], out |-> <<>>]
         ELSE IF e.k = "R" THEN
           [acc |-> [x \in {} |-> 0],
            out |-> [j \in 1..Cardinality(DOMAIN acc[r]) |-> D(SetToSeq(DOMAIN acc[r])[j] + KeyMod * acc[r][SetToSeq(DOMAIN acc[r])[j]])] \o <<R>>]
         ELSE [acc |-> acc[r], out |-> <<e>>]

---------------------------------------------------------------------------
(* A source replica produces its next element: data, then R, then X.                            *)
SourcePull(r) ==
  /\ Kind[r[1]] = "source" /\ stage[r] # "done" /\ outbox[r] = <<>>
  /\ LET data == Input[r[1]][r[2]]
         e == IF pos[r] <= Len(data) THEN D(data[pos[r]]) ELSE IF stage[r] = "run" THEN R ELSE X
     IN \E pick \in Picks(r) :
          /\ GoodPick(r, pick)
          /\ LET m == EmitSeq(r, <<e>>, 1, buf[r], <<>>, pick) IN
             /\ buf' = [buf EXCEPT ![r] = m.buf]
             /\ outbox' = [outbox EXCEPT ![r] = m.outbox]
          /\ pos' = [pos EXCEPT ![r] = IF e.k = "D" THEN @ + 1 ELSE @]
          /\ stage' = [stage EXCEPT ![r] = IF e.k = "R" THEN "flushed" ELSE IF e.k = "X" THEN "done" ELSE @]
  /\ UNCHANGED <<chan, cur, missR, missX, acc, sunk, result, rr>>

(* Start::next of a non-source replica, one step: either take the next element of the current   *)
(* batch, or receive a batch from one of its endpoints, or emit R / X when the counters say so. *)
(* Returns through the operator and End (or the sink).                                          *)
Process(r, e) ==   \* e is what Start hands to the operators
  IF Kind[r[1]] = "sink" THEN
    /\ sunk' = [sunk EXCEPT ![r] = IF e.k = "D" THEN Append(@, e.v) ELSE @]
    /\ result' = [result EXCEPT ![r] = IF e.k = "X" THEN [published |-> @.published + 1, content |-> sunk[r]] ELSE @]
    /\ stage' = [stage EXCEPT ![r] = IF e.k = "X" THEN "done" ELSE @]
    /\ UNCHANGED <<acc, buf, outbox>>
  ELSE
    LET o == Op(r, e) IN
    \E pick \in Picks(r) :
      /\ GoodPick(r, pick)
      /\ LET m == EmitSeq(r, o.out, 1, buf[r], <<>>, pick) IN
         /\ buf' = [buf EXCEPT ![r] = m.buf]
         /\ outbox' = [outbox EXCEPT ![r] = m.outbox]
      /\ acc' = [acc EXCEPT ![r] = o.acc]
      /\ stage' = [stage EXCEPT ![r] = IF e.k = "X" THEN "done" ELSE @]
      /\ UNCHANGED <<sunk, result>>

AllX(r) == \A fb \in DOMAIN missX[r] : missX[r][fb] = 0
AllR(r) == \A fb \in DOMAIN missR[r] : missR[r][fb] = 0

Pull(r) ==
  /\ Kind[r[1]] # "source" /\ stage[r] # "done" /\ outbox[r] = <<>>
  /\ IF AllX(r) THEN
       (* all the previous blocks sent an end: we're done *)
       /\ Process(r, X)
       /\ UNCHANGED <<chan, cur, missR, missX, pos, rr>>
     ELSE IF AllR(r) THEN
       /\ missR' = [missR EXCEPT ![r] = [fb \in DOMAIN @ |-> Cardinality(ProducersOf(<<r, fb>>))]]
       /\ Process(r, R)
       /\ UNCHANGED <<chan, cur, missX, pos, rr>>
     ELSE IF cur[r].els # <<>> THEN
       LET e == Head(cur[r].els)
           fb == cur[r].from[1]
       IN /\ cur' = [cur EXCEPT ![r].els = Tail(@)]
          /\ IF e.k = "R" THEN
               /\ missR' = [missR EXCEPT ![r][fb] = @ - 1]
               /\ UNCHANGED <<missX, acc, stage, buf, outbox, sunk, result>>
             ELSE IF e.k = "X" THEN
               /\ missX' = [missX EXCEPT ![r][fb] = @ - 1]
               /\ UNCHANGED <<missR, acc, stage, buf, outbox, sunk, result>>
             ELSE /\ Process(r, e) /\ UNCHANGED <<missR, missX>>
          /\ UNCHANGED <<chan, pos, rr>>
     ELSE
       (* receive the next batch: from any non-empty endpoint of this replica (select) *)
       \E ep \in {x \in Endpoints : x[1] = r} :
         /\ chan[ep] # <<>>
         /\ cur' = [cur EXCEPT ![r] = Head(chan[ep])]
         /\ chan' = [chan EXCEPT ![ep] = Tail(@)]
         /\ UNCHANGED <<missR, missX, pos, acc, stage, buf, outbox, sunk, result, rr>>

(* NetworkSender::send: blocks while the bounded channel is full *)
Send(r) ==
  /\ outbox[r] # <<>>
  /\ LET m == Head(outbox[r]) IN
     /\ Len(chan[m.ep]) < CAP
     /\ chan' = [chan EXCEPT ![m.ep] = Append(@, m.batch)]
     /\ outbox' = [outbox EXCEPT ![r] = Tail(@)]
  /\ UNCHANGED <<cur, missR, missX, pos, acc, stage, buf, sunk, result, rr>>

AllDone == \A r \in Replicas : stage[r] = "done" /\ outbox[r] = <<>>
Finished == AllDone /\ UNCHANGED vars

Next == (\E r \in Replicas : SourcePull(r) \/ Pull(r) \/ Send(r)) \/ Finished
Spec == Init /\ [][Next]_vars
FairSpec == Spec /\ \A r \in Replicas : WF_vars(SourcePull(r) \/ Pull(r) \/ Send(r))

---------------------------------------------------------------------------
(* Properties *)
(* C05/C04: marker counters never underflow (a marker is never counted twice or lost) *)
CountersOK == \A r \in Replicas : \A fb \in DOMAIN missR[r] :
                 missR[r][fb] \in 0..Cardinality(ProducersOf(<<r, fb>>)) /\ missX[r][fb] \in 0..Cardinality(ProducersOf(<<r, fb>>))
(* C04: each sink completes exactly once *)
SinkOnce == \A r \in Replicas : Kind[r[1]] = "sink" => result[r].published <= 1
SinksComplete == AllDone => \A r \in Replicas : Kind[r[1]] = "sink" => result[r].published = 1
(* nothing is left anywhere at the end (C02/C18: every buffered element is delivered) *)
Drained == AllDone => /\ \A ep \in Endpoints : chan[ep] = <<>>
                      /\ \A r \in Replicas : \A ep \in DOMAIN buf[r] : buf[r][ep] = <<>>
                      /\ \A r \in Replicas : cur[r].els = <<>>
(* C04 liveness *)
Terminates == <>AllDone

BagOf(s) == [x \in Range(s) |-> Cardinality({i \in DOMAIN s : s[i] = x})]
SinkReps == SetToSeq({x \in Replicas : Kind[x[1]] = "sink"})
SinkBag == BagOf(FlattenSeq([i \in 1..Len(SinkReps) |-> result[SinkReps[i]].content]))
=============================================================================
