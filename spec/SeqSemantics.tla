--------------------------- MODULE SeqSemantics ---------------------------
(***************************************************************************)
(* D: the sequential meaning of renoir's operator algebra.                 *)
(*                                                                         *)
(* A program is a sequence of nodes in SSA form (Appendix C of DESIGN.md). *)
(* Eval(prog) maps every node id to the sequence of values that the node   *)
(* produces when the pipeline is evaluated sequentially over the whole     *)
(* input.  Plain streams are sequences of naturals, keyed streams are      *)
(* sequences of <<key, value>>.  Sinks are compared as bags (as sequences  *)
(* where every producer on the path is sequential).                        *)
(*                                                                         *)
(* User functions are members of a fixed deterministic family over 0..M-1  *)
(* (the same family is implemented in harness/src/fam.rs).                 *)
(***************************************************************************)
EXTENDS Naturals, Integers, Sequences, FiniteSets, SequencesExt, Functions, TLC

M == 1000003

Max2(a, b) == IF a >= b THEN a ELSE b
Min2(a, b) == IF a <= b THEN a ELSE b

FMap(f, v) ==
  CASE f = "inc"    -> (v + 1) % M
    [] f = "mul3p1" -> (3 * v + 1) % M
    [] f = "mod7"   -> v % 7
    [] f = "half"   -> v \div 2
    [] f = "add10"  -> (v + 10) % M
    [] f = "id"     -> v

FFilter(p, v) ==
  CASE p = "odd"  -> v % 2 = 1
    [] p = "even" -> v % 2 = 0
    [] p = "lt50" -> v < 50
    [] p = "ge5"  -> v >= 5
    [] p = "ne3"  -> v # 3
    [] p = "all"  -> TRUE
    [] p = "none" -> FALSE

FFlat(g, v) ==
  CASE g = "dup"       -> <<v, (v + 1) % M>>
    [] g = "drop_even" -> IF v % 2 = 1 THEN <<v>> ELSE <<>>
    [] g = "range3"    -> <<v, (v + 1) % M, (v + 2) % M>>
    [] g = "none"      -> <<>>
    [] g = "one"       -> <<v>>

(* pairs are folded into one value; an absent side (outer joins) is -1 *)
Comb(a, b) == ((a + 1) * 1009 + (b + 1)) % M

AggInit(a) == CASE a = "sum" -> 0 [] a = "max" -> 0 [] a = "min" -> M [] a = "count" -> 0
AggStep(a, acc, v) ==
  CASE a = "sum"   -> (acc + v) % M
    [] a = "max"   -> Max2(acc, v)
    [] a = "min"   -> Min2(acc, v)
    [] a = "count" -> acc + 1
AggMerge(a, x, y) ==
  CASE a = "sum"   -> (x + y) % M
    [] a = "max"   -> Max2(x, y)
    [] a = "min"   -> Min2(x, y)
    [] a = "count" -> x + y

FMapSt(f, v, s) ==
  CASE f = "add_state" -> (v + s) % M
    [] f = "mix_state" -> (v * 3 + s * 7 + 1) % M
    [] f = "id"        -> v

FCond(c, s) ==
  CASE c = "always" -> TRUE
    [] c = "lt1000" -> s < 1000
    [] c = "lt100"  -> s < 100
    [] c = "lt30"   -> s < 30
    [] c = "lt10"   -> s < 10
    [] c = "never"  -> FALSE

---------------------------------------------------------------------------
(* sequence helpers *)
MapSeq(F(_), s) == [i \in 1..Len(s) |-> F(s[i])]
RECURSIVE FlatSeq(_, _)
FlatSeq(ss, i) == IF i > Len(ss) THEN <<>> ELSE ss[i] \o FlatSeq(ss, i + 1)
FlatMapSeq(F(_), s) == FlatSeq(MapSeq(F, s), 1)
RECURSIVE FoldL(_, _, _, _)
FoldL(F(_, _), acc, s, i) == IF i > Len(s) THEN acc ELSE FoldL(F, F(acc, s[i]), s, i + 1)

(* distinct keys of a keyed sequence, in order of first occurrence *)
RECURSIVE KeysOf(_, _, _)
KeysOf(s, i, acc) ==
  IF i > Len(s) THEN acc
  ELSE IF \E j \in 1..Len(acc) : acc[j] = s[i][1] THEN KeysOf(s, i + 1, acc)
  ELSE KeysOf(s, i + 1, Append(acc, s[i][1]))
Keys(s) == KeysOf(s, 1, <<>>)
ValuesOf(s, k) == MapSeq(LAMBDA p : p[2], SelectSeq(s, LAMBDA p : p[1] = k))

(* one result per occurring key: the sequential fold of that key's values *)
KeyedFold(s, a) ==
  MapSeq(LAMBDA k : <<k, FoldL(LAMBDA acc, v : AggStep(a, acc, v), AggInit(a), ValuesOf(s, k), 1)>>,
         Keys(s))
(* reduce has no initial value: first element, then merge *)
ReduceSeq(vs, a) == FoldL(LAMBDA acc, v : AggMerge(a, acc, v), vs[1], Tail(vs), 1)
KeyedReduce(s, a) == MapSeq(LAMBDA k : <<k, ReduceSeq(ValuesOf(s, k), a)>>, Keys(s))
(* running aggregate per key (keyed rich_map) *)
RECURSIVE KRich(_, _, _, _)
KRich(s, a, i, accs) ==
  IF i > Len(s) THEN <<>>
  ELSE LET k == s[i][1]
           cur == IF k \in DOMAIN accs THEN accs[k] ELSE AggInit(a)
           nxt == AggStep(a, cur, s[i][2])
       IN <<<<k, nxt>>>> \o KRich(s, a, i + 1, [x \in (DOMAIN accs) \cup {k} |-> IF x = k THEN nxt ELSE accs[x]])

(* distinct elements, first occurrence order *)
RECURSIVE Dedup(_, _, _)
Dedup(s, i, acc) ==
  IF i > Len(s) THEN acc
  ELSE IF \E j \in 1..Len(acc) : acc[j] = s[i] THEN Dedup(s, i + 1, acc) ELSE Dedup(s, i + 1, Append(acc, s[i]))
(* running aggregate of a sequential stream (rich_map) *)
RECURSIVE Running(_, _, _, _)
Running(s, a, i, acc) ==
  IF i > Len(s) THEN <<>> ELSE <<AggStep(a, acc, s[i])>> \o Running(s, a, i + 1, AggStep(a, acc, s[i]))

GlobalFold(s, a) == IF s = <<>> THEN <<>>
                    ELSE <<FoldL(LAMBDA acc, v : AggStep(a, acc, v), AggInit(a), s, 1)>>
GlobalReduce(s, a) == IF s = <<>> THEN <<>> ELSE <<ReduceSeq(s, a)>>

(* window aggregations over one group (a non-empty sequence of values) *)
WinAgg(a, grp) ==
  CASE a = "sum"    -> FoldL(LAMBDA acc, v : (acc + v) % M, 0, grp, 1)
    [] a = "count"  -> Len(grp)
    [] a = "max"    -> FoldL(Max2, grp[1], grp, 1)
    [] a = "min"    -> FoldL(Min2, grp[1], grp, 1)
    [] a = "first"  -> grp[1]
    [] a = "last"   -> grp[Len(grp)]
    [] a = "digest" -> FoldL(LAMBDA acc, v : (acc * 31 + v + 1) % M, 7, grp, 1)

(* Count windows of one key's arrival sequence vs: the groups [jS, jS+N),  *)
(* complete ones in order; in non-exact mode also the oldest incomplete    *)
(* non-empty one at the end of the iteration.                              *)
CountGroups(vs, N, S, exact) ==
  LET len   == Len(vs)
      nfull == IF len < N THEN 0 ELSE ((len - N) \div S) + 1
      full  == [j \in 1..nfull |-> SubSeq(vs, (j - 1) * S + 1, (j - 1) * S + N)]
      start == nfull * S     \* 0-based start of the oldest incomplete group
  IN IF exact \/ start >= len THEN full
     ELSE Append(full, SubSeq(vs, start + 1, len))

CountWindow(s, N, S, exact, a) ==
  FlatMapSeq(LAMBDA k : MapSeq(LAMBDA grp : <<k, WinAgg(a, grp)>>,
                               CountGroups(ValuesOf(s, k), N, S, exact)),
             Keys(s))

(* relational joins on (l % ml) = (r % mr) *)
JoinInner(L, R, ml, mr) ==
  FlatMapSeq(LAMBDA x : MapSeq(LAMBDA y : Comb(x, y), SelectSeq(R, LAMBDA y : y % mr = x % ml)), L)
JoinLeftPad(L, R, ml, mr) ==
  MapSeq(LAMBDA x : Comb(x, -1), SelectSeq(L, LAMBDA x : \A j \in 1..Len(R) : R[j] % mr # x % ml))
JoinRightPad(L, R, ml, mr) ==
  MapSeq(LAMBDA y : Comb(-1, y), SelectSeq(R, LAMBDA y : \A j \in 1..Len(L) : L[j] % ml # y % mr))
Join(L, R, ml, mr, variant) ==
  CASE variant = "inner" -> JoinInner(L, R, ml, mr)
    [] variant = "left"  -> JoinInner(L, R, ml, mr) \o JoinLeftPad(L, R, ml, mr)
    [] variant = "outer" -> JoinInner(L, R, ml, mr) \o JoinLeftPad(L, R, ml, mr) \o JoinRightPad(L, R, ml, mr)

(* join of two keyed streams on the key *)
KJoinInner(L, R) ==
  FlatMapSeq(LAMBDA x : MapSeq(LAMBDA y : <<x[1], Comb(x[2], y[2])>>, SelectSeq(R, LAMBDA y : y[1] = x[1])), L)
KJoinOuter(L, R) ==
  KJoinInner(L, R)
  \o MapSeq(LAMBDA x : <<x[1], Comb(x[2], -1)>>, SelectSeq(L, LAMBDA x : \A j \in 1..Len(R) : R[j][1] # x[1]))
  \o MapSeq(LAMBDA y : <<y[1], Comb(-1, y[2])>>, SelectSeq(R, LAMBDA y : \A j \in 1..Len(L) : L[j][1] # y[1]))

ZipComb(A, B) == [i \in 1..Min2(Len(A), Len(B)) |-> Comb(A[i], B[i])]

(* route: first matching predicate wins *)
RouteBranch(s, preds, i) ==
  SelectSeq(s, LAMBDA v : FFilter(preds[i], v) /\ \A j \in 1..(i - 1) : ~FFilter(preds[j], v))

---------------------------------------------------------------------------
Has(n, f) == f \in DOMAIN n
Put(env, k, v) == [x \in (DOMAIN env) \cup {k} |-> IF x = k THEN v ELSE env[x]]
PutAll(env, ks, F(_)) == [x \in (DOMAIN env) \cup ks |-> IF x \in ks THEN F(x) ELSE env[x]]

RangeSeq(lo, hi) == IF hi <= lo THEN <<>> ELSE [i \in 1..(hi - lo) |-> lo + i - 1]

(* data items of a source script (all replicas, first iteration semantics: scripts used in *)
(* D-checked programs have one iteration)                                                   *)
ScriptData(scripts) ==
  FlatSeq(MapSeq(LAMBDA sc : MapSeq(LAMBDA e : e.v, SelectSeq(sc, LAMBDA e : e.k \in {"I", "T"})), scripts), 1)

BranchId(id, i) == id \o "." \o ToString(i - 1)

(***************************************************************************)
(* Loops.  The state after a round is the global fold of the local folds   *)
(* of the body's output; the local fold starts from the default delta (0)  *)
(* on every replica, so for the associative-commutative families with      *)
(* neutral element 0 used here the result is independent of the            *)
(* partitioning:  NextState(s, out) = gfold(s, lfold-from-0(out)).         *)
(* After each round: index++, continue iff cond(state) /\ index < rounds.  *)
(***************************************************************************)
NextState(n, s, out) ==
  AggMerge(n.gfold, s, FoldL(LAMBDA acc, v : AggStep(n.lfold, acc, v), 0, out, 1))

RECURSIVE EvalNodes(_, _, _, _)
RECURSIVE LoopRun(_, _, _, _, _, _)

(* One node. env: id -> sequence; st: loop state visible to map_st (or 0).  *)
EvalNode(n, env, st) ==
  LET in(i) == env[n.in[i]] IN
  CASE n.op = "src" ->
         Put(env, n.id, CASE n.kind = "par_range" -> RangeSeq(n.lo, n.hi)
                          [] n.kind = "iter"      -> n.data
                          [] n.kind = "script"    -> ScriptData(n.scripts))
    [] n.op = "map"      -> Put(env, n.id, MapSeq(LAMBDA v : FMap(n.f, v), in(1)))
    [] n.op = "map_st"   -> Put(env, n.id, MapSeq(LAMBDA v : FMapSt(n.f, v, st), in(1)))
    [] n.op = "map_memo" -> Put(env, n.id, MapSeq(LAMBDA v : FMap(n.f, v), in(1)))
    [] n.op = "unique"   -> Put(env, n.id, Dedup(in(1), 1, <<>>))
    [] n.op = "rich_map" -> Put(env, n.id, Running(in(1), n.agg, 1, AggInit(n.agg)))
    [] n.op = "filter"   -> Put(env, n.id, SelectSeq(in(1), LAMBDA v : FFilter(n.p, v)))
    [] n.op = "flat_map" -> Put(env, n.id, FlatMapSeq(LAMBDA v : FFlat(n.g, v), in(1)))
    [] n.op \in {"shuffle", "replicate", "reorder"} -> Put(env, n.id, in(1))
    [] n.op \in {"group_by", "key_by"} -> Put(env, n.id, MapSeq(LAMBDA v : <<v % n.m, v>>, in(1)))
    [] n.op = "kmap"     -> Put(env, n.id, MapSeq(LAMBDA p : <<p[1], FMap(n.f, p[2])>>, in(1)))
    [] n.op = "kfilter"  -> Put(env, n.id, SelectSeq(in(1), LAMBDA p : FFilter(n.p, p[2])))
    [] n.op = "kflat_map" ->
         Put(env, n.id, FlatMapSeq(LAMBDA p : MapSeq(LAMBDA v : <<p[1], v>>, FFlat(n.g, p[2])), in(1)))
    [] n.op = "kfold"    -> Put(env, n.id, KeyedFold(in(1), n.agg))
    [] n.op = "kreduce"  -> Put(env, n.id, KeyedReduce(in(1), n.agg))
    [] n.op = "krich_map" -> Put(env, n.id, KRich(in(1), n.agg, 1, [x \in {} |-> 0]))
    [] n.op = "gb_fold"  -> Put(env, n.id, KeyedFold(MapSeq(LAMBDA v : <<v % n.m, v>>, in(1)), n.agg))
    [] n.op = "gb_reduce" -> Put(env, n.id, KeyedReduce(MapSeq(LAMBDA v : <<v % n.m, v>>, in(1)), n.agg))
    [] n.op = "gb_sum"   ->
         Put(env, n.id, MapSeq(LAMBDA k : <<k, FoldL(LAMBDA a, v : a + v, 0, SelectSeq(in(1), LAMBDA v : v % n.m = k), 1)>>,
                               Keys(MapSeq(LAMBDA v : <<v % n.m, v>>, in(1)))))
    [] n.op = "gb_count" -> Put(env, n.id, KeyedFold(MapSeq(LAMBDA v : <<v % n.m, v>>, in(1)), "count"))
    [] n.op = "gb_min"   -> Put(env, n.id, KeyedFold(MapSeq(LAMBDA v : <<v % n.m, v>>, in(1)), "min"))
    [] n.op = "gb_max"   -> Put(env, n.id, KeyedFold(MapSeq(LAMBDA v : <<v % n.m, v>>, in(1)), "max"))
    [] n.op = "gb_avg"   ->
         Put(env, n.id, MapSeq(LAMBDA k : LET vs == SelectSeq(in(1), LAMBDA v : v % n.m = k)
                                          IN <<k, (8 * FoldL(LAMBDA a, v : a + v, 0, vs, 1)) \div Len(vs)>>,
                               Keys(MapSeq(LAMBDA v : <<v % n.m, v>>, in(1)))))
    [] n.op \in {"fold", "fold_assoc"}     -> Put(env, n.id, GlobalFold(in(1), n.agg))
    [] n.op \in {"reduce", "reduce_assoc"} -> Put(env, n.id, GlobalReduce(in(1), n.agg))
    [] n.op = "unkey"    -> Put(env, n.id, MapSeq(LAMBDA p : Comb(p[1], p[2]), in(1)))
    [] n.op = "drop_key" -> Put(env, n.id, MapSeq(LAMBDA p : p[2], in(1)))
    [] n.op = "join"     -> Put(env, n.id, Join(in(1), in(2), n.ml, n.mr, n.variant))
    [] n.op = "kjoin"    -> Put(env, n.id, IF n.variant = "inner" THEN KJoinInner(in(1), in(2))
                                            ELSE KJoinOuter(in(1), in(2)))
    [] n.op \in {"merge", "kmerge"} -> Put(env, n.id, in(1) \o in(2))
    [] n.op = "zip"      -> Put(env, n.id, ZipComb(in(1), in(2)))
    [] n.op = "split"    -> PutAll(env, {BranchId(n.id, i) : i \in 1..n.n}, LAMBDA x : in(1))
    [] n.op = "route"    ->
         PutAll(env, {BranchId(n.id, i) : i \in 1..Len(n.preds)},
                LAMBDA x : RouteBranch(in(1), n.preds, CHOOSE i \in 1..Len(n.preds) : BranchId(n.id, i) = x))
    [] n.op = "count_window" -> Put(env, n.id, CountWindow(in(1), n.n, n.s, n.exact, n.agg))
    [] n.op \in {"replay", "iterate"} ->
         LET r == LoopRun(n, env, in(1), n.init, 0, <<>>) IN
         IF n.op = "replay" THEN Put(env, n.id \o ".state", <<r.state>>)
         ELSE Put(Put(env, n.id \o ".state", <<r.state>>), n.id \o ".out", r.out)
    [] n.op = "sink"     -> Put(env, "sink:" \o n.id, in(1))

EvalNodes(nodes, i, env, st) ==
  IF i > Len(nodes) THEN env ELSE EvalNodes(nodes, i + 1, EvalNode(nodes[i], env, st), st)

(* run rounds until the condition fails or the bound is reached (at least one round) *)
LoopRun(n, env, input, s, idx, states) ==
  LET benv == EvalNodes(n.body, 1, Put(env, "$in", input), s)
      out  == benv[n.out]
      s2   == NextState(n, s, out)
      idx2 == idx + 1
      cont == FCond(n.cond, s2) /\ idx2 < n.rounds
  IN IF cont THEN LoopRun(n, env, IF n.op = "replay" THEN input ELSE out, s2, idx2, Append(states, s2))
     ELSE [state |-> s2, out |-> out, states |-> Append(states, s2), rounds |-> idx2]

Eval(prog) == EvalNodes(prog.nodes, 1, [x \in {} |-> <<>>], 0)

(* the sequence of loop states S(0), S(1), ... of a top-level loop node *)
LoopStates(prog, id) ==
  LET i == CHOOSE j \in 1..Len(prog.nodes) : prog.nodes[j].id = id
      env == EvalNodes(SubSeq(prog.nodes, 1, i - 1), 1, [x \in {} |-> <<>>], 0)
      n == prog.nodes[i]
  IN <<n.init>> \o LoopRun(n, env, env[n.in[1]], n.init, 0, <<>>).states

(* what a sink of the given kind publishes for the stream s *)
SinkValue(kind, s) == IF kind = "collect_count" THEN <<Len(s)>> ELSE s
=============================================================================
