CONSTANTS DEPTH = 2  N = 3  D = 2  K = 2  TMAX = 9  BLIND = {}  FIXTO = TRUE
SPECIFICATION Spec
INVARIANTS BoundedDelay ArrivedWasFed
CHECK_DEADLOCK FALSE
