CONSTANTS NMAX = 2  LMAX = 2  ITERS = 1  KEYS = {0}  EXACTS = {FALSE}  TIMEDS = {TRUE}  MAXW = 1
SPECIFICATION Spec
INVARIANTS C06_LateResult
CHECK_DEADLOCK FALSE
