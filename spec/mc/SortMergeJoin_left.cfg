CONSTANTS VARIANT = "left"  MAXL = 2  MAXR = 2  VALS = {1, 2, 3}  ITERS = 2  RESET_AT = "restart"
SPECIFICATION Spec
INVARIANTS JoinOK NoExtra CleanAtStart
CHECK_DEADLOCK FALSE
