CONSTANTS SIZES = {2}  TMAX = 3  WMAX = 4  MAXE = 1  MAXW = 2  ITERS = 1  KEYS = {0}  BEFORE = FALSE  FIX_F4 = FALSE
SPECIFICATION Spec
INVARIANTS C06_LateResult
CHECK_DEADLOCK FALSE
