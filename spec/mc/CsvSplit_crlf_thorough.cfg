CONSTANTS MAXLEN = 11  MAXREP = 6  CRLF = TRUE
SPECIFICATION Spec
INVARIANTS C15_Csv RangeOrdered
CHECK_DEADLOCK FALSE
