CONSTANTS GAPSIZES = {1, 2, 3, 4}  GAPS = {0, 1, 2, 3, 4, 5, 8}  MAXE = 5  MAXW = 0  ITERS = 1  KEYS = {0}
SPECIFICATION Spec
INVARIANTS C14_Session
CHECK_DEADLOCK FALSE
