\* as RangeSplit_u64, 6-bit type
CONSTANTS BODY = "A"  TNEG = 0  TMAX = 63  CNEG = 0  CMAX = 63  BNEG = 0  BHI = 63
          MAXELEMS = 16  MAXPEERS = 6  FIX_REVERSED = TRUE  FIX_CLAMP_START = TRUE  WRAPPED = TRUE
SPECIFICATION Spec
INVARIANTS C15_Range
CHECK_DEADLOCK FALSE
