---------------------------- MODULE MC_RT_diamond ----------------------------
(* split + merge: source(2) -random-> {map(1), map(2)} ; both -random-> merge(2) -forward-> sink(1) *)
(* every branch sees the whole stream; merge is the bag union; a slow branch is an unfair prefix   *)
EXTENDS Runtime
MCBlocks == {0, 1, 2, 3, 4}
MCKind == [b \in MCBlocks |-> CASE b = 0 -> "source" [] b = 1 -> "map" [] b = 2 -> "map" [] b = 3 -> "merge" [] b = 4 -> "sink"]
MCNRep == [b \in MCBlocks |-> CASE b = 0 -> 1 [] b = 1 -> 1 [] b = 2 -> 1 [] b = 3 -> 2 [] b = 4 -> 1]
MCEdges == {[from |-> 0, to |-> 1, strat |-> "random"], [from |-> 0, to |-> 2, strat |-> "random"],
            [from |-> 1, to |-> 3, strat |-> "random"], [from |-> 2, to |-> 3, strat |-> "random"],
            [from |-> 3, to |-> 4, strat |-> "forward"]}
MCInput == [b \in {0} |-> <<<<1, 2, 3>>>>]
ResultOK == AllDone => SinkBag = BagOf(<<101, 102, 103, 101, 102, 103>>)
MCInputSmall == [b \in {0} |-> <<<<1, 2>>>>]
ResultSmallOK == AllDone => SinkBag = BagOf(<<101, 102, 101, 102>>)
=============================================================================
