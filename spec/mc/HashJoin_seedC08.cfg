CONSTANTS VARIANT = "outer"  MAXL = 2  MAXR = 2  VALS = {1, 2, 3}  KEYS_ON_MATCH_ONLY = TRUE
SPECIFICATION Spec
INVARIANTS NoExtra
CHECK_DEADLOCK FALSE
