CONSTANTS SIZES = {1, 2, 3, 4}  GAPS = {0, 1, 2, 3, 4, 5, 8, 12}  MAXE = 5  MAXW = 0  ITERS = 1  KEYS = {0}
SPECIFICATION Spec
INVARIANTS TypeOK C14_Pt
CHECK_DEADLOCK FALSE
