CONSTANTS HOSTS = 2  HEADS = 2  BODIES = 1  ROUNDS = 3  DATA = 1  WAIT = TRUE
SPECIFICATION FairSpec
INVARIANTS StateReadOK SetStateSafe RoundsOK LockDiscipline BarrierOK
PROPERTY Terminates
