CONSTANTS MaxHosts = 2  MaxCores = 2  Limits = {1, 3}
SPECIFICATION Spec
INVARIANTS ReplicaSetsOK GlobalIdsOK AllToAllOK NoExtraLinks AddressesOK ForwardOKExceptF2
CHECK_DEADLOCK FALSE
