CONSTANTS SIZES = {1, 2}  TMAX = 3  WMAX = 5  MAXE = 2  MAXW = 2  ITERS = 1  KEYS = {0}  BEFORE = FALSE  FIX_F4 = TRUE
SPECIFICATION Spec
INVARIANTS C06_Late EmitReplay
CHECK_DEADLOCK FALSE
