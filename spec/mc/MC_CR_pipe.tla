----------------------------- MODULE MC_CR_pipe -----------------------------
(* source(2) -random-> map(2) -forward-> sink(1), with one injected crash anywhere *)
EXTENDS Crash
MCBlocks == {0, 1, 2}
MCKind == [b \in MCBlocks |-> CASE b = 0 -> "source" [] b = 1 -> "map" [] b = 2 -> "sink"]
MCNRep == [b \in MCBlocks |-> IF b = 2 THEN 1 ELSE 2]
MCEdges == {[from |-> 0, to |-> 1, strat |-> "random"], [from |-> 1, to |-> 2, strat |-> "forward"]}
MCInput == [b \in {0} |-> <<<<1>>, <<2>>>>]
MCInputSmall == [b \in {0} |-> <<<<1>>, <<>>>>]
=============================================================================
