\* narrow unsigned type (u8 u16 u32 scaled)
CONSTANTS BODY = "B"  TNEG = 0  TMAX = 8  CNEG = 1000  CMAX = 1000  BNEG = 0  BHI = 8
          MAXELEMS = 16  MAXPEERS = 6  FIX_REVERSED = TRUE  FIX_CLAMP_START = TRUE  WRAPPED = TRUE
SPECIFICATION Spec
INVARIANTS C15_Range
CHECK_DEADLOCK FALSE
