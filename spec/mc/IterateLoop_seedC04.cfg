CONSTANTS NITEMS = 6  ROUNDS = 3  CAP = 1  AMP = 1  DRAIN = "input_only"
SPECIFICATION FairSpec
INVARIANT NoDeadlock
PROPERTY Terminates
CHECK_DEADLOCK FALSE
