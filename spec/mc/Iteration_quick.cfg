CONSTANTS HOSTS = 2  HEADS = 1  BODIES = 1  ROUNDS = 2  DATA = 1  WAIT = TRUE
SPECIFICATION FairSpec
INVARIANTS StateReadOK SetStateSafe RoundsOK LockDiscipline BarrierOK
PROPERTY Terminates
