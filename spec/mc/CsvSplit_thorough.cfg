\* model check only (see gen/CsvSplit_gen_thorough.cfg)
CONSTANTS MAXLEN = 11  MAXREP = 6  CRLFLEN = 9
SPECIFICATION Spec
INVARIANTS C15_Csv RangeOrdered
CHECK_DEADLOCK FALSE
