CONSTANTS LOWER = 1  UPPER = 1  NEG = 1  TMAX = 2  SEEN_MIN = TRUE  KEYS = {1, 2}  MAXL = 2  MAXR = 2  EVICT_LE = TRUE
SPECIFICATION Spec
INVARIANTS JoinOK
CHECK_DEADLOCK FALSE
