CONSTANTS GAPSIZES = {1, 2}  GAPS = {0, 1, 2, 3}  MAXE = 3  MAXW = 1  ITERS = 2  KEYS = {0}
SPECIFICATION Spec
INVARIANTS C14_Session
CHECK_DEADLOCK FALSE
