CONSTANTS MAXLEN = 11  MAXREP = 6  CRLF = TRUE
SPECIFICATION Spec
INVARIANTS C15_File ModelShape
CHECK_DEADLOCK FALSE
