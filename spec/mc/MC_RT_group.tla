----------------------------- MODULE MC_RT_group -----------------------------
(* source(2) -groupby-> keyed fold(2) -forward-> sink(1): one result per key, equal keys meet *)
EXTENDS Runtime
MCBlocks == {0, 1, 2}
MCKind == [b \in MCBlocks |-> CASE b = 0 -> "source" [] b = 1 -> "kfold" [] b = 2 -> "sink"]
MCNRep == [b \in MCBlocks |-> IF b = 2 THEN 1 ELSE 2]
MCEdges == {[from |-> 0, to |-> 1, strat |-> "groupby"], [from |-> 1, to |-> 2, strat |-> "forward"]}
MCInput == [b \in {0} |-> <<<<1, 2, 3>>, <<5>>>>]
(* KeyMod = 2: key 1 -> 1+3+5 = 9, key 0 -> 2; encoded key + KeyMod * sum *)
ResultOK == AllDone => SinkBag = BagOf(<<1 + 2 * 9, 0 + 2 * 2>>)
MCInputSmall == [b \in {0} |-> <<<<1, 2>>, <<3>>>>]
ResultSmallOK == AllDone => SinkBag = BagOf(<<1 + 2 * 4, 0 + 2 * 2>>)
=============================================================================
