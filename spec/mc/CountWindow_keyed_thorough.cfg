CONSTANTS NMAX = 3  LMAX = 6  ITERS = 1  KEYS = {1, 2, 3}  EXACTS = {TRUE, FALSE}  TIMEDS = {FALSE}  MAXW = 0
SPECIFICATION Spec
INVARIANTS TypeOK C12_All
CHECK_DEADLOCK FALSE
