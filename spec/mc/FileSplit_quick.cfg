CONSTANTS MAXLEN = 10  MAXREP = 6  CRLF = FALSE
SPECIFICATION Spec
INVARIANTS C15_File ModelShape
CHECK_DEADLOCK FALSE
