\* model check only (the check itself uses gen/FileSplit_gen_quick.cfg: same space, check + generation in one run)
CONSTANTS MAXLEN = 8  MAXREP = 6  CRLFLEN = 6
SPECIFICATION Spec
INVARIANTS C15_File ModelShape
CHECK_DEADLOCK FALSE
