CONSTANTS NL = 2  NS = 1  SD = 1  LD = 0  ROUNDS = 2  FIXED = TRUE  FIXED8 = TRUE  TIMEOUTS = TRUE
SPECIFICATION FairSpec
INVARIANTS CountersOK SideCompleteEveryRound SideNeverDuplicated NoRoundAfterTheLast NothingAfterLastRound TerminateOnce
PROPERTY EventuallyTerminates
CHECK_DEADLOCK FALSE
