CONSTANTS TMAX = 2  MAXE = 4  MAXW = 2  ITERS = 1  KEYS = {0}  FIX_F7 = TRUE
SPECIFICATION Spec
INVARIANTS C13_Txn
CHECK_DEADLOCK FALSE
