CONSTANTS NL = 2  NS = 2  SD = 1  LD = 0  ROUNDS = 2  FIXED = TRUE  FIXED8 = TRUE  TIMEOUTS = TRUE
SPECIFICATION Spec
INVARIANTS CountersOK SideCompleteEveryRound SideNeverDuplicated NoRoundAfterTheLast NothingAfterLastRound TerminateOnce
CHECK_DEADLOCK FALSE
