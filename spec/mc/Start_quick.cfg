CONSTANTS N = 2  ITERS = 2  MAXD = 1  MAXW = 2  TMAX = 3  TIMED = TRUE  SYNC = TRUE
SPECIFICATION Spec
VIEW View
INVARIANTS TypeOK C05_Grammar C05_Restart C05_Complete C06_Safety C17_Watermark
CHECK_DEADLOCK FALSE
