CONSTANTS NITEMS = 6  ROUNDS = 3  CAP = 2  AMP = 1  DRAIN = "always"
SPECIFICATION FairSpec
INVARIANT NoDeadlock
PROPERTY Terminates
CHECK_DEADLOCK FALSE
