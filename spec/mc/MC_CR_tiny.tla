----------------------------- MODULE MC_CR_tiny -----------------------------
(* source(1) -groupby-> keyed fold(2) -forward-> sink(1), one injected crash anywhere (quick tier) *)
EXTENDS Crash
MCBlocks == {0, 1, 2}
MCKind == [b \in MCBlocks |-> CASE b = 0 -> "source" [] b = 1 -> "kfold" [] b = 2 -> "sink"]
MCNRep == [b \in MCBlocks |-> IF b = 1 THEN 2 ELSE 1]
MCEdges == {[from |-> 0, to |-> 1, strat |-> "groupby"], [from |-> 1, to |-> 2, strat |-> "forward"]}
MCInput == [b \in {0} |-> <<<<1, 2>>>>]
=============================================================================
