CONSTANTS SENDHOSTS = 2  NP = 2  NE = 2  K = 1  MC = 1  CAP = 1
SPECIFICATION FairSpec
INVARIANTS PrefixOK RightEndpoint Complete
PROPERTY Drains
