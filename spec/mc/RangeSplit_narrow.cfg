\* narrow signed type (i8 i16 i32 scaled): every pair of bounds, reversed and near-limit included
CONSTANTS BODY = "B"  TNEG = 8  TMAX = 8  CNEG = 1000  CMAX = 1000  BNEG = 8  BHI = 8
          MAXELEMS = 16  MAXPEERS = 6  FIX_REVERSED = TRUE  FIX_CLAMP_START = TRUE  WRAPPED = TRUE
SPECIFICATION Spec
INVARIANTS C15_Range
CHECK_DEADLOCK FALSE
