CONSTANTS NMAX = 5  LMAX = 12  ITERS = 2  KEYS = {0}  EXACTS = {TRUE, FALSE}  TIMEDS = {FALSE}
SPECIFICATION Spec
INVARIANTS TypeOK C12_All
CHECK_DEADLOCK FALSE
