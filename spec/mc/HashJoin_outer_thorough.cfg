CONSTANTS VARIANT = "outer"  MAXL = 3  MAXR = 3  VALS = {1, 2, 3}  KEYS_ON_MATCH_ONLY = FALSE
SPECIFICATION Spec
INVARIANTS JoinOK NoExtra CleanAtRestart
CHECK_DEADLOCK FALSE
