CONSTANTS SIZES = {1, 2, 3}  GAPS = {0, 1, 2, 4}  MAXE = 4  MAXW = 0  ITERS = 1  KEYS = {0}
SPECIFICATION Spec
INVARIANTS TypeOK C14_Pt EmitReplay
CHECK_DEADLOCK FALSE
