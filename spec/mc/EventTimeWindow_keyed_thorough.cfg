CONSTANTS SIZES = {2, 3}  TMAX = 3  WMAX = 4  MAXE = 2  MAXW = 1  ITERS = 2  KEYS = {1, 2}  BEFORE = FALSE
SPECIFICATION Spec
INVARIANTS TypeOK C13_All
CHECK_DEADLOCK FALSE
