CONSTANTS SIZES = {2, 3}  TMAX = 3  WMAX = 4  MAXE = 2  MAXW = 1  ITERS = 2  KEYS = {1, 2}  BEFORE = FALSE  FIX_F4 = TRUE
SPECIFICATION Spec
INVARIANTS TypeOK C13_All C06_Late
CHECK_DEADLOCK FALSE
