\* as RangeSplit_usize, 6-bit type
CONSTANTS BODY = "B"  TNEG = 0  TMAX = 63  CNEG = 32  CMAX = 31  BNEG = 0  BHI = 63
          MAXELEMS = 16  MAXPEERS = 6  FIX_REVERSED = TRUE  FIX_CLAMP_START = TRUE  WRAPPED = FALSE
SPECIFICATION Spec
INVARIANTS C15_Range
CHECK_DEADLOCK FALSE
