CONSTANTS BODY = "B"  TNEG = 0  TMAX = 63  CNEG = 32  CMAX = 31  BNEG = 0  BHI = 63
          MAXELEMS = 16  MAXPEERS = 6  REVERSED = FALSE  NEARMAX = TRUE  WRAPPED = FALSE
SPECIFICATION Spec
INVARIANTS C15_Range
CHECK_DEADLOCK FALSE
