CONSTANTS TMAX = 2  MAXE = 3  MAXW = 1  ITERS = 1  KEYS = {0}  FIX_F7 = TRUE
SPECIFICATION Spec
INVARIANTS C13_Txn EmitReplay
CHECK_DEADLOCK FALSE
