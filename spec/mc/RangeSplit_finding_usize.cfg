CONSTANTS BODY = "B"  TMIN = 0  TMAX = 31  CMIN = -16  CMAX = 15  BLO = 0  BHI = 31
          MAXELEMS = 8  MAXPEERS = 6  REVERSED = FALSE  NEARMAX = TRUE  WRAPPED = TRUE
SPECIFICATION Spec
INVARIANTS C15_Range
CHECK_DEADLOCK FALSE
