CONSTANTS NMAX = 8  LMAX = 18  ITERS = 2  KEYS = {0}  EXACTS = {TRUE, FALSE}  TIMEDS = {FALSE}  MAXW = 0
SPECIFICATION Spec
INVARIANTS TypeOK C12_All
CHECK_DEADLOCK FALSE
