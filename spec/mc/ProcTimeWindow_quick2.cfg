CONSTANTS SIZES = {2, 3}  GAPS = {0, 3}  MAXE = 2  MAXW = 0  ITERS = 2  KEYS = {1, 2}
SPECIFICATION Spec
INVARIANTS TypeOK C14_Pt
CHECK_DEADLOCK FALSE
