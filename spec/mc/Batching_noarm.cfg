CONSTANTS DEPTH = 2  N = 3  D = 2  K = 2  TMAX = 12  BLIND = {}  FIXTO = FALSE
SPECIFICATION Spec
INVARIANTS BoundedDelay
CHECK_DEADLOCK FALSE
