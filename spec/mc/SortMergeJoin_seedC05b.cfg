CONSTANTS VARIANT = "outer"  MAXL = 2  MAXR = 2  VALS = {1, 2, 3}  ITERS = 2  RESET_AT = "tail"
SPECIFICATION Spec
INVARIANTS JoinOK
CHECK_DEADLOCK FALSE
