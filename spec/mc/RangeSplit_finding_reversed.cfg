\* regression documentation of FIXED finding F1 (arithmetic before 09da878): must still fail
CONSTANTS BODY = "B"  TNEG = 8  TMAX = 8  CNEG = 1000  CMAX = 1000  BNEG = 8  BHI = 8
          MAXELEMS = 16  MAXPEERS = 6  FIX_REVERSED = FALSE  FIX_CLAMP_START = TRUE  WRAPPED = TRUE
SPECIFICATION Spec
INVARIANTS C15_Range
CHECK_DEADLOCK FALSE
