CONSTANTS MaxHosts = 3  MaxCores = 3  Limits = {1, 2, 4}
SPECIFICATION Spec
INVARIANTS ReplicaSetsOK GlobalIdsOK AllToAllOK NoExtraLinks AddressesOK ForwardOKExceptF2
CHECK_DEADLOCK FALSE
