----------------------------- MODULE MC_RT_pipe -----------------------------
(* source(2 replicas) -random-> map(2) -forward-> sink(1) *)
EXTENDS Runtime
MCBlocks == {0, 1, 2}
MCKind == [b \in MCBlocks |-> CASE b = 0 -> "source" [] b = 1 -> "map" [] b = 2 -> "sink"]
MCNRep == [b \in MCBlocks |-> IF b = 2 THEN 1 ELSE 2]
MCEdges == {[from |-> 0, to |-> 1, strat |-> "random"], [from |-> 1, to |-> 2, strat |-> "forward"]}
MCInput == [b \in {0} |-> <<<<1, 2, 3>>, <<4>>>>]
Expected == BagOf(<<101, 102, 103, 104>>)
ResultOK == AllDone => SinkBag = Expected
MCInputSmall == [b \in {0} |-> <<<<1>>, <<2>>>>]
ResultSmallOK == AllDone => SinkBag = BagOf(<<101, 102>>)
=============================================================================
