CONSTANTS NL = 1  NS = 1  SD = 1  LD = 1  ROUNDS = 2  FIXED = FALSE  FIXED8 = TRUE  TIMEOUTS = TRUE
SPECIFICATION Spec
INVARIANTS NothingAfterLastRound
CHECK_DEADLOCK FALSE
