CONSTANTS LOWER = 1  UPPER = 1  NEG = 1  TMAX = 2  SEEN_MIN = FALSE  KEYS = {1, 2}  MAXL = 2  MAXR = 2  EVICT_LE = FALSE
SPECIFICATION Spec
INVARIANTS NoPanic
CHECK_DEADLOCK FALSE
