\* as RangeSplit_wide, 6-bit type
CONSTANTS BODY = "B"  TNEG = 32  TMAX = 31  CNEG = 32  CMAX = 31  BNEG = 32  BHI = 31
          MAXELEMS = 16  MAXPEERS = 6  FIX_REVERSED = TRUE  FIX_CLAMP_START = TRUE  WRAPPED = TRUE
SPECIFICATION Spec
INVARIANTS C15_Range
CHECK_DEADLOCK FALSE
