CONSTANTS HOSTS = 2  HEADS = 1  BODIES = 1  ROUNDS = 2  DATA = 1  WAIT = FALSE
SPECIFICATION Spec
INVARIANTS StateReadOK
CHECK_DEADLOCK FALSE
