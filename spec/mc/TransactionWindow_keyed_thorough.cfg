CONSTANTS TMAX = 1  MAXE = 3  MAXW = 1  ITERS = 1  KEYS = {1, 2}  FIX_F7 = TRUE
SPECIFICATION Spec
INVARIANTS C13_Txn
CHECK_DEADLOCK FALSE
