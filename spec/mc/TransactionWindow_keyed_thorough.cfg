CONSTANTS TMAX = 1  MAXE = 3  MAXW = 1  ITERS = 1  KEYS = {1, 2}  OPENEND = TRUE
SPECIFICATION Spec
INVARIANTS C13_Txn
CHECK_DEADLOCK FALSE
