CONSTANTS DEPTH = 3  N = 3  D = 2  K = 3  TMAX = 14  BLIND = {}  FIXTO = TRUE
SPECIFICATION Spec
INVARIANTS BoundedDelay ArrivedWasFed
CHECK_DEADLOCK FALSE
