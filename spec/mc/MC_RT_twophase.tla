---------------------------- MODULE MC_RT_twophase ----------------------------
(* fold_assoc: source(2) -forward-> local fold(2) -forward-> global fold(1) -forward-> sink(1) *)
EXTENDS Runtime
MCBlocks == {0, 1, 2, 3}
MCKind == [b \in MCBlocks |-> CASE b = 0 -> "source" [] b = 1 -> "fold" [] b = 2 -> "fold" [] b = 3 -> "sink"]
MCNRep == [b \in MCBlocks |-> IF b >= 2 THEN 1 ELSE 2]
MCEdges == {[from |-> 0, to |-> 1, strat |-> "forward"], [from |-> 1, to |-> 2, strat |-> "forward"],
            [from |-> 2, to |-> 3, strat |-> "forward"]}
MCInput == [b \in {0} |-> <<<<1, 2, 3>>, <<>>>>]
ResultOK == AllDone => SinkBag = BagOf(<<6>>)
MCInputSmall == [b \in {0} |-> <<<<1, 2>>, <<4>>>>]
ResultSmallOK == AllDone => SinkBag = BagOf(<<7>>)
=============================================================================
