CONSTANTS GAPSIZES = {1, 2}  GAPS = {0, 3}  MAXE = 2  MAXW = 0  ITERS = 2  KEYS = {1, 2}
SPECIFICATION Spec
INVARIANTS C14_Session EmitReplay
CHECK_DEADLOCK FALSE
