CONSTANTS SIZES = {2}  TMAX = 3  WMAX = 4  MAXE = 3  MAXW = 1  ITERS = 1  KEYS = {1, 2}  BEFORE = FALSE
SPECIFICATION Spec
INVARIANTS TypeOK C13_All
CHECK_DEADLOCK FALSE
