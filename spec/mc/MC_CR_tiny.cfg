CONSTANTS Blocks <- MCBlocks  Kind <- MCKind  NRep <- MCNRep  Edges <- MCEdges  Input <- MCInput
CONSTANTS CAP = 1  BS = 2  KeyMod = 2
SPECIFICATION CFairSpec
INVARIANTS NoResultAfterCrash NoSpuriousDeath CountersOK SinkOnce
PROPERTY EveryoneStops
