CONSTANTS SIZES = {1, 2, 3}  TMAX = 4  WMAX = 6  MAXE = 3  MAXW = 1  ITERS = 1  KEYS = {0}  BEFORE = TRUE  FIX_F4 = TRUE
SPECIFICATION Spec
INVARIANTS TypeOK C13_All C06_Late EmitReplay
CHECK_DEADLOCK FALSE
