CONSTANTS SIZES = {1, 2, 3}  TMAX = 5  WMAX = 7  MAXE = 3  MAXW = 2  ITERS = 1  KEYS = {0}  BEFORE = FALSE
SPECIFICATION Spec
INVARIANTS TypeOK C13_All
CHECK_DEADLOCK FALSE
