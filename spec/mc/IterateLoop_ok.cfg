CONSTANTS NITEMS = 4  ROUNDS = 3  CAP = 1  AMP = 1  DRAIN = "always"
SPECIFICATION FairSpec
INVARIANT NoDeadlock
PROPERTY Terminates
CHECK_DEADLOCK FALSE
