CONSTANTS NL = 2  NS = 1  SD = 1  LD = 0  ROUNDS = 1  FIXED = TRUE  FIXED8 = FALSE  TIMEOUTS = FALSE
SPECIFICATION Spec
INVARIANTS NothingAfterLastRound
CHECK_DEADLOCK FALSE
