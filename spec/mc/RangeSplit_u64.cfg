\* body A (u64 scaled)
CONSTANTS BODY = "A"  TNEG = 0  TMAX = 31  CNEG = 0  CMAX = 31  BNEG = 0  BHI = 31
          MAXELEMS = 8  MAXPEERS = 6  FIX_REVERSED = TRUE  FIX_CLAMP_START = TRUE  WRAPPED = TRUE
SPECIFICATION Spec
INVARIANTS C15_Range
CHECK_DEADLOCK FALSE
