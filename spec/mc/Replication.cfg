CONSTANT MAXLIM = 5
