CONSTANTS N = 2  ITERS = 1  MAXD = 1  MAXW = 2  TMAX = 3  TIMED = TRUE  SYNC = TRUE
SPECIFICATION Spec
VIEW View
INVARIANTS C17_Ended
CHECK_DEADLOCK FALSE
