CONSTANTS SIZES = {1, 2, 3}  GAPS = {0, 1, 2, 4}  MAXE = 3  MAXW = 1  ITERS = 1  KEYS = {0}
SPECIFICATION Spec
INVARIANTS TypeOK C14_Pt
CHECK_DEADLOCK FALSE
