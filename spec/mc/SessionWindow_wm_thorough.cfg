CONSTANTS GAPSIZES = {1, 2, 3}  GAPS = {0, 1, 2, 4}  MAXE = 3  MAXW = 1  ITERS = 1  KEYS = {0}
SPECIFICATION Spec
INVARIANTS C14_Session
CHECK_DEADLOCK FALSE
