CONSTANTS BODY = "B"  TNEG = 16  TMAX = 15  CNEG = 16  CMAX = 15  BNEG = 16  BHI = 15
          MAXELEMS = 8  MAXPEERS = 6  REVERSED = FALSE  NEARMAX = TRUE  WRAPPED = TRUE
SPECIFICATION Spec
INVARIANTS C15_Range
CHECK_DEADLOCK FALSE
