\* value type = computation type (i64 isize scaled), at most 8 elements (the scaled 2^62)
CONSTANTS BODY = "B"  TNEG = 16  TMAX = 15  CNEG = 16  CMAX = 15  BNEG = 16  BHI = 15
          MAXELEMS = 8  MAXPEERS = 6  FIX_REVERSED = TRUE  FIX_CLAMP_START = TRUE  WRAPPED = TRUE
SPECIFICATION Spec
INVARIANTS C15_Range
CHECK_DEADLOCK FALSE
