CONSTANTS SIZES = {1, 2, 3, 4}  TMAX = 6  WMAX = 8  MAXE = 4  MAXW = 1  ITERS = 1  KEYS = {0}  BEFORE = FALSE  FIX_F4 = TRUE
SPECIFICATION Spec
INVARIANTS TypeOK C13_All C06_Late
CHECK_DEADLOCK FALSE
