CONSTANTS SIZES = {1, 2, 3, 4}  TMAX = 6  WMAX = 8  MAXE = 4  MAXW = 1  ITERS = 1  KEYS = {0}  BEFORE = FALSE
SPECIFICATION Spec
INVARIANTS TypeOK C13_All
CHECK_DEADLOCK FALSE
