CONSTANTS SIZES = {2}  TMAX = 3  WMAX = 3  MAXE = 2  MAXW = 0  ITERS = 1  KEYS = {0}  BEFORE = TRUE  FIX_F4 = TRUE
SPECIFICATION Spec
INVARIANTS C13_Lost
CHECK_DEADLOCK FALSE
