\* model check only (see gen/FileSplit_gen_thorough.cfg)
CONSTANTS MAXLEN = 13  MAXREP = 6  CRLFLEN = 10
SPECIFICATION Spec
INVARIANTS C15_File ModelShape
CHECK_DEADLOCK FALSE
