CONSTANTS MAXLEN = 13  MAXREP = 6  CRLF = FALSE
SPECIFICATION Spec
INVARIANTS C15_File ModelShape
CHECK_DEADLOCK FALSE
