\* model check only (see gen/CsvSplit_gen_quick.cfg)
CONSTANTS MAXLEN = 7  MAXREP = 6  CRLFLEN = 5
SPECIFICATION Spec
INVARIANTS C15_Csv RangeOrdered
CHECK_DEADLOCK FALSE
