CONSTANTS Blocks <- MCBlocks  Kind <- MCKind  NRep <- MCNRep  Edges <- MCEdges  Input <- MCInput
CONSTANTS CAP = 1  BS = 2  KeyMod = 2
SPECIFICATION FairSpec
INVARIANTS CountersOK SinkOnce SinksComplete Drained ResultOK
PROPERTY Terminates
