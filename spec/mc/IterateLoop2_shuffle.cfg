CONSTANTS NREP = 2  NITEMS = 5  CAP = 1
SPECIFICATION Spec
INVARIANT NoDeadlock
CHECK_DEADLOCK FALSE
