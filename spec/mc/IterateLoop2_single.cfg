CONSTANTS NREP = 1  NITEMS = 6  CAP = 1
SPECIFICATION Spec
INVARIANT NoDeadlock
CHECK_DEADLOCK FALSE
