\* usize scaled: T wider than C; bounds above CMAX excluded (open finding F1-usize, see RangeSplit_finding_usize.cfg)
CONSTANTS BODY = "B"  TNEG = 0  TMAX = 31  CNEG = 16  CMAX = 15  BNEG = 0  BHI = 31
          MAXELEMS = 8  MAXPEERS = 6  FIX_REVERSED = TRUE  FIX_CLAMP_START = TRUE  WRAPPED = FALSE
SPECIFICATION Spec
INVARIANTS C15_Range
CHECK_DEADLOCK FALSE
