CONSTANTS NMAX = 5  LMAX = 6  ITERS = 2  KEYS = {0}  EXACTS = {TRUE, FALSE}  TIMEDS = {FALSE}  MAXW = 0
SPECIFICATION Spec
INVARIANTS TypeOK C12_All EmitReplay
CHECK_DEADLOCK FALSE
