CONSTANTS LOWER = 2  UPPER = 1  NEG = 1  TMAX = 3  SEEN_MIN = TRUE  KEYS = {1, 2}  MAXL = 3  MAXR = 3  EVICT_LE = FALSE
SPECIFICATION Spec
INVARIANTS JoinOK NoExtra CleanAtRestart NoPanic
CHECK_DEADLOCK FALSE
