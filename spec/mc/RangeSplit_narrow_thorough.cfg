\* as RangeSplit_narrow, bounds -12..12
CONSTANTS BODY = "B"  TNEG = 12  TMAX = 12  CNEG = 1000  CMAX = 1000  BNEG = 12  BHI = 12
          MAXELEMS = 24  MAXPEERS = 6  FIX_REVERSED = TRUE  FIX_CLAMP_START = TRUE  WRAPPED = TRUE
SPECIFICATION Spec
INVARIANTS C15_Range
CHECK_DEADLOCK FALSE
