CONSTANTS TMAX = 1  MAXE = 2  MAXW = 0  ITERS = 2  KEYS = {0}  FIX_F7 = FALSE
SPECIFICATION Spec
INVARIANTS C13_TxnQuiet
CHECK_DEADLOCK FALSE
