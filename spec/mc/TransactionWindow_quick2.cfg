CONSTANTS TMAX = 1  MAXE = 2  MAXW = 0  ITERS = 2  KEYS = {0}  FIX_F7 = TRUE
SPECIFICATION Spec
INVARIANTS C13_Txn EmitReplay
CHECK_DEADLOCK FALSE
