CONSTANTS TMAX = 1  MAXE = 2  MAXW = 0  ITERS = 2  KEYS = {0}  OPENEND = FALSE
SPECIFICATION Spec
INVARIANTS C13_Txn
CHECK_DEADLOCK FALSE
