CONSTANTS SENDHOSTS = 1  NP = 2  NE = 2  K = 2  MC = 1  CAP = 1
SPECIFICATION FairSpec
INVARIANTS PrefixOK RightEndpoint Complete
PROPERTY Drains
