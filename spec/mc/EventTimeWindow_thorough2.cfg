CONSTANTS SIZES = {1, 2, 3, 4}  TMAX = 8  WMAX = 10  MAXE = 3  MAXW = 2  ITERS = 1  KEYS = {0}  BEFORE = FALSE
SPECIFICATION Spec
INVARIANTS TypeOK C13_All
CHECK_DEADLOCK FALSE
