CONSTANTS SIZES = {2}  TMAX = 2  WMAX = 3  MAXE = 2  MAXW = 0  ITERS = 2  KEYS = {1, 2}  BEFORE = TRUE  FIX_F4 = TRUE
SPECIFICATION Spec
INVARIANTS TypeOK C13_All C06_Late EmitReplay
CHECK_DEADLOCK FALSE
