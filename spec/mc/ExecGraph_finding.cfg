CONSTANTS MaxHosts = 2  MaxCores = 2  Limits = {2}
SPECIFICATION Spec
INVARIANTS ForwardOK
CHECK_DEADLOCK FALSE
