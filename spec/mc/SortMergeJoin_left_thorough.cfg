CONSTANTS VARIANT = "left"  MAXL = 3  MAXR = 3  VALS = {1, 2, 3, 4}  ITERS = 2  RESET_AT = "restart"
SPECIFICATION Spec
INVARIANTS JoinOK NoExtra CleanAtStart
CHECK_DEADLOCK FALSE
