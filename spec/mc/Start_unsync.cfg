CONSTANTS N = 2  ITERS = 2  MAXD = 0  MAXW = 0  TMAX = 1  TIMED = FALSE  SYNC = FALSE
SPECIFICATION Spec
VIEW View
INVARIANTS C05_Restart
CHECK_DEADLOCK FALSE
