CONSTANTS DEPTH = 2  N = 3  D = 2  K = 2  TMAX = 12  BLIND = {1}  FIXTO = TRUE
SPECIFICATION Spec
INVARIANTS BoundedDelay
CHECK_DEADLOCK FALSE
