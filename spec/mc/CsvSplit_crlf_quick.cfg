CONSTANTS MAXLEN = 8  MAXREP = 6  CRLF = TRUE
SPECIFICATION Spec
INVARIANTS C15_Csv RangeOrdered
CHECK_DEADLOCK FALSE
