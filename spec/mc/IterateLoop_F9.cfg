CONSTANTS NITEMS = 4  ROUNDS = 2  CAP = 1  AMP = 2  DRAIN = "always"
SPECIFICATION FairSpec
INVARIANT NoDeadlock
PROPERTY Terminates
CHECK_DEADLOCK FALSE
