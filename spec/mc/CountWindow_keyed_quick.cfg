CONSTANTS NMAX = 3  LMAX = 3  ITERS = 2  KEYS = {1, 2}  EXACTS = {TRUE, FALSE}  TIMEDS = {FALSE}  MAXW = 0
SPECIFICATION Spec
INVARIANTS TypeOK C12_All EmitReplay
CHECK_DEADLOCK FALSE
