---------------------------- MODULE CountWindow ----------------------------
(***************************************************************************)
(* CountWindowManager (src/operator/window/descr/count.rs) as coded, as a  *)
(* pure transducer, driven the way WindowOperator (window/mod.rs) drives   *)
(* it: one manager per key, created at the key's first element; control    *)
(* elements are handed to every existing manager.                          *)
(*                                                                         *)
(*   ws    VecDeque<Slot>: open overlapping groups, oldest first;          *)
(*         a slot = [count, els, ts]  (els: what the accumulator saw)      *)
(*   data element:                                                         *)
(*         while ws.len() < (size + slide - 1) / slide { push empty slot } *)
(*         k = ws[0].count / slide + 1;  update slots 0..k                 *)
(*         if ws[0].count == size { pop it -> result }                     *)
(*   FlushAndRestart | Terminate:                                          *)
(*         exact: nothing; non exact: pop the head, result if count > 0;   *)
(*         then ws.drain(..)                                               *)
(*   anything else: nothing                                                *)
(*   result timestamp: max of the timestamps of its elements (none for     *)
(*   Item elements)                                                        *)
(*                                                                         *)
(* The wrapper feeds every input sequence the constants allow: every       *)
(* (N, S, exact) with 1 <= S <= N <= NMAX, ITERS iterations of 0..LMAX     *)
(* data elements (every interleaving of the keys in KEYS), then Terminate. *)
(* C12 (WindowProps!CountViol) is an invariant of every reachable state.   *)
(***************************************************************************)
EXTENDS Naturals, Integers, Sequences, FiniteSets, TLC, Json, WindowProps

CONSTANTS NMAX,     \* window sizes 1..NMAX, slides 1..size
          LMAX,     \* at most LMAX data elements per iteration (all keys together)
          ITERS,    \* iterations
          KEYS,     \* keys, e.g. {0} or {1, 2}
          EXACTS,   \* subset of BOOLEAN: the modes explored
          TIMEDS,   \* subset of BOOLEAN: FALSE Item elements, TRUE Timestamped(id, ts = 2 * id)
          MAXW      \* timed only: at most MAXW watermarks per iteration (the manager ignores them;
                    \* they matter for the timestamp of the end-of-iteration result, finding F5)

---------------------------------------------------------------------------
(* the transducer *)
Slot0 == [count |-> 0, els |-> <<>>, ts |-> NOTS]
Upd(sl, e) ==
  [count |-> sl.count + 1, els |-> Append(sl.els, e.v),
   ts |-> IF e.k = "T" THEN (IF sl.ts = NOTS \/ e.ts > sl.ts THEN e.ts ELSE sl.ts) ELSE sl.ts]

CountInit == <<>>

(* [st |-> new state, out |-> sequence of [g, ts]] *)
CountStep(p, ws, e) ==
  IF IsData(e) THEN
    LET K   == (p.n + p.s - 1) \div p.s
        ws1 == IF Len(ws) < K THEN ws \o [i \in 1..(K - Len(ws)) |-> Slot0] ELSE ws
        k   == ws1[1].count \div p.s + 1
        ws2 == [i \in 1..Len(ws1) |-> IF i <= k THEN Upd(ws1[i], e) ELSE ws1[i]]
    IN IF ws2[1].count = p.n
       THEN [st |-> Tail(ws2), out |-> <<[g |-> ws2[1].els, ts |-> ws2[1].ts]>>]
       ELSE [st |-> ws2, out |-> <<>>]
  ELSE IF e.k \in {"R", "X"} THEN
    [st |-> <<>>,
     out |-> IF ~p.exact /\ ws # <<>> /\ ws[1].count > 0
             THEN <<[g |-> ws[1].els, ts |-> ws[1].ts]>> ELSE <<>>]
  ELSE [st |-> ws, out |-> <<>>]

---------------------------------------------------------------------------
(* the wrapper: WindowOperator over KEYS *)
VARIABLES p,      \* [n, s, exact, timed], chosen initially
          live,   \* keys that have a manager
          st,     \* st[key]: manager state
          inp, outs,
          it,     \* iterations completed
          cnt,    \* data elements fed in the current iteration
          nw,     \* watermarks fed in the current iteration
          nid,    \* next element id
          done
vars == <<p, live, st, inp, outs, it, cnt, nw, nid, done>>

Init ==
  /\ p \in {q \in [n : 1..NMAX, s : 1..NMAX, exact : EXACTS, timed : TIMEDS] : q.s <= q.n}
  /\ live = {} /\ st = [k \in KEYS |-> CountInit]
  /\ inp = <<>> /\ outs = <<>> /\ it = 0 /\ cnt = 0 /\ nw = 0 /\ nid = 1 /\ done = FALSE

(* ascending list of a finite set of integers *)
RECURSIVE SortedSeq(_)
SortedSeq(S) == IF S = {} THEN <<>> ELSE LET m == MinOf(S) IN <<m>> \o SortedSeq(S \ {m})

RECURSIVE CtrlOuts(_, _)
CtrlOuts(ks, e) ==
  IF ks = <<>> THEN <<>>
  ELSE LET r == CountStep(p, st[Head(ks)], e)
       IN [j \in 1..Len(r.out) |-> Res(Head(ks), r.out[j].g, r.out[j].ts)] \o CtrlOuts(Tail(ks), e)

Feed(key) ==
  /\ ~done /\ it < ITERS /\ cnt < LMAX
  /\ LET e == IF p.timed THEN El("T", key, nid, 2 * nid, 0, 0, 0) ELSE El("I", key, nid, 0, 0, 0, 0)
         r == CountStep(p, st[key], e)
     IN /\ st' = [st EXCEPT ![key] = r.st]
        /\ inp' = Append(inp, e)
        /\ outs' = Append(outs, [j \in 1..Len(r.out) |-> Res(key, r.out[j].g, r.out[j].ts)])
  /\ live' = live \cup {key} /\ cnt' = cnt + 1 /\ nid' = nid + 1
  /\ UNCHANGED <<p, it, nw, done>>

Control(e) ==
  /\ inp' = Append(inp, e)
  /\ outs' = Append(outs, CtrlOuts(SortedSeq(live), e))
  /\ st' = [k \in KEYS |-> IF k \in live THEN CountStep(p, st[k], e).st ELSE st[k]]
  /\ UNCHANGED <<p, live, nid>>

(* a watermark above every timestamp fed so far (and below the next one), after a data element *)
Wm ==
  /\ ~done /\ it < ITERS /\ p.timed /\ nw < MAXW
  /\ inp # <<>> /\ IsData(inp[Len(inp)])
  /\ Control(El("W", 0, 0, 2 * nid - 1, 0, 0, 0))
  /\ nw' = nw + 1 /\ UNCHANGED <<it, cnt, done>>

EndIter ==
  /\ ~done /\ it < ITERS
  /\ Control(El("R", 0, 0, 0, 0, 0, 0))
  /\ it' = it + 1 /\ cnt' = 0 /\ nw' = 0 /\ UNCHANGED done

Term ==
  /\ ~done /\ it = ITERS
  /\ Control(El("X", 0, 0, 0, 0, 0, 0))
  /\ done' = TRUE /\ UNCHANGED <<it, cnt, nw>>

Next == (\E key \in KEYS : Feed(key)) \/ Wm \/ EndIter \/ Term
Spec == Init /\ [][Next]_vars

---------------------------------------------------------------------------
Viol == CountViol(p, inp, outs)
Only(kind) == {v \in Viol : v.kind = kind}
C12_Content  == Only("count_group_content") = {}
C12_Position == Only("count_group_position") = {}
C12_EndFlush == Only("count_end_flush") = {}
C12_Mixed    == Only("count_mixed_keys") = {}
(* C06 at the operator output: fails on the code as written for timed inputs with a watermark (F5) *)
C06_LateResult == LateResultViol(inp, outs) = {}
(* the predicates are monotone in the history (a violation of a prefix stays one), every behaviour
   can be completed within the bounds: judging the complete behaviours judges all prefixes *)
C12_All == done => LET v == Viol IN IF v = {} THEN TRUE ELSE PrintT(<<"MODELVIOL", v>>) /\ FALSE

TypeOK == \A k \in KEYS : Len(st[k]) <= (p.n + p.s - 1) \div p.s

EmitReplay == done => PrintT(<<"REPLAY", ToJson([kind |-> "count",
                  p |-> [n |-> p.n, s |-> p.s, exact |-> p.exact], input |-> inp, outm |-> outs])>>)
=============================================================================
