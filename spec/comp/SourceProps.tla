---------------------------- MODULE SourceProps ----------------------------
(***************************************************************************)
(* C15 "parallel sources split their input exactly once across replicas",  *)
(* written from the property text only, as pure operators over             *)
(*   (description of the input, what every replica emitted).               *)
(* Used as invariants of comp/FileSplit, CsvSplit, RangeSplit and, on the  *)
(* outputs of the REAL sources, by trace/SourceCheck.tla.                  *)
(*                                                                         *)
(* A file is a sequence of byte codes; a line is a sequence of byte codes; *)
(* `outs` is a sequence (one entry per replica) of sequences of lines /    *)
(* records / integers in emission order.  Every operator returns the SET   *)
(* of violated predicate kinds:                                            *)
(*   line_lost line_dup line_partial header_emitted                        *)
(*   range_overlap range_gap range_extra range_not_empty range_panic       *)
(*   source_order source_replicas source_panic                             *)
(*                                                                         *)
(* Weakest reading of the text:                                            *)
(*  - a line is what lies between two '\n' (the last one may lack its      *)
(*    '\n'); whether a source hands the terminator ('\n' or '\r\n') on is  *)
(*    not the property's business: lines are compared without it;          *)
(*  - a CSV record is a non-empty line (the csv format has no empty        *)
(*    records); the header is the first record; if the file starts with an *)
(*    empty line the text does not say whether that line or the first      *)
(*    record is "the header": either reading is accepted;                  *)
(*  - an empty or reversed range must yield nothing and nothing else is    *)
(*    asked of it; a proper range must be tiled: no value twice (overlap), *)
(*    none missing (gap), none outside (extra).                            *)
(***************************************************************************)
EXTENDS Naturals, Integers, Sequences, FiniteSets

NL == 10
CR == 13

SMax(a, b) == IF a >= b THEN a ELSE b
SMin(a, b) == IF a <= b THEN a ELSE b

RECURSIVE FlatFrom(_, _)
FlatFrom(ss, i) == IF i > Len(ss) THEN <<>> ELSE ss[i] \o FlatFrom(ss, i + 1)
(* everything emitted, replica after replica *)
Flat(outs) == FlatFrom(outs, 1)

Count(x, s) == Cardinality({i \in DOMAIN s : s[i] = x})

---------------------------------------------------------------------------
(* text *)

RECURSIVE SplitFrom(_, _, _)
SplitFrom(b, i, cur) ==
  IF i > Len(b) THEN (IF cur = <<>> THEN <<>> ELSE <<cur>>)
  ELSE IF b[i] = NL THEN <<Append(cur, NL)>> \o SplitFrom(b, i + 1, <<>>)
  ELSE SplitFrom(b, i + 1, Append(cur, b[i]))
(* the lines of a file, each with its '\n' when it has one *)
Lines(b) == SplitFrom(b, 1, <<>>)

(* a line without its terminator ('\n' or '\r\n') *)
Chomp(l) ==
  LET a == IF Len(l) > 0 /\ l[Len(l)] = NL THEN SubSeq(l, 1, Len(l) - 1) ELSE l
  IN IF Len(a) > 0 /\ a[Len(a)] = CR THEN SubSeq(a, 1, Len(a) - 1) ELSE a
Content(ls) == [i \in DOMAIN ls |-> Chomp(ls[i])]

(* expected / emitted: sequences of terminator-free lines; hdr: content of the header or <<>> *)
TextKinds(expected, emitted, hdr) ==
  LET isHdr(e) == hdr # <<>> /\ e = hdr /\ Count(e, expected) = 0
  IN (IF \E i \in DOMAIN emitted : Count(emitted[i], expected) = 0 /\ ~isHdr(emitted[i])
      THEN {"line_partial"} ELSE {})
     \cup (IF \E i \in DOMAIN emitted : isHdr(emitted[i]) THEN {"header_emitted"} ELSE {})
     \cup (IF \E i \in DOMAIN expected : Count(expected[i], emitted) > Count(expected[i], expected)
           THEN {"line_dup"} ELSE {})
     \cup (IF \E i \in DOMAIN expected : Count(expected[i], emitted) < Count(expected[i], expected)
           THEN {"line_lost"} ELSE {})

(* line-based file source *)
FileKinds(bytes, outs) == TextKinds(Content(Lines(bytes)), Content(Flat(outs)), <<>>)

(* CSV source *)
NonEmptyLines(ls) == SelectSeq(ls, LAMBDA l : l # <<>>)
Records(bytes) == NonEmptyLines(Content(Lines(bytes)))
(* reading "record": the header is the first record *)
CsvKindsRecord(bytes, outs) ==
  LET r == Records(bytes)
  IN IF r = <<>> THEN TextKinds(<<>>, Content(Flat(outs)), <<>>)
     ELSE TextKinds(Tail(r), Content(Flat(outs)), Head(r))
(* reading "line": the header is the first line, even an empty one *)
CsvKindsLine(bytes, outs) ==
  LET l == Content(Lines(bytes))
  IN IF l = <<>> THEN TextKinds(<<>>, Content(Flat(outs)), <<>>)
     ELSE TextKinds(NonEmptyLines(Tail(l)), Content(Flat(outs)), Head(l))
HeaderAmbiguous(bytes) == LET l == Content(Lines(bytes)) IN l # <<>> /\ Head(l) = <<>>
CsvKinds(bytes, header, outs) ==
  IF ~header THEN TextKinds(Records(bytes), Content(Flat(outs)), <<>>)
  ELSE LET a == CsvKindsRecord(bytes, outs)
       IN IF a = {} \/ ~HeaderAmbiguous(bytes) THEN a
          ELSE IF CsvKindsLine(bytes, outs) = {} THEN {} ELSE a

---------------------------------------------------------------------------
(* integer ranges lo..hi (hi excluded) *)

RangeClass(lo, hi) == IF lo < hi THEN "proper" ELSE IF lo = hi THEN "empty" ELSE "reversed"

(* subs: one entry per replica, <<start, end>> (end excluded; start >= end is empty) or <<>> when *)
(* the call panicked.  Only comparisons between values are used, so the verdict does not change  *)
(* under a strictly increasing re-encoding of the values.                                        *)
RangeKindsIv(lo, hi, subs) ==
  LET I == {i \in DOMAIN subs : Len(subs[i]) = 2 /\ subs[i][1] < subs[i][2]}
      In(x, i) == subs[i][1] <= x /\ x < subs[i][2]
      (* some value of lo..hi-1 is in no sub-range  <=>  lo or the end of some sub-range is *)
      cand == {lo} \cup {subs[i][2] : i \in I}
  IN (IF \E i \in DOMAIN subs : Len(subs[i]) # 2 THEN {"range_panic"} ELSE {})
     \cup
     (IF lo >= hi THEN (IF I # {} THEN {"range_not_empty"} ELSE {})
      ELSE (IF \E i, j \in I : i # j /\ SMax(subs[i][1], subs[j][1]) < SMin(subs[i][2], subs[j][2])
            THEN {"range_overlap"} ELSE {})
           \cup (IF \E c \in cand : lo <= c /\ c < hi /\ ~\E i \in I : In(c, i)
                 THEN {"range_gap"} ELSE {})
           \cup (IF \E i \in I : subs[i][1] < lo \/ subs[i][2] > hi THEN {"range_extra"} ELSE {}))

(* outs: the elements every replica emitted *)
RangeKindsSeq(lo, hi, outs) ==
  LET all == Flat(outs)
      S   == {all[i] : i \in DOMAIN all}
  IN IF lo >= hi THEN (IF all # <<>> THEN {"range_not_empty"} ELSE {})
     ELSE (IF Cardinality(S) < Len(all) THEN {"range_overlap"} ELSE {})
          \cup (IF \E x \in lo..(hi - 1) : x \notin S THEN {"range_gap"} ELSE {})
          \cup (IF \E x \in S : x < lo \/ x >= hi THEN {"range_extra"} ELSE {})

---------------------------------------------------------------------------
(* non-parallel sources: every item exactly once, in order, on a single replica.              *)
(* setups: the replicas of the source block that were set up, as <<global id, #replicas>>.     *)
SeqKinds(items, outs, setups) ==
  (IF Cardinality({g \in DOMAIN outs : outs[g] # <<>>}) > 1
      \/ Len(setups) # 1 \/ (Len(setups) >= 1 /\ setups[1][2] # 1)
   THEN {"source_replicas"} ELSE {})
  \cup (IF Flat(outs) # items THEN {"source_order"} ELSE {})
=============================================================================
