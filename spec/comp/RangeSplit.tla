----------------------------- MODULE RangeSplit -----------------------------
(***************************************************************************)
(* IntoParallelSource::generate_iterator for integer ranges                *)
(* (src/operator/source/parallel_iterator.rs), the two bodies as coded,    *)
(* parametrised by the limits of the value type T = TMIN..TMAX and of the  *)
(* computation type C = CMIN..CMAX (i64 for body B, u64 itself for A).     *)
(* Arithmetic as compiled with overflow checks on (dev profile, what the   *)
(* suite and the harness use): `-` and `*` panic on overflow,              *)
(* saturating_add / saturating_sub clamp, `/` truncates towards zero,      *)
(* `as i64` wraps, `try_into().unwrap()` panics outside the target type.   *)
(*                                                                         *)
(* Body A (Range<u64>):                                                    *)
(*   n = end.saturating_sub(start)             [FIX_REVERSED, 09da878;     *)
(*                                  before: end - start, panics if < 0]    *)
(*   chunk = n.saturating_add(peers-1) / peers                             *)
(*   s = start.saturating_add(index * chunk)                               *)
(*   e = s.saturating_add(chunk).min(end).max(start)                       *)
(* Body B (macro: u8 u16 u32 usize i8 i16 i32 i64 isize), in i64:          *)
(*   n = (end as i64).saturating_sub(start as i64).max(0)                  *)
(*                                 [FIX_REVERSED; before: plain `-`, so a  *)
(*                                  reversed range had a negative chunk]   *)
(*   chunk = n.saturating_add(peers-1) / peers                             *)
(*   s = (start as i64).saturating_add(index * chunk)                      *)
(*         .min((end as i64).max(start as i64))                            *)
(*                                 [FIX_CLAMP_START, 663b135; before: no   *)
(*                                  clamp, s could exceed T::MAX]          *)
(*   e = s.saturating_add(chunk).min(end as i64).max(start as i64)         *)
(*   (s.try_into().unwrap(), e.try_into().unwrap())                        *)
(* The result is the Range s..e (empty when s >= e); <<>> stands for a     *)
(* panic.                                                                  *)
(*                                                                         *)
(* FIX_REVERSED / FIX_CLAMP_START select the arithmetic after / before the *)
(* two fixes.  The main configurations follow the current code (TRUE,      *)
(* TRUE) and judge EVERY range, reversed and near-limit ones included.     *)
(* `mc/RangeSplit_finding_reversed*.cfg` and `..._finding_nearmax.cfg`     *)
(* keep the old arithmetic as regression documentation: they must still    *)
(* produce the counterexamples of the fixed findings F1 and F1-nearmax.    *)
(*                                                                         *)
(* One deviation of the current code from C15 remains (open finding        *)
(* F1-usize): T wider than C above CMAX (usize above i64::MAX): `as i64`   *)
(* wraps to negative values and try_into panics.  The main usize           *)
(* configuration excludes bounds above CMAX (WRAPPED = FALSE);             *)
(* `mc/RangeSplit_finding_usize.cfg` must keep failing.                    *)
(*                                                                         *)
(* The wrapper enumerates every pair of bounds in BLO..BHI (of at most     *)
(* MAXELEMS elements, the scaled "2^62") and splits it for every number of *)
(* peers 1..MAXPEERS.                                                      *)
(***************************************************************************)
EXTENDS Naturals, Integers, Sequences, FiniteSets, TLC, Json, SourceProps

CONSTANTS BODY,               \* "A" | "B"
          TNEG, TMAX,         \* value type -TNEG..TMAX (TLC configs cannot hold negative numbers)
          CNEG, CMAX,         \* computation type -CNEG..CMAX
          BNEG, BHI,          \* bounds enumerated -BNEG..BHI
          MAXELEMS,           \* hi - lo <= MAXELEMS
          MAXPEERS,
          FIX_REVERSED,       \* TRUE: n is clamped at 0 (commit 09da878)
          FIX_CLAMP_START,    \* TRUE: body B clamps the chunk start to max(end, start) (663b135)
          WRAPPED             \* include bounds above CMAX (open finding F1-usize)

VARIABLES lo, hi, phase, out   \* out[p][i+1] = sub-range of index i of p peers
vars == <<lo, hi, phase, out>>

TMIN == 0 - TNEG
CMIN == 0 - CNEG
BLO  == 0 - BNEG
PANIC == <<>>

InC(v) == CMIN <= v /\ v <= CMAX
InT(v) == TMIN <= v /\ v <= TMAX
Clamp(v) == IF v > CMAX THEN CMAX ELSE IF v < CMIN THEN CMIN ELSE v
SatAdd(a, b) == Clamp(a + b)
SatSub(a, b) == Clamp(a - b)
TruncDiv(a, b) == IF a >= 0 THEN a \div b ELSE -((-a) \div b)
AsC(v) == IF v > CMAX THEN v - (CMAX - CMIN + 1) ELSE v       \* `as i64`

(* the rest of body A once n is known *)
RestA(l, h, n, idx, peers) ==
  LET chunk == SatAdd(n, peers - 1) \div peers
      prod  == idx * chunk
  IN IF ~InC(prod) THEN PANIC
     ELSE LET s == SatAdd(l, prod)
              e == SMax(SMin(SatAdd(s, chunk), h), l)
          IN <<s, e>>

SubA(l, h, idx, peers) ==
  IF FIX_REVERSED THEN RestA(l, h, SatSub(h, l), idx, peers)      \* CMIN = 0: clamps at 0
  ELSE IF h - l < 0 THEN PANIC ELSE RestA(l, h, h - l, idx, peers)

(* the rest of body B once n is known; s0, e0 are the bounds `as i64` *)
RestB(s0, e0, n, idx, peers) ==
  LET chunk == TruncDiv(SatAdd(n, peers - 1), peers)
      prod  == idx * chunk
  IN IF ~InC(prod) THEN PANIC
     ELSE LET raw == SatAdd(s0, prod)
              s   == IF FIX_CLAMP_START THEN SMin(raw, SMax(e0, s0)) ELSE raw
              e   == SMax(SMin(SatAdd(s, chunk), e0), s0)
          IN IF InT(s) /\ InT(e) THEN <<s, e>> ELSE PANIC

SubB(l, h, idx, peers) ==
  LET s0 == AsC(l)
      e0 == AsC(h)
  IN IF FIX_REVERSED THEN RestB(s0, e0, SMax(SatSub(e0, s0), 0), idx, peers)
     ELSE IF ~InC(e0 - s0) THEN PANIC ELSE RestB(s0, e0, e0 - s0, idx, peers)

SubRange(l, h, idx, peers) == IF BODY = "A" THEN SubA(l, h, idx, peers) ELSE SubB(l, h, idx, peers)
RangeOut(l, h, p) == [i \in 1..p |-> SubRange(l, h, i - 1, p)]

---------------------------------------------------------------------------
IsWrapped(l, h) == l > CMAX \/ h > CMAX

Admitted(l, h) ==
  /\ InT(l) /\ InT(h)
  /\ h - l <= MAXELEMS
  /\ (WRAPPED \/ ~IsWrapped(l, h))

Init == lo = 0 /\ hi = 0 /\ phase = "pick" /\ out = <<>>
Pick == /\ phase = "pick"
        /\ \E l, h \in BLO..BHI : Admitted(l, h) /\ lo' = l /\ hi' = h
        /\ phase' = "picked"
        /\ UNCHANGED out
Split == /\ phase = "picked"
         /\ phase' = "done"
         /\ out' = [p \in 1..MAXPEERS |-> RangeOut(lo, hi, p)]
         /\ UNCHANGED <<lo, hi>>
Next == Pick \/ Split
Spec == Init /\ [][Next]_vars

---------------------------------------------------------------------------
KindsOf(p) == RangeKindsIv(lo, hi, out[p])
C15_Range == phase = "done" => \A p \in 1..MAXPEERS : KindsOf(p) = {}

EmitReplay == phase = "done" =>
  PrintT(<<"REPLAY", ToJson([kind |-> "range", body |-> BODY, lo |-> lo, hi |-> hi, exp |-> out])>>)
=============================================================================
