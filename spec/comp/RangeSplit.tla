----------------------------- MODULE RangeSplit -----------------------------
(***************************************************************************)
(* IntoParallelSource::generate_iterator for integer ranges                *)
(* (src/operator/source/parallel_iterator.rs), the two bodies as coded,    *)
(* parametrised by the limits of the value type T = TMIN..TMAX and of the  *)
(* computation type C = CMIN..CMAX (i64 for body B, u64 itself for A).     *)
(* Arithmetic as compiled with overflow checks on (dev profile, what the   *)
(* suite and the harness use): `-` and `*` panic on overflow,              *)
(* saturating_add clamps, `/` truncates towards zero, `as i64` wraps,      *)
(* `try_into().unwrap()` panics outside the target type.                   *)
(*                                                                         *)
(* Body A (Range<u64>):                                                    *)
(*   n = end - start                          -- panics when end < start   *)
(*   chunk = n.saturating_add(peers-1) / peers                             *)
(*   s = start.saturating_add(index * chunk)                               *)
(*   e = s.saturating_add(chunk).min(end).max(start)                       *)
(* Body B (macro: u8 u16 u32 usize i8 i16 i32 i64 isize), in i64:          *)
(*   n = end as i64 - start as i64                                         *)
(*   chunk = n.saturating_add(peers-1) / peers   -- negative for reversed  *)
(*   s = (start as i64).saturating_add(index * chunk)                      *)
(*   e = s.saturating_add(chunk).min(end as i64).max(start as i64)         *)
(*   (s.try_into().unwrap(), e.try_into().unwrap())                        *)
(* The result is the Range s..e (empty when s >= e); <<>> stands for a     *)
(* panic.                                                                  *)
(*                                                                         *)
(* Deviations of the code from C15 that the model reproduces (each has a   *)
(* `*_finding_*.cfg` that must keep failing, and is excluded from the      *)
(* main configs by the constants REVERSED / NEARMAX / WRAPPED):            *)
(*   reversed  lo > hi: body B yields the tail of hi..lo for some replicas *)
(*             (chunk < 0), body A panics (subtract with overflow);        *)
(*   nearmax   T narrower than C: lo + index*chunk may exceed TMAX for the *)
(*             last replicas, try_into panics;                             *)
(*   wrapped   T wider than C above CMAX (usize above i64::MAX): `as i64`  *)
(*             wraps to negative values, try_into (or the subtraction)     *)
(*             panics.                                                     *)
(*                                                                         *)
(* The wrapper enumerates every pair of bounds in BLO..BHI (of at most     *)
(* MAXELEMS elements, the scaled "2^62") and splits it for every number of *)
(* peers 1..MAXPEERS.                                                      *)
(***************************************************************************)
EXTENDS Naturals, Integers, Sequences, FiniteSets, TLC, Json, SourceProps

CONSTANTS BODY,               \* "A" | "B"
          TNEG, TMAX,         \* value type -TNEG..TMAX (TLC configs cannot hold negative numbers)
          CNEG, CMAX,         \* computation type -CNEG..CMAX
          BNEG, BHI,          \* bounds enumerated -BNEG..BHI
          MAXELEMS,           \* hi - lo <= MAXELEMS
          MAXPEERS,
          REVERSED,           \* include lo > hi
          NEARMAX,            \* judge also (range, peers) whose chunks overshoot TMAX
          WRAPPED             \* include bounds above CMAX

VARIABLES lo, hi, phase, out   \* out[p][i+1] = sub-range of index i of p peers
vars == <<lo, hi, phase, out>>

TMIN == 0 - TNEG
CMIN == 0 - CNEG
BLO  == 0 - BNEG
PANIC == <<>>

InC(v) == CMIN <= v /\ v <= CMAX
InT(v) == TMIN <= v /\ v <= TMAX
SatAdd(a, b) == IF a + b > CMAX THEN CMAX ELSE IF a + b < CMIN THEN CMIN ELSE a + b
TruncDiv(a, b) == IF a >= 0 THEN a \div b ELSE -((-a) \div b)
AsC(v) == IF v > CMAX THEN v - (CMAX - CMIN + 1) ELSE v       \* `as i64`
CeilDiv(a, b) == (a + b - 1) \div b

SubA(l, h, idx, peers) ==
  LET n == h - l
  IN IF n < 0 THEN PANIC
     ELSE LET chunk == SatAdd(n, peers - 1) \div peers
              prod  == idx * chunk
          IN IF ~InC(prod) THEN PANIC
             ELSE LET s == SatAdd(l, prod)
                      e == SMax(SMin(SatAdd(s, chunk), h), l)
                  IN <<s, e>>

SubB(l, h, idx, peers) ==
  LET s0 == AsC(l)
      e0 == AsC(h)
      n  == e0 - s0
  IN IF ~InC(n) THEN PANIC
     ELSE LET chunk == TruncDiv(SatAdd(n, peers - 1), peers)
              prod  == idx * chunk
          IN IF ~InC(prod) THEN PANIC
             ELSE LET s == SatAdd(s0, prod)
                      e == SMax(SMin(SatAdd(s, chunk), e0), s0)
                  IN IF InT(s) /\ InT(e) THEN <<s, e>> ELSE PANIC

SubRange(l, h, idx, peers) == IF BODY = "A" THEN SubA(l, h, idx, peers) ELSE SubB(l, h, idx, peers)
RangeOut(l, h, p) == [i \in 1..p |-> SubRange(l, h, i - 1, p)]

---------------------------------------------------------------------------
(* input classes of the three deviations *)
IsReversed(l, h) == l > h
IsNearMax(l, h, p) == l < h /\ l + (p - 1) * CeilDiv(h - l, p) > TMAX
IsWrapped(l, h) == l > CMAX \/ h > CMAX

Admitted(l, h) ==
  /\ InT(l) /\ InT(h)
  /\ h - l <= MAXELEMS
  /\ (REVERSED \/ ~IsReversed(l, h))
  /\ (WRAPPED \/ ~IsWrapped(l, h))

Init == lo = 0 /\ hi = 0 /\ phase = "pick" /\ out = <<>>
Pick == /\ phase = "pick"
        /\ \E l, h \in BLO..BHI : Admitted(l, h) /\ lo' = l /\ hi' = h
        /\ phase' = "picked"
        /\ UNCHANGED out
Split == /\ phase = "picked"
         /\ phase' = "done"
         /\ out' = [p \in 1..MAXPEERS |-> RangeOut(lo, hi, p)]
         /\ UNCHANGED <<lo, hi>>
Next == Pick \/ Split
Spec == Init /\ [][Next]_vars

---------------------------------------------------------------------------
KindsOf(p) == RangeKindsIv(lo, hi, out[p])
C15_Range == phase = "done" =>
  \A p \in 1..MAXPEERS : (NEARMAX \/ ~IsNearMax(lo, hi, p)) => KindsOf(p) = {}

EmitReplay == phase = "done" =>
  PrintT(<<"REPLAY", ToJson([kind |-> "range", body |-> BODY, lo |-> lo, hi |-> hi, exp |-> out])>>)
=============================================================================
