------------------------------- MODULE Start -------------------------------
(***************************************************************************)
(* The input side of a block: `Start` (src/operator/start/mod.rs) fed by   *)
(* N upstream replicas through one endpoint, with its watermark frontier   *)
(* (src/operator/start/watermark_frontier.rs).                             *)
(*                                                                         *)
(* One action = one element of one upstream replica arrives and is         *)
(* processed (links carry batches; a batch is processed element by element *)
(* without interleaving, so element granularity covers every batching).    *)
(* The senders are modelled by their local protocol state only: each emits *)
(* ITERS iterations of (data | watermark)* FlushAndRestart, then           *)
(* Terminate, and respects the watermark contract on its own output.       *)
(*                                                                         *)
(* The model follows the code, including what the code knowingly does:     *)
(*  - the value returned by frontier.update(sender, MAX) when a sender's   *)
(*    FlushAndRestart is consumed is discarded (start/mod.rs, finding F6); *)
(*  - FlushBatch of a receive timeout is not modelled here (it is erased   *)
(*    by the grammar monitor and carries no content).                      *)
(*                                                                         *)
(* The properties are stated over the interleaved history h of inputs and  *)
(* outputs only (C05, C06, C17), from the text of properties.jsonl.        *)
(***************************************************************************)
EXTENDS Naturals, Integers, Sequences, FiniteSets, TLC, Elem, Json, StartProps, StartCore

CONSTANTS N,        \* number of upstream replicas
          ITERS,    \* iterations every replica goes through
          MAXD,     \* max data elements per replica per iteration
          MAXW,     \* max watermarks per replica per iteration
          TMAX,     \* timestamps are 1..TMAX
          TIMED,    \* TRUE: timestamped data + watermarks; FALSE: plain items only
          SYNC      \* TRUE: upstream replicas are round-synchronised (see CanSend)

Senders == 1..N
INF  == 1000      \* Timestamp::MAX stand-in (larger than every timestamp)

VARIABLES
  (* senders *)
  sIter,     \* sIter[p]: iterations completed by sender p
  sData,     \* data elements sent in the current iteration
  sWm,       \* watermarks sent in the current iteration
  sLastW,    \* last watermark sent in the current iteration (NONE)
  sDone,     \* Terminate sent
  (* Start *)
  missR,     \* missing_flush_and_restart
  missX,     \* missing_terminate
  wm,        \* watermark_frontier.map
  front,     \* watermark_frontier.front
  (* observation *)
  h,         \* interleaved history: [d |-> "in", p, el] and [d |-> "out", el]
  mon        \* property monitors of StartProps.tla (they never stop the run)

svars == <<sIter, sData, sWm, sLastW, sDone>>
tvars == <<missR, missX, wm, front>>
ovars == <<mon>>
vars == <<svars, tvars, h, ovars>>

---------------------------------------------------------------------------
(* WatermarkFrontier: the functions of comp/StartCore.tla (the same ones trace/StartConform.tla replays *)
(* real replicas through); NONE = StartCore!NOTS                                                       *)
Frontier(w) == FrontierOf(w)
Update(w, f, p, t) == UpdateW(w, f, p, t)

---------------------------------------------------------------------------
(***************************************************************************)
(* Environment assumption.  Iterations after the first exist only inside   *)
(* loops, where the leader starts round i+1 only after every IterationEnd  *)
(* replica has seen the end of round i, i.e. after every block of the body *)
(* (this Start included) has emitted the i-th FlushAndRestart.  So an      *)
(* upstream replica sends elements of its iteration i+1 only after this    *)
(* Start emitted i FlushAndRestart.  Start relies on it: it counts the     *)
(* FlushAndRestart it receives without remembering who sent them (with     *)
(* SYNC = FALSE the model check shows two markers of ONE replica ending an *)
(* iteration: mc/Start_unsync.cfg).                                        *)
(***************************************************************************)
CanSend(p) == ~sDone[p] /\ (SYNC => sIter[p] <= mon.ro)

---------------------------------------------------------------------------
Init ==
  /\ sIter = [p \in Senders |-> 0] /\ sData = [p \in Senders |-> 0]
  /\ sWm = [p \in Senders |-> 0] /\ sLastW = [p \in Senders |-> NONE]
  /\ sDone = [p \in Senders |-> FALSE]
  /\ missR = N /\ missX = N
  /\ wm = [p \in Senders |-> NONE] /\ front = NONE
  /\ h = <<>> /\ mon = MonInit(Senders)

(* Start consumes element e of sender p and emits outs (a sequence).  *)
Consume(p, e, outs) ==
  /\ h' = h \o <<[d |-> "in", p |-> p, el |-> e]>>
            \o [i \in 1..Len(outs) |-> [d |-> "out", p |-> 0, el |-> outs[i]]]
  /\ mon' = MonOuts(MonIn(mon, p, e), outs, 1)

(* ---- sender p sends a data element; Start forwards it unchanged *)
SendData(p) ==
  /\ CanSend(p) /\ sIter[p] < ITERS /\ sData[p] < MAXD
  /\ \E t \in (IF TIMED THEN {x \in 1..TMAX : sLastW[p] = NONE \/ x > sLastW[p]} ELSE {0}) :
       LET e == IF TIMED THEN TItem(p * 10 + sData[p], t) ELSE Item(p * 10 + sData[p]) IN
       /\ sData' = [sData EXCEPT ![p] = @ + 1]
       /\ UNCHANGED <<sIter, sWm, sLastW, sDone, tvars>>
       /\ Consume(p, e, <<e>>)

(* ---- sender p sends a watermark; Start updates the frontier *)
SendWm(p) ==
  /\ TIMED /\ CanSend(p) /\ sIter[p] < ITERS /\ sWm[p] < MAXW
  /\ \E t \in {x \in 1..TMAX : sLastW[p] = NONE \/ x > sLastW[p]} :
       LET u == Update(wm, front, p, t) IN
       /\ sWm' = [sWm EXCEPT ![p] = @ + 1] /\ sLastW' = [sLastW EXCEPT ![p] = t]
       /\ wm' = u.w /\ front' = u.f
       /\ UNCHANGED <<sIter, sData, sDone, missR, missX>>
       /\ Consume(p, WM(t), IF u.emit = NONE THEN <<>> ELSE <<WM(u.emit)>>)

(* ---- sender p ends its iteration.  As coded: the frontier is updated with MAX and the value *)
(* returned by update() is DROPPED; when this was the last missing one the iteration ends.     *)
SendRestart(p) ==
  /\ CanSend(p) /\ sIter[p] < ITERS
  /\ LET u == IF TIMED THEN Update(wm, front, p, INF) ELSE [w |-> wm, f |-> front, emit |-> NONE]
         last == missR = 1
     IN /\ sIter' = [sIter EXCEPT ![p] = @ + 1]
        /\ sData' = [sData EXCEPT ![p] = 0] /\ sWm' = [sWm EXCEPT ![p] = 0]
        /\ sLastW' = [sLastW EXCEPT ![p] = NONE]
        /\ missR' = IF last THEN N ELSE missR - 1
        /\ wm' = IF last THEN [q \in Senders |-> NONE] ELSE u.w
        /\ front' = IF last THEN NONE ELSE u.f
        /\ UNCHANGED <<sDone, missX>>
        /\ Consume(p, Restart, IF last THEN <<Restart>> ELSE <<>>)

(* ---- sender p terminates *)
SendTerminate(p) ==
  /\ CanSend(p) /\ sIter[p] = ITERS
  /\ sDone' = [sDone EXCEPT ![p] = TRUE]
  /\ missX' = missX - 1
  /\ UNCHANGED <<sIter, sData, sWm, sLastW, missR, wm, front>>
  /\ Consume(p, Terminate, IF missX = 1 THEN <<Terminate>> ELSE <<>>)

Next == \E p \in Senders : SendData(p) \/ SendWm(p) \/ SendRestart(p) \/ SendTerminate(p)

Spec == Init /\ [][Next]_vars

Done == \A p \in Senders : sDone[p]

---------------------------------------------------------------------------
(* Invariants *)
TypeOK == missR \in 1..N /\ missX \in 0..N

C05_Grammar   == "grammar" \notin mon.b
C05_Restart   == "restart_before_upstream" \notin mon.b
C05_Complete  == Done => mon.g = "done"
C06_Safety    == "late_element" \notin mon.b /\ "watermark_not_increasing" \notin mon.b
C17_Watermark == "watermark_withheld:watermark" \notin mon.b
C17_Ended     == "watermark_withheld:replica_ended" \notin mon.b   \* fails on the code as written: F6

(* hide the history in exhaustive runs: every invariant above reads monitor variables only *)
View == <<svars, tvars, ovars>>

(* behaviour generation: one JSON line per complete behaviour *)
EmitReplay == Done => PrintT(<<"REPLAY", ToJson([n |-> N, timed |-> TIMED, h |-> h, bad |-> mon.b])>>)
=============================================================================
