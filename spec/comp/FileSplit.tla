----------------------------- MODULE FileSplit -----------------------------
(***************************************************************************)
(* FileSource (src/operator/source/file.rs): how the replicas of the       *)
(* line-based file source share one file.  Pure transcription of           *)
(*   setup():  range_size = file_size / instances (integer division),      *)
(*             start = range_size * global_id, end = start + range_size,   *)
(*             the LAST replica's end = file_size; every replica but 0     *)
(*             seeks to start and discards up to and including the next    *)
(*             '\n' (`current += read_until(b'\n')`);                       *)
(*   next():   while current <= end: read_line (through '\n' or to EOF),   *)
(*             0 bytes read = end of file; the line is emitted WITH its    *)
(*             terminator; current += len.                                  *)
(* So a line is owned by the replica whose (start, end] contains the       *)
(* offset of its first byte (replica 0: [0, end]).  '\r' is ordinary        *)
(* content for this source.                                                *)
(*                                                                         *)
(* The wrapper builds, one token per step, EVERY file over the tokens      *)
(* x | LF of at most MAXLEN bytes and EVERY file over x | LF | CRLF of at  *)
(* most CRLFLEN bytes (one run enumerates both spaces; their number is     *)
(* F(MAXLEN) + G(CRLFLEN) - F(CRLFLEN) with F(n) = 2^(n+1) - 1 and         *)
(* G(n) = sum of a(k), a(k) = 2a(k-1) + a(k-2)), and then splits it for    *)
(* every replica count 1..MAXREP.  A content                               *)
(* byte at position i is materialised as the letter 96+i, so that every    *)
(* non-empty line of a file is unique (the split only looks at '\n').      *)
(***************************************************************************)
EXTENDS Naturals, Integers, Sequences, FiniteSets, TLC, Json, SourceProps

CONSTANTS MAXLEN,   \* maximal size in bytes of a file without "\r\n"
          MAXREP,   \* replica counts 1..MAXREP
          CRLFLEN   \* maximal size of a file that contains the token "\r\n" (0: no such file)

X == 120   \* abstract content byte

VARIABLES file,     \* abstract file: sequence over {X, NL, CR}
          phase,    \* "build" | "done"
          out       \* out[n][g+1]: lines emitted by replica g of n (as byte sequences)
vars == <<file, phase, out>>

(* the file as written to disk *)
Bytes(f) == [i \in DOMAIN f |-> IF f[i] = X THEN 96 + i ELSE f[i]]

---------------------------------------------------------------------------
(* BufRead::read_until(b'\n') at 0-based offset pos: number of bytes consumed *)
ReadUntilNL(b, pos) ==
  LET S == {i \in (pos + 1)..Len(b) : b[i] = NL}
  IN IF pos >= Len(b) THEN 0
     ELSE IF S = {} THEN Len(b) - pos
     ELSE (CHOOSE i \in S : \A j \in S : i <= j) - pos

FileSetup(b, n, g) ==
  LET size  == Len(b)
      rs    == size \div n
      start == rs * g
      end   == IF g = n - 1 THEN size ELSE start + rs
      cur   == IF g # 0 THEN start + ReadUntilNL(b, start) ELSE start
  IN [cur |-> cur, end |-> end]

RECURSIVE FileRead(_, _, _)
FileRead(b, cur, end) ==
  IF cur <= end
  THEN LET len == ReadUntilNL(b, cur)
       IN IF len > 0 THEN <<SubSeq(b, cur + 1, cur + len)>> \o FileRead(b, cur + len, end)
          ELSE <<>>
  ELSE <<>>

(* what replica g of n emits for the file b *)
FileLines(b, n, g) == LET s == FileSetup(b, n, g) IN FileRead(b, s.cur, s.end)
FileOut(b, n) == [g \in 1..n |-> FileLines(b, n, g - 1)]

---------------------------------------------------------------------------
Init == file = <<>> /\ phase = "build" /\ out = <<>>

HasCR(f) == \E i \in DOMAIN f : f[i] = CR
Room(f) == IF HasCR(f) THEN Len(f) < CRLFLEN ELSE Len(f) < MAXLEN
AppendX == phase = "build" /\ Room(file) /\ file' = Append(file, X) /\ UNCHANGED <<phase, out>>
AppendLF == phase = "build" /\ Room(file) /\ file' = Append(file, NL) /\ UNCHANGED <<phase, out>>
AppendCRLF == phase = "build" /\ Len(file) + 2 <= CRLFLEN /\ file' = file \o <<CR, NL>>
              /\ UNCHANGED <<phase, out>>
Split == /\ phase = "build"
         /\ phase' = "done"
         /\ out' = [n \in 1..MAXREP |-> FileOut(Bytes(file), n)]
         /\ UNCHANGED file

Next == AppendX \/ AppendLF \/ AppendCRLF \/ Split
Spec == Init /\ [][Next]_vars

---------------------------------------------------------------------------
(* C15, file part: predicates of SourceProps.tla on the model's own output *)
KindsOf(n) == FileKinds(Bytes(file), out[n])
C15_File == phase = "done" => \A n \in 1..MAXREP : KindsOf(n) = {}
(* every line is emitted whole and with its terminator, in file order, per replica (model sanity) *)
ModelShape == phase = "done" =>
  \A n \in 1..MAXREP : \A g \in 1..n : \A i \in DOMAIN out[n][g] : out[n][g][i] # <<>>

(* behaviour generation: one JSON line per file with the expected lines of every replica count *)
EmitReplay == phase = "done" =>
  PrintT(<<"REPLAY", ToJson([kind |-> "file", bytes |-> Bytes(file), exp |-> out])>>)
=============================================================================
