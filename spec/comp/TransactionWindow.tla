------------------------- MODULE TransactionWindow -------------------------
(***************************************************************************)
(* TransactionWindowManager (src/operator/window/descr/transaction.rs) as  *)
(* coded, driven the way WindowOperator drives it (manager per key,        *)
(* control elements to every existing manager, a manager whose recycle()   *)
(* is true - no open transaction - is dropped after a control element).    *)
(*                                                                         *)
(*   w   Option<Slot>: [open, els, close]  (close = NOTS: no commit time)  *)
(*   Timestamped(x, _): slot = get_or_insert; cmd = logic(x); accumulate;  *)
(*        Commit -> output, w = None; CommitAfter(t) -> close = t;         *)
(*        Discard -> w = None; Continue -> nothing                         *)
(*   Watermark(ts): if close is set and close < ts -> output, w = None     *)
(*   FlushAndRestart | Terminate: if close is set -> output, w = None;     *)
(*        otherwise w = None without output (an undecided transaction ends *)
(*        with its iteration).  (FIX_F7 = FALSE: the code before commit    *)
(*        c2a6168 kept the open transaction - recycle() false, so          *)
(*        WindowOperator kept the manager and the next iteration's         *)
(*        elements joined the old transaction: finding F7, fixed)          *)
(*   results carry no timestamp                                            *)
(*                                                                         *)
(* The user logic is part of the input: every element carries the command  *)
(* the logic returns for it (op, opt).  The wrapper feeds every sequence   *)
(* of at most MAXE elements (each with any command, commit times 0..TMAX)  *)
(* and MAXW increasing watermarks per iteration, including iterations that *)
(* end while a transaction without commit time is open (F7's input class). *)
(***************************************************************************)
EXTENDS Naturals, Integers, Sequences, FiniteSets, TLC, Json, WindowProps

CONSTANTS TMAX, MAXE, MAXW, ITERS, KEYS,
          FIX_F7    \* TRUE: the code as of c2a6168; FALSE: before (regression documentation)

TxInit == [open |-> FALSE, els |-> <<>>, close |-> NOTS]

TxStep(st, e) ==
  CASE e.k = "T" ->
         LET els == Append(IF st.open THEN st.els ELSE <<>>, e.v)
             cl  == IF st.open THEN st.close ELSE NOTS
         IN CASE e.op = 1 -> [st |-> TxInit, out |-> <<[g |-> els, ts |-> NOTS]>>]
              [] e.op = 2 -> [st |-> [open |-> TRUE, els |-> els, close |-> e.opt], out |-> <<>>]
              [] e.op = 3 -> [st |-> TxInit, out |-> <<>>]
              [] OTHER    -> [st |-> [open |-> TRUE, els |-> els, close |-> cl], out |-> <<>>]
    [] e.k = "W" ->
         IF st.open /\ st.close # NOTS /\ st.close < e.ts
         THEN [st |-> TxInit, out |-> <<[g |-> st.els, ts |-> NOTS]>>]
         ELSE [st |-> st, out |-> <<>>]
    [] e.k \in {"R", "X"} ->
         IF st.open /\ st.close # NOTS
         THEN [st |-> TxInit, out |-> <<[g |-> st.els, ts |-> NOTS]>>]
         ELSE [st |-> IF FIX_F7 THEN TxInit ELSE st, out |-> <<>>]
    [] OTHER -> [st |-> st, out |-> <<>>]

TxRecycle(st) == ~st.open

---------------------------------------------------------------------------
VARIABLES live, st, inp, outs, it, cnt, nw, lastw, nid, done
vars == <<live, st, inp, outs, it, cnt, nw, lastw, nid, done>>

Init ==
  /\ live = {} /\ st = [k \in KEYS |-> TxInit]
  /\ inp = <<>> /\ outs = <<>> /\ it = 0 /\ cnt = 0 /\ nw = 0 /\ lastw = NOTS /\ nid = 1
  /\ done = FALSE

RECURSIVE SortedSeq(_)
SortedSeq(S) == IF S = {} THEN <<>> ELSE LET m == MinOf(S) IN <<m>> \o SortedSeq(S \ {m})

RECURSIVE CtrlOuts(_, _)
CtrlOuts(ks, e) ==
  IF ks = <<>> THEN <<>>
  ELSE LET r == TxStep(st[Head(ks)], e)
       IN [j \in 1..Len(r.out) |-> Res(Head(ks), r.out[j].g, r.out[j].ts)] \o CtrlOuts(Tail(ks), e)

(* the element's timestamp plays no role in the manager: the smallest one the contract allows *)
Feed(key, op, opt) ==
  /\ ~done /\ it < ITERS /\ cnt < MAXE
  /\ op = 2 \/ opt = 0
  /\ LET e == El("T", key, nid, lastw + 1, 0, op, opt)
         r == TxStep(st[key], e)
     IN /\ st' = [st EXCEPT ![key] = r.st]
        /\ inp' = Append(inp, e)
        /\ outs' = Append(outs, [j \in 1..Len(r.out) |-> Res(key, r.out[j].g, r.out[j].ts)])
  /\ live' = live \cup {key} /\ cnt' = cnt + 1 /\ nid' = nid + 1
  /\ UNCHANGED <<it, nw, lastw, done>>

Control(e) ==
  LET nst == [k \in KEYS |-> IF k \in live THEN TxStep(st[k], e).st ELSE st[k]] IN
  /\ inp' = Append(inp, e)
  /\ outs' = Append(outs, CtrlOuts(SortedSeq(live), e))
  /\ live' = {k \in live : ~TxRecycle(nst[k])}
  /\ st' = [k \in KEYS |-> IF k \in live /\ ~TxRecycle(nst[k]) THEN nst[k] ELSE TxInit]
  /\ UNCHANGED nid

Wm(w) ==
  /\ ~done /\ it < ITERS /\ nw < MAXW /\ w > lastw
  /\ Control(El("W", 0, 0, w, 0, 0, 0))
  /\ nw' = nw + 1 /\ lastw' = w /\ UNCHANGED <<it, cnt, done>>

EndIter ==
  /\ ~done /\ it < ITERS
  /\ Control(El("R", 0, 0, 0, 0, 0, 0))
  /\ it' = it + 1 /\ cnt' = 0 /\ nw' = 0 /\ lastw' = NOTS /\ UNCHANGED done

Term ==
  /\ ~done /\ it = ITERS
  /\ Control(El("X", 0, 0, 0, 0, 0, 0))
  /\ done' = TRUE /\ UNCHANGED <<it, cnt, nw, lastw>>

Next == \/ \E key \in KEYS, op \in 0..3, opt \in 0..TMAX : Feed(key, op, opt)
        \/ \E w \in 0..(TMAX + 1) : Wm(w)
        \/ EndIter \/ Term
Spec == Init /\ [][Next]_vars

---------------------------------------------------------------------------
Viol == TxnViol(inp, outs)
(* the predicates are monotone in the history (a violation of a prefix stays one), every behaviour
   can be completed within the bounds: judging the complete behaviours judges all prefixes *)
C13_Txn == done => LET v == Viol IN IF v = {} THEN TRUE ELSE PrintT(<<"MODELVIOL", v>>) /\ FALSE
C13_TxnQuiet == Viol = {}

EmitReplay == done => PrintT(<<"REPLAY", ToJson([kind |-> "txn", p |-> [none |-> 0],
                                                 input |-> inp, outm |-> outs])>>)
=============================================================================
