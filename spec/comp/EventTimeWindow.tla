-------------------------- MODULE EventTimeWindow --------------------------
(***************************************************************************)
(* EventTimeWindowManager (src/operator/window/descr/event_time.rs) as     *)
(* coded, as a pure transducer, driven the way WindowOperator drives it    *)
(* (one manager per key, created at the key's first element, control       *)
(* elements handed to every existing manager, a manager whose recycle()    *)
(* is true after a control element - no open slot - is dropped).           *)
(*                                                                         *)
(*   ws   open slots [s, e) in start order: [s, e, els, active]            *)
(*   lw   last_watermark (NOTS = None); NOT reset by FlushAndRestart       *)
(*   Timestamped(x, ts):                                                   *)
(*     alloc_windows(ts): while ws is empty or back.s < ts:                *)
(*        next = back.s + slide  (ts when ws is empty: the series is       *)
(*        ANCHORED AT THE FIRST TIMESTAMP SEEN - named deviation: an       *)
(*        element that arrives later with a smaller timestamp finds no     *)
(*        slot, finding F3);                                               *)
(*        if lw = w: next += max(w - next, 0) / slide * slide  (skip       *)
(*        slots the watermark already closed); push [next, next + size)    *)
(*     assign: skip_while(e <= ts).take_while(s <= ts)                     *)
(*   Watermark(w): lw = w; drain the prefix of slots with e <= w; active   *)
(*        ones -> Timestamped(_, e).  (FIX_F4 = FALSE: the code before     *)
(*        commit c47ed20 drained e < w only - a slot whose end EQUALS the  *)
(*        watermark stayed until the next one and its result, stamped e,   *)
(*        followed the forwarded Watermark(e): finding F4 for C06, fixed)  *)
(*   FlushAndRestart | Terminate: drain all, active ones -> results        *)
(*                                                                         *)
(* The wrapper feeds, for every (size, slide <= size), every sequence of   *)
(* timestamped elements (timestamps 0..TMAX, any arrival order the         *)
(* watermark contract allows: ts > last watermark) and watermarks          *)
(* (1..WMAX, increasing) with at most MAXE elements and MAXW watermarks    *)
(* per iteration.  F3's input class (an element below the start of the     *)
(* key's oldest open slot) is fed only with BEFORE = TRUE; the ids of      *)
(* such elements are remembered in `ba`, and the main invariant C13_All    *)
(* excuses exactly their loss (everything else is still required of those  *)
(* behaviours).  EventTimeWindow_finding.cfg checks the unexcused          *)
(* predicate and must still fail.                                          *)
(***************************************************************************)
EXTENDS Naturals, Integers, Sequences, FiniteSets, TLC, Json, WindowProps

CONSTANTS SIZES,    \* window sizes explored, e.g. 1..4 (slides 1..size)
          TMAX,     \* timestamps 0..TMAX
          WMAX,     \* watermarks 0..WMAX
          MAXE,     \* data elements per iteration (all keys)
          MAXW,     \* watermarks per iteration
          ITERS,
          KEYS,
          BEFORE,   \* TRUE: also feed elements below the anchor (F3's input class)
          FIX_F4    \* TRUE: the code as of c47ed20 (a watermark >= end fires); FALSE: before

---------------------------------------------------------------------------
EvInit == [ws |-> <<>>, lw |-> NOTS]

RECURSIVE Alloc(_, _, _, _)
Alloc(p, ws, lw, ts) ==
  IF ws # <<>> /\ ws[Len(ws)].s >= ts THEN ws
  ELSE LET n0 == IF ws = <<>> THEN ts ELSE ws[Len(ws)].s + p.slide
           n1 == IF lw # NOTS /\ lw - n0 > 0 THEN n0 + ((lw - n0) \div p.slide) * p.slide ELSE n0
       IN Alloc(p, Append(ws, [s |-> n1, e |-> n1 + p.size, els |-> <<>>, active |-> FALSE]), lw, ts)

(* skip_while(e <= ts).take_while(s <= ts) *)
Selected(ws, ts, i) ==
  LET f == IF \E j \in DOMAIN ws : ws[j].e > ts
           THEN MinOf({j \in DOMAIN ws : ws[j].e > ts}) ELSE Len(ws) + 1
  IN i >= f /\ \A j \in f..i : ws[j].s <= ts

(* partition_point(pred): length of the longest prefix satisfying pred *)
PrefixLen(ws, Pred(_)) ==
  IF \E j \in DOMAIN ws : ~Pred(ws[j]) THEN MinOf({j \in DOMAIN ws : ~Pred(ws[j])}) - 1 ELSE Len(ws)

Fired(ws) == LET a == SelectSeq(ws, LAMBDA w : w.active) IN [j \in 1..Len(a) |-> [g |-> a[j].els, ts |-> a[j].e]]

EvStep(p, st, e) ==
  CASE e.k = "T" ->
         LET ws1 == Alloc(p, st.ws, st.lw, e.ts)
             ws2 == [i \in 1..Len(ws1) |->
                       IF Selected(ws1, e.ts, i)
                       THEN [ws1[i] EXCEPT !.els = Append(@, e.v), !.active = TRUE] ELSE ws1[i]]
         IN [st |-> [st EXCEPT !.ws = ws2], out |-> <<>>]
    [] e.k = "W" ->
         LET n == PrefixLen(st.ws, LAMBDA w : IF FIX_F4 THEN w.e <= e.ts ELSE w.e < e.ts)
         IN [st |-> [ws |-> SubSeq(st.ws, n + 1, Len(st.ws)), lw |-> e.ts],
             out |-> Fired(SubSeq(st.ws, 1, n))]
    [] e.k \in {"R", "X"} ->
         [st |-> [st EXCEPT !.ws = <<>>], out |-> Fired(st.ws)]
    [] OTHER -> [st |-> st, out |-> <<>>]

EvRecycle(st) == st.ws = <<>>

(* F3's input class: the element is below the start of the oldest open slot *)
BeforeAnchor(st, ts) == st.ws # <<>> /\ ts < st.ws[1].s

---------------------------------------------------------------------------
VARIABLES p, live, st, inp, outs, it, cnt, nw, lastw, nid, done,
          ba      \* ids of the elements that were fed below the anchor (F3's input class)
vars == <<p, live, st, inp, outs, it, cnt, nw, lastw, nid, done, ba>>

Init ==
  /\ p \in {q \in [size : SIZES, slide : 1..MaxOf(SIZES)] : q.slide <= q.size}
  /\ live = {} /\ st = [k \in KEYS |-> EvInit]
  /\ inp = <<>> /\ outs = <<>> /\ it = 0 /\ cnt = 0 /\ nw = 0 /\ lastw = NOTS /\ nid = 1
  /\ done = FALSE /\ ba = {}

RECURSIVE SortedSeq(_)
SortedSeq(S) == IF S = {} THEN <<>> ELSE LET m == MinOf(S) IN <<m>> \o SortedSeq(S \ {m})

RECURSIVE CtrlOuts(_, _)
CtrlOuts(ks, e) ==
  IF ks = <<>> THEN <<>>
  ELSE LET r == EvStep(p, st[Head(ks)], e)
       IN [j \in 1..Len(r.out) |-> Res(Head(ks), r.out[j].g, r.out[j].ts)] \o CtrlOuts(Tail(ks), e)

Feed(key, ts) ==
  /\ ~done /\ it < ITERS /\ cnt < MAXE
  /\ ts > lastw
  /\ BEFORE \/ ~BeforeAnchor(st[key], ts)
  /\ LET e == El("T", key, nid, ts, 0, 0, 0)
         r == EvStep(p, st[key], e)
     IN /\ st' = [st EXCEPT ![key] = r.st]
        /\ inp' = Append(inp, e)
        /\ outs' = Append(outs, [j \in 1..Len(r.out) |-> Res(key, r.out[j].g, r.out[j].ts)])
  /\ live' = live \cup {key} /\ cnt' = cnt + 1 /\ nid' = nid + 1
  /\ ba' = IF BeforeAnchor(st[key], ts) THEN ba \cup {nid} ELSE ba
  /\ UNCHANGED <<p, it, nw, lastw, done>>

(* a control element goes to every existing manager; managers without open slots are dropped *)
Control(e) ==
  LET nst == [k \in KEYS |-> IF k \in live THEN EvStep(p, st[k], e).st ELSE st[k]] IN
  /\ inp' = Append(inp, e)
  /\ outs' = Append(outs, CtrlOuts(SortedSeq(live), e))
  /\ live' = {k \in live : ~EvRecycle(nst[k])}
  /\ st' = [k \in KEYS |-> IF k \in live /\ ~EvRecycle(nst[k]) THEN nst[k] ELSE EvInit]
  /\ UNCHANGED <<p, nid, ba>>

Wm(w) ==
  /\ ~done /\ it < ITERS /\ nw < MAXW /\ w > lastw
  /\ Control(El("W", 0, 0, w, 0, 0, 0))
  /\ nw' = nw + 1 /\ lastw' = w /\ UNCHANGED <<it, cnt, done>>

EndIter ==
  /\ ~done /\ it < ITERS
  /\ Control(El("R", 0, 0, 0, 0, 0, 0))
  /\ it' = it + 1 /\ cnt' = 0 /\ nw' = 0 /\ lastw' = NOTS /\ UNCHANGED done

Term ==
  /\ ~done /\ it = ITERS
  /\ Control(El("X", 0, 0, 0, 0, 0, 0))
  /\ done' = TRUE /\ UNCHANGED <<it, cnt, nw, lastw>>

Next == \/ \E key \in KEYS, ts \in 0..TMAX : Feed(key, ts)
        \/ \E w \in 0..WMAX : Wm(w)
        \/ EndIter \/ Term
Spec == Init /\ [][Next]_vars

---------------------------------------------------------------------------
Viol == EventViol(p, inp, outs)
Only(kind) == {v \in Viol : v.kind = kind}
C13_Span     == Only("window_span") = {}
C13_Lost     == Only("tumbling_lost") = {} /\ {v \in Only("sliding_cover") : v.cause = "lost"} = {}
C13_Dup      == Only("tumbling_dup") = {} /\ {v \in Only("sliding_cover") : v.cause = "too_many"} = {}
C13_Early    == Only("fired_early") = {}
C13_Late     == Only("fired_late") = {}
(* the predicates are monotone in the history (a violation of a prefix stays one), every behaviour
   can be completed within the bounds: judging the complete behaviours judges all prefixes.
   Excused: the loss of an element that was fed below the anchor (finding F3, open). *)
Excused(v) == v.kind \in {"tumbling_lost", "sliding_cover"} /\ v.cause = "lost" /\ v.v \in ba
C13_All == done => LET v == {x \in Viol : ~Excused(x)} IN
                    IF v = {} THEN TRUE ELSE PrintT(<<"MODELVIOL", v>>) /\ FALSE
(* C06 at the operator output: holds with FIX_F4, fails without (F4) *)
C06_LateResult == LateResultViol(inp, outs) = {}
C06_Late == done => C06_LateResult

TypeOK == \A k \in KEYS : \A i \in 1..(Len(st[k].ws) - 1) : st[k].ws[i].s < st[k].ws[i + 1].s

EmitReplay == done => PrintT(<<"REPLAY", ToJson([kind |-> "event",
                  p |-> [size |-> p.size, slide |-> p.slide], input |-> inp, outm |-> outs])>>)
=============================================================================
