----------------------------- MODULE StartProps -----------------------------
(***************************************************************************)
(* C05 / C06 / C17 at the input of a block, stated over the interleaved    *)
(* history of what the block consumed from its upstream replicas and what  *)
(* it handed to its operators.  Written from the property text; used both  *)
(* as invariants of comp/Start.tla and comp/BinaryStart.tla and, folded    *)
(* over histories recorded from the real `Start`, in trace/StartCheck.tla. *)
(*                                                                         *)
(* Monitor state (a record):                                               *)
(*   g    grammar automaton on the output (Elem!GStep)                     *)
(*   low  last watermark emitted in the current output iteration (NONE)    *)
(*   lat  lat[p]: latest watermark consumed from p in this iteration       *)
(*   en   en[p]: p's FlushAndRestart of this iteration was consumed        *)
(*   ri   ri[p]: number of FlushAndRestart consumed from p                 *)
(*   ro   number of FlushAndRestart emitted                                *)
(*   rise kind ("W" / "R") of the consumed element that last raised the    *)
(*        minimum over the active replicas                                 *)
(*   b    set of violated predicate kinds                                  *)
(***************************************************************************)
EXTENDS Naturals, Integers, Sequences, FiniteSets, Elem

NONE == -1

MonInit(S) == [g |-> GInit, low |-> NONE, lat |-> [p \in S |-> NONE], en |-> [p \in S |-> FALSE],
               ri |-> [p \in S |-> 0], ro |-> 0, rise |-> "W", b |-> {}]

MinOf(T) == CHOOSE m \in T : \A x \in T : m <= x

(* C17: minimum, over the replicas that have not ended this iteration, of their latest watermark; *)
(* NONE while some active replica has not sent one, or when no replica is active                  *)
ActiveMin(m) ==
  LET act == {p \in DOMAIN m.lat : ~m.en[p]} IN
  IF act = {} \/ \E p \in act : m.lat[p] = NONE THEN NONE ELSE MinOf({m.lat[p] : p \in act})
(* the same minimum if ended replicas still counted with their last watermark: tells the two     *)
(* causes of a withheld watermark apart                                                          *)
AllMin(m) ==
  IF \E p \in DOMAIN m.lat : m.lat[p] = NONE THEN NONE ELSE MinOf({m.lat[p] : p \in DOMAIN m.lat})

Withheld(m) == ActiveMin(m) # NONE /\ (m.low = NONE \/ m.low < ActiveMin(m))
(* Two causes are told apart by the element whose consumption raised the active minimum to its   *)
(* current value: a watermark of a running replica ("watermark"), or the FlushAndRestart of a    *)
(* replica that thereby left the set of active replicas ("replica_ended", the open finding F6).  *)
WithheldCause(m) == IF m.rise = "R" THEN "replica_ended" ELSE "watermark"

(* the block consumed element e of upstream replica p *)
MonIn(m, p, e) ==
  LET m2 == [m EXCEPT !.lat = IF e.k = "W" /\ (m.lat[p] = NONE \/ e.ts > m.lat[p]) THEN [@ EXCEPT ![p] = e.ts] ELSE @,
                      !.en  = IF e.k = "R" THEN [@ EXCEPT ![p] = TRUE] ELSE @,
                      !.ri  = IF e.k = "R" THEN [@ EXCEPT ![p] = @ + 1] ELSE @]
  IN [m2 EXCEPT !.rise = IF ActiveMin(m2) # ActiveMin(m) /\ ActiveMin(m2) # NONE THEN e.k ELSE @]

(* the block handed element e to its operators *)
MonOut(m, e) ==
  LET g2    == GStep(m.g, e)
      lateT == e.k = "T" /\ m.low # NONE /\ e.ts <= m.low
      badW  == e.k = "W" /\ m.low # NONE /\ e.ts <= m.low
      (* C05: the i-th FlushAndRestart only after the i-th one of every upstream replica *)
      early == e.k = "R" /\ \E p \in DOMAIN m.ri : m.ri[p] < m.ro + 1
      (* C17: a data element is handed on although the operators have not been shown the     *)
      (* watermark that the active replicas already agree on                                  *)
      held  == IsData(e) /\ Withheld(m)
      isR   == e.k = "R"
  IN [g   |-> g2,
      low |-> IF e.k = "W" /\ ~badW THEN e.ts ELSE IF isR THEN NONE ELSE m.low,
      lat |-> IF isR THEN [p \in DOMAIN m.lat |-> NONE] ELSE m.lat,
      en  |-> IF isR THEN [p \in DOMAIN m.en |-> FALSE] ELSE m.en,
      ri  |-> m.ri,
      ro  |-> IF isR THEN m.ro + 1 ELSE m.ro,
      rise |-> IF isR THEN "W" ELSE m.rise,
      b   |-> m.b \cup (IF g2 = "bad" /\ m.g # "bad" THEN {"grammar"} ELSE {})
                  \cup (IF lateT THEN {"late_element"} ELSE {})
                  \cup (IF badW THEN {"watermark_not_increasing"} ELSE {})
                  \cup (IF early THEN {"restart_before_upstream"} ELSE {})
                  \cup (IF held THEN {"watermark_withheld:" \o WithheldCause(m)} ELSE {})]

RECURSIVE MonOuts(_, _, _)
MonOuts(m, es, i) == IF i > Len(es) THEN m ELSE MonOuts(MonOut(m, es[i]), es, i + 1)

(* fold over an interleaved history: [d |-> "in", p, el] / [d |-> "out", el] *)
RECURSIVE MonRun(_, _, _)
MonRun(m, h, i) ==
  IF i > Len(h) THEN m
  ELSE MonRun(IF h[i].d = "in" THEN MonIn(m, h[i].p, h[i].el) ELSE MonOut(m, h[i].el), h, i + 1)
Judge(S, h) == MonRun(MonInit(S), h, 1)
=============================================================================
