--------------------------- MODULE SessionWindow ---------------------------
(***************************************************************************)
(* SessionWindowManager (src/operator/window/descr/session.rs) as coded,   *)
(* with the wall clock as an explicit integer tick carried by every input  *)
(* element (replayed through the mock clock).  Driven the way              *)
(* WindowOperator drives it (manager per key; recycle() is never true).    *)
(*                                                                         *)
(*   w   Option<Slot>: [open, els, last]   last = instant of the last      *)
(*       element of the session                                            *)
(*   every element at `now`:                                               *)
(*       ret = if open and now - last > gap { output, w = None }           *)
(*   data: slot = get_or_insert(new at now); accumulate; last = now; ret   *)
(*   FlushAndRestart | Terminate: ret, or else the open session            *)
(*   anything else (watermark): ret                                        *)
(*   results carry no timestamp                                            *)
(***************************************************************************)
EXTENDS Naturals, Integers, Sequences, FiniteSets, TLC, Json, WindowProps

CONSTANTS GAPSIZES,  \* session gaps explored
          GAPS,      \* the clock advances by one of these before each input
          MAXE, MAXW, ITERS, KEYS

SeInit == [open |-> FALSE, els |-> <<>>, last |-> 0]

SeStep(p, w, e) ==
  LET now     == e.tick
      expired == w.open /\ now - w.last > p.gap
      ret     == IF expired THEN <<[g |-> w.els, ts |-> NOTS]>> ELSE <<>>
      w1      == IF expired THEN SeInit ELSE w
  IN CASE IsData(e) ->
            [st |-> [open |-> TRUE, els |-> Append(IF w1.open THEN w1.els ELSE <<>>, e.v), last |-> now],
             out |-> ret]
       [] e.k \in {"R", "X"} ->
            [st |-> SeInit,
             out |-> IF ret # <<>> THEN ret
                     ELSE IF w1.open THEN <<[g |-> w1.els, ts |-> NOTS]>> ELSE <<>>]
       [] OTHER -> [st |-> w1, out |-> ret]

---------------------------------------------------------------------------
VARIABLES p, live, st, inp, outs, it, cnt, nw, clock, nid, done
vars == <<p, live, st, inp, outs, it, cnt, nw, clock, nid, done>>

Init ==
  /\ p \in [gap : GAPSIZES]
  /\ live = {} /\ st = [k \in KEYS |-> SeInit]
  /\ inp = <<>> /\ outs = <<>> /\ it = 0 /\ cnt = 0 /\ nw = 0 /\ clock = 0 /\ nid = 1
  /\ done = FALSE

RECURSIVE SortedSeq(_)
SortedSeq(S) == IF S = {} THEN <<>> ELSE LET m == MinOf(S) IN <<m>> \o SortedSeq(S \ {m})

RECURSIVE CtrlOuts(_, _)
CtrlOuts(ks, e) ==
  IF ks = <<>> THEN <<>>
  ELSE LET r == SeStep(p, st[Head(ks)], e)
       IN [j \in 1..Len(r.out) |-> Res(Head(ks), r.out[j].g, r.out[j].ts)] \o CtrlOuts(Tail(ks), e)

Feed(key, gap) ==
  /\ ~done /\ it < ITERS /\ cnt < MAXE
  /\ LET e == El("I", key, nid, 0, clock + gap, 0, 0)
         r == SeStep(p, st[key], e)
     IN /\ st' = [st EXCEPT ![key] = r.st]
        /\ inp' = Append(inp, e)
        /\ outs' = Append(outs, [j \in 1..Len(r.out) |-> Res(key, r.out[j].g, r.out[j].ts)])
  /\ live' = live \cup {key} /\ cnt' = cnt + 1 /\ nid' = nid + 1 /\ clock' = clock + gap
  /\ UNCHANGED <<p, it, nw, done>>

Control(e) ==
  /\ inp' = Append(inp, e)
  /\ outs' = Append(outs, CtrlOuts(SortedSeq(live), e))
  /\ st' = [k \in KEYS |-> IF k \in live THEN SeStep(p, st[k], e).st ELSE st[k]]
  /\ clock' = e.tick
  /\ UNCHANGED <<p, live, nid>>

Wm(gap) ==
  /\ ~done /\ it < ITERS /\ nw < MAXW
  /\ Control(El("W", 0, 0, nw + 1, clock + gap, 0, 0))
  /\ nw' = nw + 1 /\ UNCHANGED <<it, cnt, done>>

EndIter(gap) ==
  /\ ~done /\ it < ITERS
  /\ Control(El("R", 0, 0, 0, clock + gap, 0, 0))
  /\ it' = it + 1 /\ cnt' = 0 /\ nw' = 0 /\ UNCHANGED done

Term ==
  /\ ~done /\ it = ITERS
  /\ Control(El("X", 0, 0, 0, clock, 0, 0))
  /\ done' = TRUE /\ UNCHANGED <<it, cnt, nw>>

Next == \/ \E key \in KEYS, gap \in GAPS : Feed(key, gap)
        \/ \E gap \in GAPS : Wm(gap)
        \/ \E gap \in {0, MaxOf(GAPS)} : EndIter(gap)
        \/ Term
Spec == Init /\ [][Next]_vars

---------------------------------------------------------------------------
Viol == SessionViol(inp, outs)
(* the predicates are monotone in the history (a violation of a prefix stays one), every behaviour
   can be completed within the bounds: judging the complete behaviours judges all prefixes *)
C14_Session == done => LET v == Viol IN IF v = {} THEN TRUE ELSE PrintT(<<"MODELVIOL", v>>) /\ FALSE

EmitReplay == done => PrintT(<<"REPLAY", ToJson([kind |-> "session", p |-> [gap |-> p.gap],
                                                 input |-> inp, outm |-> outs])>>)
=============================================================================
