--------------------------- MODULE ProcTimeWindow ---------------------------
(***************************************************************************)
(* ProcessingTimeWindowManager (src/operator/window/descr/                 *)
(* processing_time.rs) as coded, with the wall clock as an explicit        *)
(* integer tick carried by every input element (the harness replays the    *)
(* ticks through the mock clock: 1 tick = 10 ms).  Driven the way          *)
(* WindowOperator drives it (manager per key; recycle() is never true).    *)
(*                                                                         *)
(*   ws   open wall-clock slots [s, e) in start order [s, e, els, active]  *)
(*   data element at `now`:                                                *)
(*        while ws is empty or back.s < now:                               *)
(*            push [next, next + size), next = back.s + slide (now when    *)
(*            empty: slots are contiguous from the first arrival)          *)
(*        assign: skip_while(e <= now).take_while(s <= now)                *)
(*        then drain the prefix of slots with e < now; active -> results   *)
(*   FlushAndRestart | Terminate: drain all, active ones -> results        *)
(*   anything else (watermark): drain the prefix of slots with e < now     *)
(*   results carry no timestamp; an inactive (empty) slot gives no result  *)
(*                                                                         *)
(* The wrapper feeds, for every (size, slide <= size), every sequence of   *)
(* at most MAXE elements and MAXW watermarks per iteration with every      *)
(* timing pattern: the clock advances by any gap in GAPS before each       *)
(* input (0 = burst; gaps equal to and beyond the window size; arrivals    *)
(* exactly on a slot boundary).                                            *)
(***************************************************************************)
EXTENDS Naturals, Integers, Sequences, FiniteSets, TLC, Json, WindowProps

CONSTANTS SIZES, GAPS, MAXE, MAXW, ITERS, KEYS

PtInit == <<>>

RECURSIVE Alloc(_, _, _)
Alloc(p, ws, now) ==
  IF ws # <<>> /\ ws[Len(ws)].s >= now THEN ws
  ELSE LET n == IF ws = <<>> THEN now ELSE ws[Len(ws)].s + p.slide
       IN Alloc(p, Append(ws, [s |-> n, e |-> n + p.size, els |-> <<>>, active |-> FALSE]), now)

Selected(ws, now, i) ==
  LET f == IF \E j \in DOMAIN ws : ws[j].e > now
           THEN MinOf({j \in DOMAIN ws : ws[j].e > now}) ELSE Len(ws) + 1
  IN i >= f /\ \A j \in f..i : ws[j].s <= now

PrefixLen(ws, Pred(_)) ==
  IF \E j \in DOMAIN ws : ~Pred(ws[j]) THEN MinOf({j \in DOMAIN ws : ~Pred(ws[j])}) - 1 ELSE Len(ws)

Fired(ws) == LET a == SelectSeq(ws, LAMBDA w : w.active) IN [j \in 1..Len(a) |-> [g |-> a[j].els, ts |-> NOTS]]

PtStep(p, ws, e) ==
  LET now == e.tick
      Drain(w) == LET n == PrefixLen(w, LAMBDA x : x.e < now)
                  IN [st |-> SubSeq(w, n + 1, Len(w)), out |-> Fired(SubSeq(w, 1, n))]
  IN CASE IsData(e) ->
            LET ws1 == Alloc(p, ws, now)
                ws2 == [i \in 1..Len(ws1) |->
                          IF Selected(ws1, now, i)
                          THEN [ws1[i] EXCEPT !.els = Append(@, e.v), !.active = TRUE] ELSE ws1[i]]
            IN Drain(ws2)
       [] e.k \in {"R", "X"} -> [st |-> <<>>, out |-> Fired(ws)]
       [] OTHER -> Drain(ws)

---------------------------------------------------------------------------
VARIABLES p, live, st, inp, outs, it, cnt, nw, clock, nid, done
vars == <<p, live, st, inp, outs, it, cnt, nw, clock, nid, done>>

Init ==
  /\ p \in {q \in [size : SIZES, slide : 1..MaxOf(SIZES)] : q.slide <= q.size}
  /\ live = {} /\ st = [k \in KEYS |-> PtInit]
  /\ inp = <<>> /\ outs = <<>> /\ it = 0 /\ cnt = 0 /\ nw = 0 /\ clock = 0 /\ nid = 1
  /\ done = FALSE

RECURSIVE SortedSeq(_)
SortedSeq(S) == IF S = {} THEN <<>> ELSE LET m == MinOf(S) IN <<m>> \o SortedSeq(S \ {m})

RECURSIVE CtrlOuts(_, _)
CtrlOuts(ks, e) ==
  IF ks = <<>> THEN <<>>
  ELSE LET r == PtStep(p, st[Head(ks)], e)
       IN [j \in 1..Len(r.out) |-> Res(Head(ks), r.out[j].g, r.out[j].ts)] \o CtrlOuts(Tail(ks), e)

Feed(key, gap) ==
  /\ ~done /\ it < ITERS /\ cnt < MAXE
  /\ LET e == El("I", key, nid, 0, clock + gap, 0, 0)
         r == PtStep(p, st[key], e)
     IN /\ st' = [st EXCEPT ![key] = r.st]
        /\ inp' = Append(inp, e)
        /\ outs' = Append(outs, [j \in 1..Len(r.out) |-> Res(key, r.out[j].g, r.out[j].ts)])
  /\ live' = live \cup {key} /\ cnt' = cnt + 1 /\ nid' = nid + 1 /\ clock' = clock + gap
  /\ UNCHANGED <<p, it, nw, done>>

Control(e) ==
  /\ inp' = Append(inp, e)
  /\ outs' = Append(outs, CtrlOuts(SortedSeq(live), e))
  /\ st' = [k \in KEYS |-> IF k \in live THEN PtStep(p, st[k], e).st ELSE st[k]]
  /\ clock' = e.tick
  /\ UNCHANGED <<p, live, nid>>

(* a watermark is just "some other element passes by at that time" *)
Wm(gap) ==
  /\ ~done /\ it < ITERS /\ nw < MAXW
  /\ Control(El("W", 0, 0, nw + 1, clock + gap, 0, 0))
  /\ nw' = nw + 1 /\ UNCHANGED <<it, cnt, done>>

EndIter(gap) ==
  /\ ~done /\ it < ITERS
  /\ Control(El("R", 0, 0, 0, clock + gap, 0, 0))
  /\ it' = it + 1 /\ cnt' = 0 /\ nw' = 0 /\ UNCHANGED done

Term ==
  /\ ~done /\ it = ITERS
  /\ Control(El("X", 0, 0, 0, clock, 0, 0))
  /\ done' = TRUE /\ UNCHANGED <<it, cnt, nw>>

Next == \/ \E key \in KEYS, gap \in GAPS : Feed(key, gap)
        \/ \E gap \in GAPS : Wm(gap)
        \/ \E gap \in {0, MaxOf(GAPS)} : EndIter(gap)
        \/ Term
Spec == Init /\ [][Next]_vars

---------------------------------------------------------------------------
Viol == ProcTimeViol(p, inp, outs)
(* the predicates are monotone in the history (a violation of a prefix stays one), every behaviour
   can be completed within the bounds: judging the complete behaviours judges all prefixes *)
C14_Pt == done => LET v == Viol IN IF v = {} THEN TRUE ELSE PrintT(<<"MODELVIOL", v>>) /\ FALSE

TypeOK == \A k \in KEYS : \A i \in 1..(Len(st[k]) - 1) : st[k][i].s + p.slide = st[k][i + 1].s

EmitReplay == done => PrintT(<<"REPLAY", ToJson([kind |-> "pt",
                  p |-> [size |-> p.size, slide |-> p.slide], input |-> inp, outm |-> outs])>>)
=============================================================================
