---------------------------- MODULE WindowProps ----------------------------
(***************************************************************************)
(* C12 / C13 / C14 (and, as a by-product, C06 at the output of a window    *)
(* operator), written from the text of properties.jsonl as pure operators  *)
(* over what is OBSERVABLE at a window operator:                           *)
(*                                                                         *)
(*   inp    the sequence of elements the operator consumed                 *)
(*          [k, key, v, ts, tick, op, opt]                                 *)
(*            k    "I" item, "T" timestamped item, "W" watermark,          *)
(*                 "R" FlushAndRestart, "X" Terminate                      *)
(*            key  the key of a data element, v its unique id, ts its      *)
(*                 timestamp (watermark value for W), tick the wall clock  *)
(*                 when it was consumed (processing-time / session only),  *)
(*                 op/opt what the user's transaction logic returns for it *)
(*                 (0 Continue, 1 Commit, 2 CommitAfter(opt), 3 Discard)   *)
(*   outs   outs[i] = what the operator emitted while consuming inp[i], in *)
(*          order: [k |-> "G", key, g, ts] a window result of `key`        *)
(*          computed from exactly the elements with ids g (a collecting    *)
(*          accumulator), ts = -1 when it carries no timestamp;            *)
(*          k \in {"W","R","X"}: a forwarded control element (ignored by   *)
(*          the C12-C14 predicates).                                       *)
(*                                                                         *)
(* Nothing here refers to the models in this directory.  The models use    *)
(* these operators as invariants; trace/WindowCheck.tla evaluates them on  *)
(* outputs recorded from the real window managers.                         *)
(*                                                                         *)
(* Every operator returns a SET of violation records                       *)
(*   [kind, cause, key, iter, step, v]                                     *)
(* (empty set = the predicate holds).  The predicates are prefix closed:   *)
(* requirements about the end of an iteration are only applied to          *)
(* iterations whose FlushAndRestart was consumed.  Where the text leaves   *)
(* room the weakest reading is taken (DESIGN.md Appendix B).               *)
(***************************************************************************)
EXTENDS Naturals, Integers, Sequences, FiniteSets

NOTS == -1      \* "no timestamp" / "no watermark yet" / "no commit time"

El(k, key, v, ts, tick, op, opt) ==
  [k |-> k, key |-> key, v |-> v, ts |-> ts, tick |-> tick, op |-> op, opt |-> opt]
Res(key, g, ts) == [k |-> "G", key |-> key, g |-> g, ts |-> ts]

V(kind, cause, key, it, step, v) ==
  [kind |-> kind, cause |-> cause, key |-> key, iter |-> it, step |-> step, v |-> v]

IsData(e) == e.k \in {"I", "T"}
SeqSet(s) == {s[i] : i \in DOMAIN s}
MaxOf(S) == CHOOSE m \in S : \A x \in S : x <= m
MinOf(S) == CHOOSE m \in S : \A x \in S : m <= x
Min2(a, b) == IF a <= b THEN a ELSE b
CeilDiv(a, b) == (a + b - 1) \div b

(* ascending sequence of the integers a..b that satisfy Test *)
Steps(a, b, Test(_)) ==
  IF b < a THEN <<>> ELSE SelectSeq([i \in 1..(b - a + 1) |-> a + i - 1], Test)

(* steps at which a FlushAndRestart was consumed, ascending *)
RSteps(inp) == Steps(1, Len(inp), LAMBDA i : inp[i].k = "R")

(* iteration it (1..Len(rs)+1) spans the steps ItFirst..ItLast; ItR is the step of its       *)
(* FlushAndRestart, 0 while it has not been consumed                                        *)
ItFirst(rs, it) == IF it = 1 THEN 1 ELSE rs[it - 1] + 1
ItR(rs, it) == IF it <= Len(rs) THEN rs[it] ELSE 0
ItLast(inp, rs, it) == IF it <= Len(rs) THEN rs[it] ELSE Len(inp)
ItLastData(inp, rs, it) == IF it <= Len(rs) THEN rs[it] - 1 ELSE Len(inp)

(* steps a..b at which a data element of `key` was consumed *)
DataSteps(inp, key, a, b) == Steps(a, b, LAMBDA i : IsData(inp[i]) /\ inp[i].key = key)

(* the results of `key` emitted during steps a..b, in emission order, with their step *)
RECURSIVE FlatRes(_, _, _, _)
FlatRes(outs, key, a, b) ==
  IF a > b \/ a > Len(outs) THEN <<>>
  ELSE LET rs == SelectSeq(outs[a], LAMBDA r : r.k = "G" /\ r.key = key)
       IN [j \in 1..Len(rs) |-> [step |-> a, g |-> rs[j].g, ts |-> rs[j].ts]]
            \o FlatRes(outs, key, a + 1, b)

Keys(inp, outs) ==
  {inp[i].key : i \in {i \in DOMAIN inp : IsData(inp[i])}}
    \cup UNION {{outs[i][j].key : j \in {j \in DOMAIN outs[i] : outs[i][j].k = "G"}} : i \in DOMAIN outs}

(* number of times id occurs in the results rs (a sequence of [step, g, ts]) *)
RECURSIVE OccFrom(_, _, _)
OccFrom(rs, id, r) ==
  IF r > Len(rs) THEN 0
  ELSE Cardinality({q \in DOMAIN rs[r].g : rs[r].g[q] = id}) + OccFrom(rs, id, r + 1)
Occ(rs, id) == OccFrom(rs, id, 1)

(* where does the element id, found in a result of `key` during the iteration spanning steps *)
(* a..b, come from (cause field of a mixing violation)                                       *)
Origin(inp, key, id, a, b) ==
  IF \E i \in DOMAIN inp : IsData(inp[i]) /\ inp[i].v = id /\ inp[i].key # key THEN "other_key"
  ELSE IF \E i \in (DOMAIN inp) \ (a..b) : IsData(inp[i]) /\ inp[i].v = id THEN "other_iteration"
  ELSE IF \E i \in a..b : i \in DOMAIN inp /\ IsData(inp[i]) /\ inp[i].v = id THEN "same_iteration"
  ELSE "unknown_element"

(* largest watermark consumed during steps a..b, NOTS when none *)
LastW(inp, a, b) == MaxOf({NOTS} \cup {inp[j].ts : j \in {j \in a..b : inp[j].k = "W"}})

---------------------------------------------------------------------------
(***************************************************************************)
(* C12.  "For each key, count windows with size N and slide S over that    *)
(* key's elements in arrival order yield exactly the groups [jS, jS+N), in *)
(* order, each emitted as soon as its N-th element arrives.  At the end of *)
(* an iteration nothing more is emitted in exact mode and exactly the      *)
(* oldest incomplete non-empty group in non-exact mode; groups never mix   *)
(* keys or iterations and every aggregator is applied to exactly the       *)
(* group's elements."      p = [n, s, exact] (+ agg, see AggOf)            *)
(*  count_group_content   the r-th result before the end of the iteration  *)
(*                        is not (the aggregate of) the group [rS, rS+N);  *)
(*                        a group is missing; a result too many            *)
(*  count_group_position  the r-th result does not come out at the step    *)
(*                        that consumed the group's N-th element           *)
(*  count_end_flush       what comes out at FlushAndRestart                *)
(*  count_mixed_keys      a result holds an element of another key or      *)
(*                        iteration                                        *)
(***************************************************************************)
(* what the aggregator of the window stream makes of a group (p.agg; absent = the collecting     *)
(* fold of the harness): min / max are by the injective key (37 * id) % 101, as in harness-win    *)
AggKey(x) == (37 * x) % 101
AggOf(p, g) ==
  LET agg == IF "agg" \in DOMAIN p THEN p.agg ELSE "fold" IN
  CASE agg = "first" -> <<g[1]>>
    [] agg = "last"  -> <<g[Len(g)]>>
    [] agg = "min"   -> <<CHOOSE x \in SeqSet(g) : \A y \in SeqSet(g) : AggKey(x) <= AggKey(y)>>
    [] agg = "max"   -> <<CHOOSE x \in SeqSet(g) : \A y \in SeqSet(g) : AggKey(x) >= AggKey(y)>>
    [] agg = "count" -> <<Len(g)>>
    [] OTHER         -> g
ShowsIds(p) == ~("agg" \in DOMAIN p /\ p.agg = "count")

CountKI(p, inp, outs, key, it, rs) ==
  LET a     == ItFirst(rs, it)
      rstep == ItR(rs, it)
      b     == ItLastData(inp, rs, it)
      xs    == DataSteps(inp, key, a, b)
      L     == Len(xs)
      ids   == [j \in 1..L |-> inp[xs[j]].v]
      idset == SeqSet(ids)
      J     == IF L >= p.n THEN (L - p.n) \div p.s + 1 ELSE 0         \* complete groups
      Grp(j) == AggOf(p, SubSeq(ids, (j - 1) * p.s + 1, (j - 1) * p.s + p.n))   \* j \in 1..J
      Due(j) == xs[(j - 1) * p.s + p.n]                                \* arrival of its N-th element
      E     == FlatRes(outs, key, a, b)                                \* emitted before the end
      m     == Min2(Len(E), J)
      F     == IF rstep > 0 THEN FlatRes(outs, key, rstep, rstep) ELSE <<>>
      Fg    == [j \in 1..Len(F) |-> F[j].g]
      expF  == IF p.exact \/ J * p.s >= L THEN <<>> ELSE <<AggOf(p, SubSeq(ids, J * p.s + 1, L))>>
      all   == E \o F
  IN   {V("count_group_content", "wrong_elements", key, it, E[r].step, r) :
           r \in {r \in 1..m : E[r].g # Grp(r)}}
  \cup (IF Len(E) > J THEN {V("count_group_content", "extra_group", key, it, E[J + 1].step, J + 1)} ELSE {})
  \cup (IF Len(E) < J THEN {V("count_group_content", "missing_group", key, it, Due(Len(E) + 1), Len(E) + 1)} ELSE {})
  \cup {V("count_group_position", IF E[r].step < Due(r) THEN "early" ELSE "late", key, it, E[r].step, r) :
           r \in {r \in 1..m : E[r].step # Due(r)}}
  \cup (IF rstep > 0 /\ Fg # expF
        THEN {V("count_end_flush",
                IF p.exact THEN "exact_emits_at_end"
                ELSE IF Fg = <<>> THEN "partial_group_missing"
                ELSE IF Len(Fg) > 1 THEN "more_than_one"
                ELSE IF expF = <<>> THEN "nothing_pending" ELSE "wrong_group",
                key, it, rstep, Len(Fg))}
        ELSE {})
  \cup {V("count_mixed_keys", Origin(inp, key, x[2], a, ItLast(inp, rs, it)), key, it, all[x[1]].step, x[2]) :
           x \in {x \in (DOMAIN all) \X UNION {SeqSet(all[r].g) : r \in DOMAIN all} :
                    ShowsIds(p) /\ x[2] \in SeqSet(all[x[1]].g) /\ x[2] \notin idset}}

CountViol(p, inp, outs) ==
  LET rs == RSteps(inp) IN
  UNION {CountKI(p, inp, outs, key, it, rs) : key \in Keys(inp, outs), it \in 1..(Len(rs) + 1)}

---------------------------------------------------------------------------
(***************************************************************************)
(* C13, event-time windows.  p = [size, slide], slide <= size.             *)
(*  window_span    "every result is computed from elements of one key      *)
(*                 whose timestamps lie inside one interval of the window  *)
(*                 length": all its elements are elements of that key (and *)
(*                 iteration) and max ts - min ts < size                   *)
(*  tumbling_lost / tumbling_dup (slide = size)  "assigns every element    *)
(*                 that is not late with respect to the watermark to       *)
(*                 exactly one result, independently of arrival order"     *)
(*  sliding_cover  (slide < size) "at least one and at most                *)
(*                 ceil(size/slide)"                                       *)
(*  fired_early    "emitted no earlier than a watermark reaching its       *)
(*                 window end (or the end of the iteration)": the window   *)
(*                 end is above the largest timestamp of the result, so a  *)
(*                 result emitted before R while the last consumed         *)
(*                 watermark is below that timestamp is early              *)
(*  fired_late     "no later than the first watermark beyond it": the      *)
(*                 window end is at most min ts + size; a watermark above  *)
(*                 that consumed at an EARLIER step is beyond the end      *)
(*  (the code fires a slot on the first watermark >= its end - before the  *)
(*  fix of F4 on the first one > its end; both lie inside these two bounds, *)
(*  the difference is a C06 matter: LateResultViol below)                  *)
(* Lost / cover are judged for complete iterations only.                   *)
(***************************************************************************)
EventKI(p, inp, outs, key, it, rs) ==
  LET a     == ItFirst(rs, it)
      rstep == ItR(rs, it)
      b     == ItLastData(inp, rs, it)
      last  == ItLast(inp, rs, it)
      xs    == DataSteps(inp, key, a, b)
      idset == {inp[xs[j]].v : j \in DOMAIN xs}
      TsOf(id) == inp[CHOOSE i \in SeqSet(xs) : inp[i].v = id].ts
      all   == FlatRes(outs, key, a, last)
      Tss(r) == {TsOf(id) : id \in SeqSet(all[r].g) \cap idset}
      maxc  == CeilDiv(p.size, p.slide)
      tumb  == p.slide = p.size
      (* not late: above every watermark consumed before it in this iteration *)
      OnTime(j) == inp[xs[j]].ts > LastW(inp, a, xs[j] - 1)
  IN   {V("window_span", Origin(inp, key, x[2], a, last), key, it, all[x[1]].step, x[2]) :
           x \in {x \in (DOMAIN all) \X UNION {SeqSet(all[r].g) : r \in DOMAIN all} :
                    x[2] \in SeqSet(all[x[1]].g) /\ x[2] \notin idset}}
  \cup {V("window_span", "span_exceeds_size", key, it, all[r].step, r) :
           r \in {r \in DOMAIN all : Tss(r) # {} /\ MaxOf(Tss(r)) - MinOf(Tss(r)) >= p.size}}
  \cup {V("fired_early", "watermark_below_element", key, it, all[r].step, r) :
           r \in {r \in DOMAIN all : /\ Tss(r) # {} /\ all[r].step # rstep
                                     /\ LastW(inp, a, all[r].step) < MaxOf(Tss(r))}}
  \cup {V("fired_late", "watermark_beyond_end_before", key, it, all[r].step, r) :
           r \in {r \in DOMAIN all : /\ Tss(r) # {}
                                     /\ \E j \in a..(all[r].step - 1) :
                                          inp[j].k = "W" /\ inp[j].ts > MinOf(Tss(r)) + p.size}}
  \cup (IF rstep = 0 THEN {} ELSE
        UNION {LET id == inp[xs[j]].v  c == Occ(all, id) IN
               IF ~OnTime(j) THEN {}
               ELSE IF tumb THEN (IF c = 0 THEN {V("tumbling_lost", "lost", key, it, xs[j], id)}
                                  ELSE IF c > 1 THEN {V("tumbling_dup", "dup", key, it, xs[j], id)} ELSE {})
               ELSE (IF c = 0 THEN {V("sliding_cover", "lost", key, it, xs[j], id)}
                     ELSE IF c > maxc THEN {V("sliding_cover", "too_many", key, it, xs[j], id)} ELSE {})
               : j \in DOMAIN xs})

EventViol(p, inp, outs) ==
  LET rs == RSteps(inp) IN
  UNION {EventKI(p, inp, outs, key, it, rs) : key \in Keys(inp, outs), it \in 1..(Len(rs) + 1)}

(***************************************************************************)
(* C13, transaction windows: "transaction windows commit exactly as the    *)
(* user logic dictates".  The logic (TransactionOp, transaction.rs doc):   *)
(* one open transaction per key; every element joins it; Commit outputs it *)
(* (the committing element included) and closes it; Discard closes it      *)
(* without output and cancels a pending commit time; CommitAfter(t)        *)
(* registers (overwrites) a commit time: the transaction is output when a  *)
(* watermark greater than t is consumed; Continue changes nothing.  A      *)
(* pending CommitAfter is due at the end of the iteration.  What happens   *)
(* to a transaction without commit decision at the end of the iteration    *)
(* is not dictated: it may be output there or dropped (weakest reading),   *)
(* but a later commit outputs the elements of ITS transaction only.        *)
(***************************************************************************)
RECURSIVE TxnScan(_, _, _, _, _, _, _, _, _)
TxnScan(inp, outs, key, it, a, i, last, cur, close) ==
  IF i > last THEN {}
  ELSE
  LET e     == inp[i]
      fr    == FlatRes(outs, key, i, i)
      res   == [j \in 1..Len(fr) |-> fr[j].g]
      mine  == IsData(e) /\ e.key = key
      cur1  == IF mine THEN Append(cur, e.v) ELSE cur
      must  == \/ mine /\ e.op = 1
               \/ e.k = "W" /\ close # NOTS /\ close < e.ts /\ cur # <<>>
               \/ e.k = "R" /\ close # NOTS /\ cur # <<>>
      may   == must \/ (e.k = "R" /\ cur # <<>>)
      ok    == IF must THEN res = <<cur1>>
               ELSE IF may THEN res = <<>> \/ res = <<cur1>>
               ELSE res = <<>>
      ends  == must \/ (mine /\ e.op = 3) \/ e.k = "R"
      carried == \E r \in DOMAIN res : \E x \in SeqSet(res[r]) :
                    x \notin SeqSet(cur1) /\ Origin(inp, key, x, a, last) = "other_iteration"
      cause == IF res = <<>> THEN "not_committed"
               ELSE IF carried THEN "carried_over_iteration"
               ELSE IF ~may THEN "unexpected_commit"
               ELSE "wrong_elements"
  IN (IF ok THEN {} ELSE {V("transaction_commit", cause, key, it, i, Len(res))})
     \cup TxnScan(inp, outs, key, it, a, i + 1, last,
                  IF ends THEN <<>> ELSE cur1,
                  IF ends THEN NOTS ELSE IF mine /\ e.op = 2 THEN e.opt ELSE close)

TxnViol(inp, outs) ==
  LET rs == RSteps(inp) IN
  UNION {TxnScan(inp, outs, key, it, ItFirst(rs, it), ItFirst(rs, it), ItLast(inp, rs, it), <<>>, NOTS) :
           key \in Keys(inp, outs), it \in 1..(Len(rs) + 1)}

---------------------------------------------------------------------------
(***************************************************************************)
(* C14.  "Whatever the wall-clock timing, per key the tumbling processing- *)
(* time windows and the session windows partition the elements: each       *)
(* element appears in exactly one result, results keep arrival order and   *)
(* none is empty.  Sliding processing-time windows cover each element      *)
(* between one and ceil(size/slide) times, and all pending windows are     *)
(* flushed at the end of the iteration."                                   *)
(*   pre = "pt" (p = [size, slide]) or "session"; partition = tumbling     *)
(*   processing-time window or session window.                             *)
(*  *_lost / *_dup      an element of a finished iteration is in no / in   *)
(*                      more than one result                               *)
(*  *_not_flushed       an element only comes out (or comes out again)     *)
(*                      after its iteration's FlushAndRestart step         *)
(*  *_order             a result lists its elements out of arrival order;  *)
(*                      partitions: a later result holds an element that   *)
(*                      arrived before one of an earlier result            *)
(*  *_empty_result      a result computed from no element                  *)
(*  pt_sliding_cover    covered 0 or more than ceil(size/slide) times      *)
(***************************************************************************)
TimeKI(pre, partition, maxc, inp, outs, key, it, rs) ==
  LET a     == ItFirst(rs, it)
      rstep == ItR(rs, it)
      b     == ItLastData(inp, rs, it)
      last  == ItLast(inp, rs, it)
      xs    == DataSteps(inp, key, a, b)
      idset == {inp[xs[j]].v : j \in DOMAIN xs}
      PosOf(id) == CHOOSE j \in DOMAIN xs : inp[xs[j]].v = id
      inIt  == FlatRes(outs, key, a, last)
      after == FlatRes(outs, key, last + 1, Len(inp))
      Known(g) == SelectSeq(g, LAMBDA x : x \in idset)
      Pos(g) == LET kg == Known(g) IN [q \in 1..Len(kg) |-> PosOf(kg[q])]
      Incr(s) == \A q \in 1..(Len(s) - 1) : s[q] < s[q + 1]
      RECURSIVE Concat(_)
      Concat(r) == IF r > Len(inIt) THEN <<>> ELSE Pos(inIt[r].g) \o Concat(r + 1)
      K(suffix) == pre \o suffix
  IN   {V(K("_empty_result"), "empty", key, it, inIt[r].step, r) : r \in {r \in DOMAIN inIt : inIt[r].g = <<>>}}
  \cup {V(K("_order"), "within_result", key, it, inIt[r].step, r) : r \in {r \in DOMAIN inIt : ~Incr(Pos(inIt[r].g))}}
  \cup (IF partition /\ (\A r \in DOMAIN inIt : Incr(Pos(inIt[r].g))) /\ ~Incr(Concat(1))
             /\ \A id \in idset : Occ(inIt, id) <= 1
        THEN {V(K("_order"), "across_results", key, it, last, 0)} ELSE {})
  \cup {V(K("_dup"), Origin(inp, key, x[2], a, last), key, it, inIt[x[1]].step, x[2]) :
           x \in {x \in (DOMAIN inIt) \X UNION {SeqSet(inIt[r].g) : r \in DOMAIN inIt} :
                    /\ x[2] \in SeqSet(inIt[x[1]].g) /\ x[2] \notin idset
                    /\ Origin(inp, key, x[2], a, last) # "other_iteration"}}    \* that one is *_not_flushed
  \cup (IF rstep = 0 THEN {} ELSE
        UNION {LET id == inp[xs[j]].v  cin == Occ(inIt, id)  caf == Occ(after, id) IN
               (IF caf > 0 THEN {V(K("_not_flushed"), "after_restart", key, it, xs[j], id)} ELSE {})
               \cup (IF cin + caf = 0
                     THEN {V(IF partition THEN K("_lost") ELSE K("_sliding_cover"), "lost", key, it, xs[j], id)}
                     ELSE IF partition /\ cin + caf > 1 THEN {V(K("_dup"), "dup", key, it, xs[j], id)}
                     ELSE IF ~partition /\ cin + caf > maxc
                          THEN {V(K("_sliding_cover"), "too_many", key, it, xs[j], id)}
                     ELSE {})
               : j \in DOMAIN xs})

ProcTimeViol(p, inp, outs) ==
  LET rs == RSteps(inp) IN
  UNION {TimeKI("pt", p.slide = p.size, CeilDiv(p.size, p.slide), inp, outs, key, it, rs) :
           key \in Keys(inp, outs), it \in 1..(Len(rs) + 1)}

SessionViol(inp, outs) ==
  LET rs == RSteps(inp) IN
  UNION {TimeKI("session", TRUE, 1, inp, outs, key, it, rs) :
           key \in Keys(inp, outs), it \in 1..(Len(rs) + 1)}

---------------------------------------------------------------------------
(***************************************************************************)
(* C06 at the output of a window operator (by-product, reported with       *)
(* prop "C06"): "once an operator has produced Watermark(t) it never       *)
(* produces, within the same iteration, an element with timestamp <= t".   *)
(* A window operator forwards a consumed watermark after the results of    *)
(* that step, so a result with timestamp ts is late when a watermark >= ts *)
(* was consumed at an earlier step of the same iteration (or, where the    *)
(* forwarded elements were recorded, when W(t >= ts) precedes it in the    *)
(* same step).                                                             *)
(***************************************************************************)
LateResultViol(inp, outs) ==
  LET rs == RSteps(inp) IN
  UNION {LET a == ItFirst(rs, it)  last == ItLast(inp, rs, it) IN
         UNION {{V("late_element", "window_result", outs[i][j].key, it, i, outs[i][j].ts) :
                   j \in {j \in DOMAIN outs[i] :
                            /\ outs[i][j].k = "G" /\ outs[i][j].ts # NOTS
                            /\ \/ LastW(inp, a, i - 1) >= outs[i][j].ts
                               \/ \E q \in 1..(j - 1) : outs[i][q].k = "W" /\ outs[i][q].ts >= outs[i][j].ts}}
                : i \in {i \in a..last : i <= Len(outs)}}
         : it \in 1..(Len(rs) + 1)}

---------------------------------------------------------------------------
(***************************************************************************)
(* C05 at a window operator: "The built-in stateful operators (folds,      *)
(* joins, windows, ...) output all results of an iteration before          *)
(* forwarding its FlushAndRestart and carry nothing over into the next     *)
(* iteration."                                                             *)
(*  output_after_restart  a result computed from an element of iteration i *)
(*        comes out after the step that consumed the i-th FlushAndRestart  *)
(*        (the operator forwards the marker at the end of that step), or - *)
(*        where the forwarded markers were recorded (keyed path) - after   *)
(*        the forwarded "R" inside that step                               *)
(*  carry_over  nothing is carried over, so what comes out during          *)
(*        iteration i depends on iteration i's input only: it equals, key  *)
(*        by key and step by step, what the SAME real component gives on   *)
(*        a fresh instance fed with iteration i's input alone              *)
(*        (solo: sequence of [it, out], out recorded from that second      *)
(*        run; a metamorphic oracle - no model involved)                   *)
(***************************************************************************)
(* iteration in which the data element with this id was consumed (0: unknown id) *)
IterOfId(inp, rs, id) ==
  IF \E i \in DOMAIN inp : IsData(inp[i]) /\ inp[i].v = id
  THEN LET i == CHOOSE i \in DOMAIN inp : IsData(inp[i]) /\ inp[i].v = id
       IN 1 + Cardinality({j \in DOMAIN rs : rs[j] < i})
  ELSE 0

AfterRestartViol(inp, outs) ==
  LET rs == RSteps(inp)
      ItOfStep(i) == 1 + Cardinality({j \in DOMAIN rs : rs[j] < i})
      Stale(i, q) == {x \in SeqSet(outs[i][q].g) :
                        IterOfId(inp, rs, x) # 0 /\ IterOfId(inp, rs, x) < ItOfStep(i)}
      AfterR(i, q) == \E r \in 1..(q - 1) : outs[i][r].k = "R"
  IN UNION {UNION {
        {V("output_after_restart", "element_of_earlier_iteration", outs[i][q].key, ItOfStep(i), i, x) :
           x \in Stale(i, q)}
        \cup (IF AfterR(i, q)
              THEN {V("output_after_restart", "after_forwarded_marker", outs[i][q].key, ItOfStep(i), i, q)}
              ELSE {})
        : q \in {q \in DOMAIN outs[i] : outs[i][q].k = "G"}}
      : i \in {i \in DOMAIN inp : i <= Len(outs)}}

Rebase(fr, a) == [j \in DOMAIN fr |-> [fr[j] EXCEPT !.step = @ - a + 1]]
CarryOverViol(inp, outs, solo) ==
  LET rs == RSteps(inp) IN
  UNION {LET s == solo[n]  a == ItFirst(rs, s.it)  last == ItLast(inp, rs, s.it) IN
         {V("carry_over", "differs_from_iteration_alone", key, s.it, a, 0) :
            key \in {key \in Keys(inp, outs) \cup Keys(inp, s.out) :
                       Rebase(FlatRes(outs, key, a, last), a) # FlatRes(s.out, key, 1, last - a + 1)}}
         : n \in DOMAIN solo}

Judge(kind, p, inp, outs) ==
  CASE kind = "count"   -> CountViol(p, inp, outs)
    [] kind = "event"   -> EventViol(p, inp, outs)
    [] kind = "txn"     -> TxnViol(inp, outs)
    [] kind = "pt"      -> ProcTimeViol(p, inp, outs)
    [] kind = "session" -> SessionViol(inp, outs)
=============================================================================
