---------------------------- MODULE SortMergeJoin ----------------------------
(***************************************************************************)
(* The local sort-merge join (src/operator/join/local_sort_merge.rs,       *)
(* JoinLocalSortMerge::next / advance / discard_right) as a transducer     *)
(* over the stream BinaryStart hands to it - Left(v), Right(v), LeftEnd,   *)
(* RightEnd, FlushAndRestart - for ITERS iterations.  State as in the      *)
(* code:                                                                   *)
(*   left, right      the buffered items; sorted by key when the side ends *)
(*                    and consumed from the back (largest key first)       *)
(*   leftEnded, rightEnded                                                 *)
(*   lastKey          key of the last left item processed by advance():    *)
(*                    a right item with that key counts as matched         *)
(* One Advance step is one pass of the body of advance()'s while loop.     *)
(* Every pair of small inputs, every interleaving of the two sides and     *)
(* every number of iterations up to ITERS is explored; at each             *)
(* FlushAndRestart the output of the iteration must be exactly the         *)
(* relational join of that iteration's inputs (C08), the asserts of the    *)
(* code hold, and nothing of the iteration survives (C05).                 *)
(* RESET_AT = "tail" is the seeded regression seeded/C05b (lastKey is      *)
(* cleared where the merge drains the right side instead of at the         *)
(* FlushAndRestart).                                                       *)
(***************************************************************************)
EXTENDS Naturals, Sequences, FiniteSets, TLC, SequencesExt, Functions

CONSTANTS VARIANT,        \* "inner" | "left" | "outer"
          MAXL, MAXR,     \* items per side and iteration
          VALS,           \* values; key = value % 3
          ITERS,
          RESET_AT        \* "restart" (the code) | "tail" (seeded/C05b)

Key(v) == v % 3
LeftOuter == VARIANT \in {"left", "outer"}
RightOuter == VARIANT = "outer"
NONE == 0            \* padding value (VALS are positive)
NOKEY == 99

VARIABLES inL, inR,                  \* items of this iteration (ghost, for the oracle)
          left, right, leftEnded, rightEnded, lastKey,
          out,                       \* output of this iteration
          iter, ok                   \* iterations completed; every completed iteration was right
vars == <<inL, inR, left, right, leftEnded, rightEnded, lastKey, out, iter, ok>>

Init == /\ inL = <<>> /\ inR = <<>> /\ left = <<>> /\ right = <<>>
        /\ leftEnded = FALSE /\ rightEnded = FALSE /\ lastKey = NOKEY
        /\ out = <<>> /\ iter = 0 /\ ok = TRUE

SortByKey(s) == SortSeq(s, LAMBDA a, b : Key(a) < Key(b))

LeftItem == /\ iter < ITERS /\ ~leftEnded /\ Len(inL) < MAXL
            /\ \E v \in VALS : inL' = Append(inL, v) /\ left' = Append(left, v)
            /\ UNCHANGED <<inR, right, leftEnded, rightEnded, lastKey, out, iter, ok>>
RightItem == /\ iter < ITERS /\ ~rightEnded /\ Len(inR) < MAXR
             /\ \E v \in VALS : inR' = Append(inR, v) /\ right' = Append(right, v)
             /\ UNCHANGED <<inL, left, leftEnded, rightEnded, lastKey, out, iter, ok>>
LeftEnd == /\ iter < ITERS /\ ~leftEnded /\ leftEnded' = TRUE /\ left' = SortByKey(left)
           /\ UNCHANGED <<inL, inR, right, rightEnded, lastKey, out, iter, ok>>
RightEnd == /\ iter < ITERS /\ ~rightEnded /\ rightEnded' = TRUE /\ right' = SortByKey(right)
            /\ UNCHANGED <<inL, inR, left, leftEnded, lastKey, out, iter, ok>>

(* discard_right applied to the sequence rs (back to front) with the current lastKey: the right-outer pads *)
RECURSIVE Discard(_, _)
Discard(rs, lk) ==
  IF rs = <<>> THEN <<>>
  ELSE LET r == Last(rs) IN
       (IF Key(r) # lk /\ RightOuter THEN <<<<NONE, r>>>> ELSE <<>>) \o Discard(Front(rs), lk)

(* the right items with key bigger than k, as a suffix of the sorted right buffer *)
BiggerSuffix(rs, k) ==
  LET n == Cardinality({i \in DOMAIN rs : \A j \in i..Len(rs) : Key(rs[j]) > k})
  IN SubSeq(rs, Len(rs) - n + 1, Len(rs))

Advance ==
  /\ leftEnded /\ rightEnded /\ (left # <<>> \/ right # <<>>)
  /\ IF left # <<>>
     THEN LET lv   == Last(left)
              lk   == Key(lv)
              big  == BiggerSuffix(right, lk)
              keep == SubSeq(right, 1, Len(right) - Len(big))
              hasM == keep # <<>> /\ Key(Last(keep)) = lk
              ms   == SelectSeq(Reverse(keep), LAMBDA r : Key(r) = lk)
              emit == Discard(big, lastKey)
                      \o (IF hasM THEN [i \in 1..Len(ms) |-> <<lv, ms[i]>>]
                          ELSE IF LeftOuter THEN <<<<lv, NONE>>>> ELSE <<>>)
          IN /\ left' = Front(left) /\ right' = keep
             /\ out' = out \o emit /\ lastKey' = lk
     ELSE /\ out' = out \o Discard(right, lastKey)
          /\ right' = <<>> /\ left' = left
          /\ lastKey' = IF RESET_AT = "tail" THEN NOKEY ELSE lastKey
  /\ UNCHANGED <<inL, inR, leftEnded, rightEnded, iter, ok>>

---------------------------------------------------------------------------
(* the relational definition *)
BagOf(s) == [x \in Range(s) |-> Cardinality({i \in DOMAIN s : s[i] = x})]
Rel ==
  LET inner == {<<i, j>> \in (DOMAIN inL) \X (DOMAIN inR) : Key(inL[i]) = Key(inR[j])}
      lpad == {i \in DOMAIN inL : \A j \in DOMAIN inR : Key(inL[i]) # Key(inR[j])}
      rpad == {j \in DOMAIN inR : \A i \in DOMAIN inL : Key(inL[i]) # Key(inR[j])}
      CountOf(p) == Cardinality({x \in inner : <<inL[x[1]], inR[x[2]]>> = p})
                    + (IF p[2] = NONE /\ LeftOuter THEN Cardinality({i \in lpad : inL[i] = p[1]}) ELSE 0)
                    + (IF p[1] = NONE /\ RightOuter THEN Cardinality({j \in rpad : inR[j] = p[2]}) ELSE 0)
      support == {<<inL[x[1]], inR[x[2]]>> : x \in inner}
                 \cup (IF LeftOuter THEN {<<inL[i], NONE>> : i \in lpad} ELSE {})
                 \cup (IF RightOuter THEN {<<NONE, inR[j]>> : j \in rpad} ELSE {})
  IN [p \in support |-> CountOf(p)]

(* the FlushAndRestart arm: reached only with both sides ended and both buffers drained *)
Restart ==
  /\ iter < ITERS /\ leftEnded /\ rightEnded /\ left = <<>> /\ right = <<>>
  /\ ok' = (ok /\ BagOf(out) = Rel)
  /\ leftEnded' = FALSE /\ rightEnded' = FALSE
  /\ lastKey' = IF RESET_AT = "restart" THEN NOKEY ELSE lastKey
  /\ inL' = <<>> /\ inR' = <<>> /\ out' = <<>> /\ iter' = iter + 1
  /\ UNCHANGED <<left, right>>

Next == LeftItem \/ RightItem \/ LeftEnd \/ RightEnd \/ Advance \/ Restart
Spec == Init /\ [][Next]_vars

(* C08 / C05: every completed iteration produced exactly the relational join of ITS inputs *)
JoinOK == ok
(* never more than the join while running *)
NoExtra == \A p \in DOMAIN BagOf(out) : p \in DOMAIN Rel /\ BagOf(out)[p] <= Rel[p]
(* C05: at the start of an iteration nothing of the previous one is left *)
CleanAtStart == (~leftEnded /\ ~rightEnded /\ inL = <<>> /\ inR = <<>>) => lastKey = NOKEY
=============================================================================
