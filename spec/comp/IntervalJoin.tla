----------------------------- MODULE IntervalJoin -----------------------------
(***************************************************************************)
(* The interval join (src/operator/interval_join.rs, IntervalJoin::next /  *)
(* advance) as a transducer over the merged, timestamp-ordered stream that *)
(* `merge + reorder` hand to it: Left(k, v)@ts, Right(k, v)@ts, Watermark, *)
(* FlushAndRestart.  State as in the code:                                 *)
(*   left      left elements not yet processed (in arrival = timestamp     *)
(*             order)                                                      *)
(*   right     per key, the right elements that may still be matched       *)
(*   lastSeen  timestamp of the last element or watermark                  *)
(*   restart   FlushAndRestart received                                    *)
(* A left element is processed once nothing with a timestamp inside its    *)
(* interval can still arrive (upper < lastSeen) or the iteration is over;  *)
(* right elements below the current lower limit are dropped (left          *)
(* timestamps only grow).  Every timestamp-ordered input over small        *)
(* domains is explored; at the FlushAndRestart the output must be exactly  *)
(* the pairs of the definition (C08), never more on the way, and nothing   *)
(* is kept (C05).                                                          *)
(* SEEN0 is the initial value of lastSeen: Timestamp::MIN (a value below    *)
(* TMIN) after the repair of finding F11; 0 (Default) before it, where the  *)
(* assert `ts >= last_seen` fires on the first element with a negative     *)
(* timestamp (mc/IntervalJoin_F11.cfg must still fail NoPanic).            *)
(* EVICT_LE = TRUE is a seeded variant (right elements AT the lower limit  *)
(* are dropped too) that must fail.                                        *)
(***************************************************************************)
EXTENDS Naturals, Integers, Sequences, FiniteSets, TLC, Functions

CONSTANTS LOWER, UPPER,      \* the interval: l.ts - LOWER <= r.ts <= l.ts + UPPER
          NEG, TMAX,         \* timestamps -NEG..TMAX
          SEEN_MIN,          \* TRUE: last_seen starts at Timestamp::MIN (repaired); FALSE: at 0 (finding F11)
          KEYS,              \* join keys
          MAXL, MAXR,        \* elements per side (watermarks are bounded by TMAX)
          EVICT_LE

TMIN == 0 - NEG
SEEN0 == IF SEEN_MIN THEN TMIN - 1000 ELSE 0

VARIABLES inL, inR,          \* ghost: what was fed, [ts, k, id]
          left, right, lastSeen, restart,
          out,               \* emitted pairs <<left id, right id>>
          closed,
          envTs,             \* ghost: last timestamp the (ordered) input carried
          panicked           \* an assert of the code fired
vars == <<inL, inR, left, right, lastSeen, restart, out, closed, envTs, panicked>>

Init == /\ inL = <<>> /\ inR = <<>> /\ left = <<>> /\ right = [k \in KEYS |-> <<>>]
        /\ lastSeen = SEEN0 /\ restart = FALSE /\ out = <<>> /\ closed = FALSE
        /\ envTs = TMIN /\ panicked = FALSE

(* advance(): process left elements from the front while their interval is complete *)
RECURSIVE Adv(_, _, _, _, _)
Adv(l, r, o, seen, rst) ==
  IF l = <<>> THEN [left |-> l, right |-> IF rst THEN [k \in KEYS |-> <<>>] ELSE r, out |-> o]
  ELSE LET e     == Head(l)
           lower == e.ts - LOWER
           upper == e.ts + UPPER
       IN IF upper >= seen /\ ~rst THEN [left |-> l, right |-> r, out |-> o]
          ELSE LET rk    == r[e.k]
                   drop  == Cardinality({i \in DOMAIN rk : \A j \in 1..i :
                                           IF EVICT_LE THEN rk[j].ts <= lower ELSE rk[j].ts < lower})
                   kept  == SubSeq(rk, drop + 1, Len(rk))
                   nm    == Cardinality({i \in DOMAIN kept : \A j \in 1..i : kept[j].ts <= upper})
                   pairs == [i \in 1..nm |-> <<e.id, kept[i].id>>]
               IN Adv(Tail(l), [r EXCEPT ![e.k] = kept], o \o pairs, seen, rst)

Apply(l, r, seen, rst) ==
  LET a == Adv(l, r, out, seen, rst) IN
  /\ left' = a.left /\ right' = a.right /\ out' = a.out

(* `assert!(ts >= self.last_seen)` *)
Asserted(ts) == panicked' = (ts < lastSeen)

LeftItem ==
  /\ ~closed /\ ~restart /\ ~panicked /\ Len(inL) < MAXL
  /\ \E ts \in envTs..TMAX, k \in KEYS :
       LET e == [ts |-> ts, k |-> k, id |-> 100 + Len(inL)] IN
       /\ inL' = Append(inL, e) /\ lastSeen' = ts /\ envTs' = ts /\ Asserted(ts)
       /\ Apply(Append(left, e), right, ts, FALSE)
  /\ UNCHANGED <<inR, restart, closed>>
RightItem ==
  /\ ~closed /\ ~restart /\ ~panicked /\ Len(inR) < MAXR
  /\ \E ts \in envTs..TMAX, k \in KEYS :
       LET e == [ts |-> ts, k |-> k, id |-> 200 + Len(inR)] IN
       /\ inR' = Append(inR, e) /\ lastSeen' = ts /\ envTs' = ts /\ Asserted(ts)
       /\ Apply(left, [right EXCEPT ![k] = Append(@, e)], ts, FALSE)
  /\ UNCHANGED <<inL, restart, closed>>
Watermark ==
  /\ ~closed /\ ~restart /\ ~panicked
  /\ \E ts \in envTs..(TMAX + UPPER + 1) :
       /\ ts > envTs /\ lastSeen' = ts /\ envTs' = ts /\ Asserted(ts) /\ Apply(left, right, ts, FALSE)
  /\ UNCHANGED <<inL, inR, restart, closed>>
Restart ==
  /\ ~closed /\ ~restart /\ ~panicked /\ restart' = TRUE
  /\ Apply(left, right, lastSeen, TRUE)
  /\ UNCHANGED <<inL, inR, lastSeen, closed, envTs, panicked>>
(* next() with an empty buffer after the restart: the asserts of the code, then FlushAndRestart *)
Close == /\ restart /\ ~closed /\ closed' = TRUE
         /\ UNCHANGED <<inL, inR, left, right, lastSeen, restart, out, envTs, panicked>>

Next == LeftItem \/ RightItem \/ Watermark \/ Restart \/ Close
Spec == Init /\ [][Next]_vars

---------------------------------------------------------------------------
Rel == {<<inL[i].id, inR[j].id>> : <<i, j>> \in
          {p \in (DOMAIN inL) \X (DOMAIN inR) :
             /\ inL[p[1]].k = inR[p[2]].k
             /\ inL[p[1]].ts - LOWER <= inR[p[2]].ts /\ inR[p[2]].ts <= inL[p[1]].ts + UPPER}}
OutSet == Range(out)
(* C08: exactly the pairs of the definition, each once *)
JoinOK == closed => OutSet = Rel /\ Len(out) = Cardinality(Rel)
NoExtra == OutSet \subseteq Rel /\ Len(out) = Cardinality(OutSet)
NoPanic == ~panicked
(* the asserts of the FlushAndRestart arm / C05 *)
CleanAtRestart == closed => left = <<>> /\ \A k \in KEYS : right[k] = <<>>
=============================================================================
