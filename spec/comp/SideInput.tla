------------------------------ MODULE SideInput ------------------------------
(***************************************************************************)
(* `Start` over a `BinaryStartReceiver` whose RIGHT side is a cached side  *)
(* input of a loop (src/operator/start/binary.rs, start/mod.rs): a stream  *)
(* from outside the loop is joined/merged/zipped with the loop's stream    *)
(* inside the body.  The side input is read from its NS producers once and *)
(* replayed from the cache in every later round; the LEFT side is the loop *)
(* stream (NL producers, ROUNDS rounds, then Terminate).                   *)
(*                                                                         *)
(* The receiver and Start are the functions of comp/BinaryStart.tla (the   *)
(* same module trace/BinaryConform.tla replays real replicas through): the *)
(* state `st` is its record.  Actions follow the code:                     *)
(*   SendL / SendS   a producer puts one message (one element) into the    *)
(*                   channel of its side (any interleaving; the loop side  *)
(*                   is round-synchronised, see comp/Start.tla)            *)
(*   Next_Recv       Start::next has no current batch: `select` (the whole *)
(*                   decision tree of BinaryStartReceiver::select)         *)
(*   Next_Timeout    the same call with a receive timeout that expires     *)
(*                   (adaptive batching): Start emits FlushBatch           *)
(*   Next_Pop        Start::next takes the next element of the batch       *)
(* FIXED = FALSE is the code before the repair of finding F10: the flag    *)
(* first_message was cleared BEFORE the receive, so a timeout made the     *)
(* next call replay the cache although the loop might be over.             *)
(* FIXED8 = FALSE is the code before the repair of finding F8: with two or *)
(* more loop-side producers the first message after the last round is ONE  *)
(* producer's Terminate; the next call replayed the cache once more while  *)
(* the other Terminates were still on their way.                           *)
(*                                                                         *)
(* Properties (C11, from the text): every round presents the side input    *)
(* completely and exactly once, identically; Terminate comes once, last;   *)
(* the loop terminates.                                                    *)
(***************************************************************************)
EXTENDS Naturals, Integers, Sequences, FiniteSets, TLC, SequencesExt, Functions, BinaryStart

CONSTANTS NL,      \* producers of the loop side (LEFT, not cached)
          NS,      \* producers of the side input (RIGHT, cached)
          SD,      \* data items per side producer
          LD,      \* data items per loop producer per round
          ROUNDS,  \* rounds of the loop
          FIXED,   \* the repaired receiver (finding F10: flag cleared only after a successful receive)
          FIXED8,  \* the repaired receiver (finding F8: no cache replay once the loop side terminates)
          TIMEOUTS \* receive timeouts can happen

LP == 1..NL
SP == 1..NS

VARIABLES
  (* producers *)
  lRound, lData, lDone,     \* loop producer: completed rounds, data sent this round, Terminate sent
  sData, sStage,            \* side producer: data sent, "data" | "restarted" | "done"
  chL, chS,                 \* the two channels: sequences of one-element messages
  st,                       \* BinaryStartReceiver + Start (comp/BinaryStart.tla)
  (* observation *)
  out,                      \* what the operators of the block have seen
  emittedR                  \* FlushAndRestart emitted by Start
vars == <<lRound, lData, lDone, sData, sStage, chL, chS, st, out, emittedR>>
pvars == <<lRound, lData, lDone, sData, sStage>>

Init ==
  /\ lRound = [p \in LP |-> 0] /\ lData = [p \in LP |-> 0] /\ lDone = [p \in LP |-> FALSE]
  /\ sData = [p \in SP |-> 0] /\ sStage = [p \in SP |-> "data"]
  /\ chL = <<>> /\ chS = <<>>
  /\ st = BSInit(NL, NS, FALSE, TRUE)
  /\ out = <<>> /\ emittedR = 0

---------------------------------------------------------------------------
(* producers *)
(* the loop side is round-synchronised: round k+1 starts after this block ended round k *)
SendL(p) ==
  /\ ~lDone[p] /\ lRound[p] <= emittedR
  /\ \/ /\ lRound[p] < ROUNDS /\ lData[p] < LD
        /\ chL' = Append(chL, El("I", 100 * p + lData[p]))
        /\ lData' = [lData EXCEPT ![p] = @ + 1] /\ UNCHANGED <<lRound, lDone>>
     \/ /\ lRound[p] < ROUNDS
        /\ chL' = Append(chL, El("FR", 0))
        /\ lRound' = [lRound EXCEPT ![p] = @ + 1] /\ lData' = [lData EXCEPT ![p] = 0] /\ UNCHANGED lDone
     \/ /\ lRound[p] = ROUNDS
        /\ chL' = Append(chL, El("X", 0))
        /\ lDone' = [lDone EXCEPT ![p] = TRUE] /\ UNCHANGED <<lRound, lData>>
  /\ UNCHANGED <<sData, sStage, chS, st, out, emittedR>>

SendS(p) ==
  /\ sStage[p] # "done"
  /\ \/ /\ sStage[p] = "data" /\ sData[p] < SD
        /\ chS' = Append(chS, El("I", 10 * p + sData[p]))
        /\ sData' = [sData EXCEPT ![p] = @ + 1] /\ UNCHANGED sStage
     \/ /\ sStage[p] = "data" /\ sData[p] = SD
        /\ chS' = Append(chS, El("FR", 0))
        /\ sStage' = [sStage EXCEPT ![p] = "restarted"] /\ UNCHANGED sData
     \/ /\ sStage[p] = "restarted"
        /\ chS' = Append(chS, El("X", 0))
        /\ sStage' = [sStage EXCEPT ![p] = "done"] /\ UNCHANGED sData
  /\ UNCHANGED <<lRound, lData, lDone, chL, st, out, emittedR>>

---------------------------------------------------------------------------
Running == st.missX > 0    \* Start::next returns Terminate for ever once missing_terminate = 0

(* Start::next with an empty batch: `select` (blocking, or before the timeout expires) *)
Next_Recv ==
  /\ Running /\ st.missR > 0 /\ st.batch = <<>>
  /\ LET r == AfterReset(st)
         c == ChoiceX(r, FIXED8)
     IN CASE c[1] = "synth" -> st' = [r EXCEPT !.batch = SynthBatch(r), !.timedOut = FALSE] /\ UNCHANGED <<chL, chS>>
          [] c[1] = "cache" -> st' = [FromCache(r, c[2]) EXCEPT !.timedOut = FALSE] /\ UNCHANGED <<chL, chS>>
          [] c[1] = "recv"  ->
               \/ /\ "L" \in c[2] /\ chL # <<>>
                  /\ st' = [Received(r, "L", <<Head(chL)>>, c[3]) EXCEPT !.timedOut = FALSE]
                  /\ chL' = Tail(chL) /\ UNCHANGED chS
               \/ /\ "R" \in c[2] /\ chS # <<>>
                  /\ st' = [Received(r, "R", <<Head(chS)>>, c[3]) EXCEPT !.timedOut = FALSE]
                  /\ chS' = Tail(chS) /\ UNCHANGED chL
          [] OTHER -> FALSE
  /\ UNCHANGED <<pvars, out, emittedR>>

(* the receive times out: only possible when Start used recv_timeout (not right after a timeout) *)
(* and nothing is available where select looks                                                  *)
Next_Timeout ==
  /\ TIMEOUTS /\ Running /\ st.missR > 0 /\ st.batch = <<>> /\ ~st.timedOut
  /\ LET r == AfterReset(st)
         c == ChoiceX(r, FIXED8)
     IN /\ c[1] = "recv"
        /\ ("L" \in c[2] => chL = <<>>) /\ ("R" \in c[2] => chS = <<>>)
        (* before the repair of F10 the flag was cleared before the receive *)
        /\ st' = [r EXCEPT !.timedOut = TRUE, !.first = IF c[3] /\ ~FIXED THEN FALSE ELSE @]
  /\ out' = Append(out, El("B", 0))
  /\ UNCHANGED <<pvars, chL, chS, emittedR>>

(* Start::next pops one element of the current batch *)
Next_Pop ==
  /\ Running /\ st.missR > 0 /\ st.batch # <<>>
  /\ LET e == Head(st.batch) IN
     IF e.k \in {"FR", "X"} THEN st' = PopMarker(st) /\ out' = out
     ELSE st' = [st EXCEPT !.batch = Tail(@)] /\ out' = Append(out, e)
  /\ UNCHANGED <<pvars, chL, chS, emittedR>>

(* Start::next: all FlushAndRestart of the round counted *)
Next_EmitR ==
  /\ Running /\ st.missR = 0
  /\ st' = [st EXCEPT !.missR = st.n] /\ emittedR' = emittedR + 1
  /\ out' = Append(out, El("FR", 0))
  /\ UNCHANGED <<pvars, chL, chS>>

(* Start::next: all Terminate counted: the operator chain sees Terminate *)
Next_EmitX ==
  /\ st.missX = 0 /\ (out = <<>> \/ out[Len(out)].k # "X")
  /\ out' = Append(out, El("X", 0))
  /\ UNCHANGED <<pvars, chL, chS, st, emittedR>>

Next == (\E p \in LP : SendL(p)) \/ (\E p \in SP : SendS(p))
        \/ Next_Recv \/ Next_Timeout \/ Next_Pop \/ Next_EmitR \/ Next_EmitX
Spec == Init /\ [][Next]_vars
FairSpec == Spec /\ WF_vars(Next_Recv \/ Next_Pop \/ Next_EmitR \/ Next_EmitX)
                 /\ (\A p \in LP : WF_vars(SendL(p))) /\ (\A q \in SP : WF_vars(SendS(q)))

---------------------------------------------------------------------------
(* C11, over the output history *)
NoB(s) == SelectSeq(s, LAMBDA e : e.k # "B")
RECURSIVE SplitFR(_, _, _, _)
SplitFR(s, i, cur, acc) ==
  IF i > Len(s) THEN [closed |-> acc, open |-> cur]
  ELSE IF s[i].k = "FR" THEN SplitFR(s, i + 1, <<>>, Append(acc, cur))
  ELSE SplitFR(s, i + 1, Append(cur, s[i]), acc)
Rounds == SplitFR(NoB(out), 1, <<>>, <<>>)
SideItems(r) == SelectSeq(r, LAMBDA e : e.k = "R")
BagOf(s) == [x \in Range(s) |-> Cardinality({i \in DOMAIN s : s[i] = x})]
AllSide == BagOf([i \in 1..(NS * SD) |-> El("R", 10 * (((i - 1) \div SD) + 1) + ((i - 1) % SD))])

(* every closed round has seen the whole side input exactly once, and one RightEnd *)
SideCompleteEveryRound ==
  \A i \in 1..Len(Rounds.closed) :
    /\ BagOf(SideItems(Rounds.closed[i])) = AllSide
    /\ Cardinality({j \in DOMAIN Rounds.closed[i] : Rounds.closed[i][j].k = "RE"}) = 1
(* never more than the side input in a round (also while the round is open) *)
SideNeverDuplicated ==
  \A x \in DOMAIN BagOf(SideItems(Rounds.open)) : BagOf(SideItems(Rounds.open))[x] <= 1
(* exactly ROUNDS rounds, nothing after the last FlushAndRestart but Terminate *)
NoRoundAfterTheLast == Len(Rounds.closed) <= ROUNDS
NothingAfterLastRound ==
  Len(Rounds.closed) = ROUNDS => \A j \in DOMAIN Rounds.open : Rounds.open[j].k = "X"
TerminateOnce == Cardinality({j \in DOMAIN out : out[j].k = "X"}) <= 1
               /\ \A j \in DOMAIN out : out[j].k = "X" => j = Len(out)
CountersOK == /\ st.missR \in 0..(NL + NS) /\ st.missX \in 0..(NL + NS)
              /\ st.L.missR \in 0..NL /\ st.R.missR \in 0..NS /\ st.L.missX \in 0..NL /\ st.R.missX \in 0..NS
(* C04/C11: the loop terminates *)
OutTerminated == out # <<>> /\ out[Len(out)].k = "X"
EventuallyTerminates == <>OutTerminated
=============================================================================
