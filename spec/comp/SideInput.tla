------------------------------ MODULE SideInput ------------------------------
(***************************************************************************)
(* `Start` over a `BinaryStartReceiver` whose RIGHT side is a cached side  *)
(* input of a loop (src/operator/start/binary.rs, start/mod.rs): a stream  *)
(* from outside the loop is joined/merged/zipped with the loop's stream    *)
(* inside the body.  The side input is read from its NS producers once and *)
(* replayed from the cache in every later round; the LEFT side is the loop *)
(* stream (NL producers, ROUNDS rounds, then Terminate).                   *)
(*                                                                         *)
(* Actions follow the code:                                                *)
(*   SendL / SendS   a producer puts one message (one element) into the    *)
(*                   channel of its side (any interleaving; the loop side  *)
(*                   is round-synchronised, see comp/Start.tla)            *)
(*   Next_Recv       Start::next has no current batch: `select` (the whole *)
(*                   decision tree of BinaryStartReceiver::select)         *)
(*   Next_Timeout    the same call with a receive timeout that expires     *)
(*                   (adaptive batching): Start emits FlushBatch           *)
(*   Next_Pop        Start::next takes the next element of the batch       *)
(* FIXED = FALSE is the code before the repair of finding F10: the flag    *)
(* first_message was cleared BEFORE the receive, so a timeout made the     *)
(* next call replay the cache although the loop might be over.             *)
(* FIXED8 = FALSE is the code before the repair of finding F8: with two or *)
(* more loop-side producers the first message after the last round is ONE  *)
(* producer's Terminate; the next call replayed the cache once more while  *)
(* the other Terminates were still on their way.                           *)
(*                                                                         *)
(* Properties (C11, from the text): every round presents the side input    *)
(* completely and exactly once, identically; Terminate comes once, last;   *)
(* the loop terminates.                                                    *)
(***************************************************************************)
EXTENDS Naturals, Integers, Sequences, FiniteSets, TLC, SequencesExt, Functions

CONSTANTS NL,      \* producers of the loop side
          NS,      \* producers of the side input
          SD,      \* data items per side producer
          LD,      \* data items per loop producer per round
          ROUNDS,  \* rounds of the loop
          FIXED,   \* the repaired receiver (finding F10: flag cleared only after a successful receive)
          FIXED8,  \* the repaired receiver (finding F8: no cache replay once the loop side terminates)
          TIMEOUTS \* receive timeouts can happen

LP == 1..NL
SP == 1..NS
El(k, v) == [k |-> k, v |-> v]      \* k: "L" "R" data, "LE" "RE" end-of-side markers, "FR", "X", "B"

VARIABLES
  (* producers *)
  lRound, lData, lDone,     \* loop producer: completed rounds, data sent this round, Terminate sent
  sData, sStage,            \* side producer: data sent, "data" | "restarted" | "done"
  chL, chS,                 \* the two channels: sequences of elements
  (* BinaryStartReceiver *)
  lMissR, lMissX, sMissR, sMissX,
  cache, cacheFull, cachePtr, firstMsg,
  (* Start *)
  batch,                    \* elements of the current batch still to pop
  missR, missX, timedOut,
  (* observation *)
  out,                      \* what the operators of the block have seen
  emittedR                  \* FlushAndRestart emitted by Start
vars == <<lRound, lData, lDone, sData, sStage, chL, chS, lMissR, lMissX, sMissR, sMissX,
          cache, cacheFull, cachePtr, firstMsg, batch, missR, missX, timedOut, out, emittedR>>
pvars == <<lRound, lData, lDone, sData, sStage>>
rvars == <<lMissR, lMissX, sMissR, sMissX, cache, cacheFull, cachePtr, firstMsg>>

Init ==
  /\ lRound = [p \in LP |-> 0] /\ lData = [p \in LP |-> 0] /\ lDone = [p \in LP |-> FALSE]
  /\ sData = [p \in SP |-> 0] /\ sStage = [p \in SP |-> "data"]
  /\ chL = <<>> /\ chS = <<>>
  /\ lMissR = NL /\ lMissX = NL /\ sMissR = NS /\ sMissX = NS
  /\ cache = <<>> /\ cacheFull = FALSE /\ cachePtr = 0 /\ firstMsg = FALSE
  /\ batch = <<>> /\ missR = NL + NS /\ missX = NL + NS /\ timedOut = FALSE
  /\ out = <<>> /\ emittedR = 0

---------------------------------------------------------------------------
(* producers *)
(* the loop side is round-synchronised: round k+1 starts after this block ended round k *)
SendL(p) ==
  /\ ~lDone[p] /\ lRound[p] <= emittedR
  /\ \/ /\ lRound[p] < ROUNDS /\ lData[p] < LD
        /\ chL' = Append(chL, El("L", 100 * p + lData[p]))
        /\ lData' = [lData EXCEPT ![p] = @ + 1] /\ UNCHANGED <<lRound, lDone>>
     \/ /\ lRound[p] < ROUNDS
        /\ chL' = Append(chL, El("FR", 0))
        /\ lRound' = [lRound EXCEPT ![p] = @ + 1] /\ lData' = [lData EXCEPT ![p] = 0] /\ UNCHANGED lDone
     \/ /\ lRound[p] = ROUNDS
        /\ chL' = Append(chL, El("X", 0))
        /\ lDone' = [lDone EXCEPT ![p] = TRUE] /\ UNCHANGED <<lRound, lData>>
  /\ UNCHANGED <<sData, sStage, chS, rvars, batch, missR, missX, timedOut, out, emittedR>>

SendS(p) ==
  /\ sStage[p] # "done"
  /\ \/ /\ sStage[p] = "data" /\ sData[p] < SD
        /\ chS' = Append(chS, El("R", 10 * p + sData[p]))
        /\ sData' = [sData EXCEPT ![p] = @ + 1] /\ UNCHANGED sStage
     \/ /\ sStage[p] = "data" /\ sData[p] = SD
        /\ chS' = Append(chS, El("FR", 0))
        /\ sStage' = [sStage EXCEPT ![p] = "restarted"] /\ UNCHANGED sData
     \/ /\ sStage[p] = "restarted"
        /\ chS' = Append(chS, El("X", 0))
        /\ sStage' = [sStage EXCEPT ![p] = "done"] /\ UNCHANGED sData
  /\ UNCHANGED <<lRound, lData, lDone, chL, rvars, batch, missR, missX, timedOut, out, emittedR>>

---------------------------------------------------------------------------
(* BinaryStartReceiver *)
LEnded == lMissR = 0                 \* not cached: ended when all FlushAndRestart arrived
SEnded == sMissX = 0                 \* cached: ended only when terminated
LTerm == lMissX = 0
STerm == sMissX = 0
CacheFinished == cachePtr >= Len(cache)

(* process_side for the loop side: one message with one element -> the batch handed to Start *)
ProcL(e) ==
  LET mr == IF e.k = "FR" THEN lMissR - 1 ELSE lMissR IN
  [msg |-> (IF e.k = "FR" /\ mr = 0 THEN <<El("LE", 0)>> ELSE <<>>) \o <<e>>,
   missR |-> mr, missX |-> IF e.k = "X" THEN lMissX - 1 ELSE lMissX]
(* process_side for the cached side: Terminate is swallowed, the message is appended to the cache *)
ProcS(e) ==
  LET mr == IF e.k = "FR" THEN sMissR - 1 ELSE sMissR IN
  [msg |-> (IF e.k = "FR" /\ mr = 0 THEN <<El("RE", 0)>> ELSE <<>>) \o (IF e.k = "X" THEN <<>> ELSE <<e>>),
   missR |-> mr, missX |-> IF e.k = "X" THEN sMissX - 1 ELSE sMissX]

(* The state of the receiver after the `reset` that select performs first (or unchanged) *)
NeedReset == LEnded /\ SEnded /\ CacheFinished
AfterReset ==
  IF NeedReset THEN [lMissR |-> NL, sMissR |-> NS, cacheFull |-> TRUE, cachePtr |-> 0, firstMsg |-> TRUE]
  ELSE [lMissR |-> lMissR, sMissR |-> sMissR, cacheFull |-> cacheFull, cachePtr |-> cachePtr, firstMsg |-> firstMsg]

(* Which source does `select` read from, given the state s after the optional reset?             *)
(*   "synth"  both sides terminated: the Terminates of the cached side are synthesised           *)
(*   "L"/"S"  receive from that channel only       "LS" select on both                           *)
(*   "cache"  next cached message                                                                *)
Choice(s) ==
  IF LTerm /\ STerm THEN "synth"
  ELSE IF s.firstMsg THEN "Lfirst"
  ELSE IF s.cacheFull /\ s.cachePtr < Len(cache) /\ ~(FIXED8 /\ lMissX < NL) THEN "cache"
  ELSE IF s.lMissR = 0 THEN "S"
  ELSE IF SEnded THEN "L"
  ELSE IF LTerm THEN "S" ELSE IF STerm THEN "L" ELSE "LS"

(* Start hands a batch to itself *)
TakeL(s, first) ==
  /\ chL # <<>>
  /\ LET pr == ProcL(Head(chL)) IN
     /\ batch' = pr.msg
     /\ lMissR' = IF Head(chL).k = "FR" THEN s.lMissR - 1 ELSE s.lMissR
     /\ lMissX' = pr.missX
     /\ chL' = Tail(chL)
  /\ sMissR' = s.sMissR /\ cacheFull' = s.cacheFull /\ cachePtr' = s.cachePtr
  /\ firstMsg' = IF first THEN FALSE ELSE s.firstMsg
  /\ UNCHANGED <<chS, sMissX, cache>>

TakeS(s) ==
  /\ chS # <<>>
  /\ LET e == Head(chS)
         mr == IF e.k = "FR" THEN s.sMissR - 1 ELSE s.sMissR
         msg == (IF e.k = "FR" /\ mr = 0 THEN <<El("RE", 0)>> ELSE <<>>) \o (IF e.k = "X" THEN <<>> ELSE <<e>>)
     IN /\ batch' = msg
        /\ sMissR' = mr
        /\ sMissX' = IF e.k = "X" THEN sMissX - 1 ELSE sMissX
        /\ cache' = Append(cache, msg)
        /\ cachePtr' = Len(cache) + 1
        /\ chS' = Tail(chS)
  /\ lMissR' = s.lMissR /\ cacheFull' = s.cacheFull /\ firstMsg' = s.firstMsg
  /\ UNCHANGED <<chL, lMissX>>

TakeCache(s) ==
  /\ batch' = cache[s.cachePtr + 1]
  /\ cachePtr' = s.cachePtr + 1
  (* "Items are simply returned, so flush and restarts are not counted properly. Just make sure *)
  (* that when the cache ends the counter is zero."                                             *)
  /\ sMissR' = IF s.cachePtr + 1 >= Len(cache) THEN 0 ELSE s.sMissR
  /\ lMissR' = s.lMissR /\ cacheFull' = s.cacheFull /\ firstMsg' = s.firstMsg
  /\ UNCHANGED <<chL, chS, lMissX, sMissX, cache>>

Synth(s) ==
  /\ batch' = [i \in 1..NS |-> El("X", 0)]
  /\ lMissR' = s.lMissR /\ sMissR' = s.sMissR /\ cacheFull' = s.cacheFull /\ cachePtr' = s.cachePtr
  /\ firstMsg' = s.firstMsg
  /\ UNCHANGED <<chL, chS, lMissX, sMissX, cache>>

Running == missX > 0    \* Start::next returns Terminate for ever once missing_terminate = 0

(* Start::next with an empty batch: receive (blocking, or before the timeout expires) *)
Next_Recv ==
  /\ Running /\ missR > 0 /\ batch = <<>>
  /\ LET s == AfterReset
         c == Choice(s)
     IN CASE c = "synth"  -> Synth(s)
          [] c = "Lfirst" -> TakeL(s, TRUE)
          [] c = "cache"  -> TakeCache(s)
          [] c = "L"      -> TakeL(s, FALSE)
          [] c = "S"      -> TakeS(s)
          [] c = "LS"     -> TakeL(s, FALSE) \/ TakeS(s)
  /\ timedOut' = FALSE
  /\ UNCHANGED <<pvars, missR, missX, out, emittedR>>

(* the receive times out: only possible when Start used recv_timeout (not right after a timeout) *)
(* and nothing is available where select looks                                                  *)
Next_Timeout ==
  /\ TIMEOUTS /\ Running /\ missR > 0 /\ batch = <<>> /\ ~timedOut
  /\ LET s == AfterReset
         c == Choice(s)
     IN /\ c \in {"Lfirst", "L", "S", "LS"}
        /\ (c \in {"Lfirst", "L"} => chL = <<>>) /\ (c = "S" => chS = <<>>)
        /\ (c = "LS" => chL = <<>> /\ chS = <<>>)
        /\ lMissR' = s.lMissR /\ sMissR' = s.sMissR /\ cacheFull' = s.cacheFull /\ cachePtr' = s.cachePtr
        (* before the repair the flag was cleared before the receive *)
        /\ firstMsg' = IF c = "Lfirst" /\ ~FIXED THEN FALSE ELSE s.firstMsg
  /\ timedOut' = TRUE
  /\ out' = Append(out, El("B", 0))
  /\ UNCHANGED <<pvars, chL, chS, lMissX, sMissX, cache, batch, missR, missX, emittedR>>

(* Start::next pops one element of the current batch *)
Next_Pop ==
  /\ Running /\ missR > 0 /\ batch # <<>>
  /\ LET e == Head(batch) IN
     /\ batch' = Tail(batch)
     /\ missR' = IF e.k = "FR" THEN missR - 1 ELSE missR
     /\ missX' = IF e.k = "X" THEN missX - 1 ELSE missX
     /\ out' = IF e.k \in {"FR", "X"} THEN out ELSE Append(out, e)
  /\ UNCHANGED <<pvars, chL, chS, rvars, timedOut, emittedR>>

(* Start::next: all FlushAndRestart of the round counted *)
Next_EmitR ==
  /\ Running /\ missR = 0
  /\ missR' = NL + NS /\ emittedR' = emittedR + 1
  /\ out' = Append(out, El("FR", 0))
  /\ UNCHANGED <<pvars, chL, chS, rvars, batch, missX, timedOut>>

(* Start::next: all Terminate counted: the operator chain sees Terminate *)
Next_EmitX ==
  /\ missX = 0 /\ (out = <<>> \/ out[Len(out)].k # "X")
  /\ out' = Append(out, El("X", 0))
  /\ UNCHANGED <<pvars, chL, chS, rvars, batch, missR, missX, timedOut, emittedR>>

Next == (\E p \in LP : SendL(p)) \/ (\E p \in SP : SendS(p))
        \/ Next_Recv \/ Next_Timeout \/ Next_Pop \/ Next_EmitR \/ Next_EmitX
Spec == Init /\ [][Next]_vars
FairSpec == Spec /\ WF_vars(Next_Recv \/ Next_Pop \/ Next_EmitR \/ Next_EmitX)
                 /\ (\A p \in LP : WF_vars(SendL(p))) /\ (\A q \in SP : WF_vars(SendS(q)))

---------------------------------------------------------------------------
(* C11, over the output history *)
NoB(s) == SelectSeq(s, LAMBDA e : e.k # "B")
RECURSIVE SplitFR(_, _, _, _)
SplitFR(s, i, cur, acc) ==
  IF i > Len(s) THEN [closed |-> acc, open |-> cur]
  ELSE IF s[i].k = "FR" THEN SplitFR(s, i + 1, <<>>, Append(acc, cur))
  ELSE SplitFR(s, i + 1, Append(cur, s[i]), acc)
Rounds == SplitFR(NoB(out), 1, <<>>, <<>>)
SideItems(r) == SelectSeq(r, LAMBDA e : e.k = "R")
BagOf(s) == [x \in Range(s) |-> Cardinality({i \in DOMAIN s : s[i] = x})]
AllSide == BagOf([i \in 1..(NS * SD) |-> El("R", 10 * (((i - 1) \div SD) + 1) + ((i - 1) % SD))])

(* every closed round has seen the whole side input exactly once, and one RightEnd *)
SideCompleteEveryRound ==
  \A i \in 1..Len(Rounds.closed) :
    /\ BagOf(SideItems(Rounds.closed[i])) = AllSide
    /\ Cardinality({j \in DOMAIN Rounds.closed[i] : Rounds.closed[i][j].k = "RE"}) = 1
(* never more than the side input in a round (also while the round is open) *)
SideNeverDuplicated ==
  \A x \in DOMAIN BagOf(SideItems(Rounds.open)) : BagOf(SideItems(Rounds.open))[x] <= 1
(* exactly ROUNDS rounds, nothing after the last FlushAndRestart but Terminate *)
NoRoundAfterTheLast == Len(Rounds.closed) <= ROUNDS
NothingAfterLastRound ==
  Len(Rounds.closed) = ROUNDS => \A j \in DOMAIN Rounds.open : Rounds.open[j].k = "X"
TerminateOnce == Cardinality({j \in DOMAIN out : out[j].k = "X"}) <= 1
               /\ \A j \in DOMAIN out : out[j].k = "X" => j = Len(out)
CountersOK == missR \in 0..(NL + NS) /\ missX \in 0..(NL + NS) /\ lMissR \in 0..NL /\ sMissR \in 0..NS
(* C04/C11: the loop terminates *)
Terminated == out # <<>> /\ out[Len(out)].k = "X"
EventuallyTerminates == <>Terminated
=============================================================================
