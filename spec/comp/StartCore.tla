------------------------------ MODULE StartCore ------------------------------
(***************************************************************************)
(* The single-input block head as coded, as pure functions over a state    *)
(* record: Start::next (start/mod.rs) over a SimpleStartReceiver, with the *)
(* WatermarkFrontier (start/watermark_frontier.rs) and whole network       *)
(* messages.  comp/Start.tla uses the frontier functions for its           *)
(* exhaustive exploration; trace/StartConform.tla replays the receive and  *)
(* output events of real replicas through the whole record.                *)
(* Elements: [k, v, ts], k = I | T | W | FR | X | B.                       *)
(***************************************************************************)
EXTENDS Naturals, Integers, Sequences, FiniteSets

NOTS == -1          \* Option::None of a timestamp
TSMAX == 1000000    \* Timestamp::MAX stand-in (larger than every timestamp used)

(* WatermarkFrontier::compute_frontier over the map w (sender -> timestamp or NOTS) *)
FrontierOf(w) ==
  IF \E p \in DOMAIN w : w[p] = NOTS THEN NOTS
  ELSE CHOOSE m \in {w[p] : p \in DOMAIN w} : \A q \in DOMAIN w : m <= w[q]

(* WatermarkFrontier::update(coord, ts) as coded: [w, f, emit] (emit = NOTS: nothing is safe yet) *)
UpdateW(w, f, p, t) ==
  IF w[p] # NOTS /\ w[p] >= t THEN [w |-> w, f |-> f, emit |-> NOTS]
  ELSE LET w2 == [w EXCEPT ![p] = t]
           f2 == FrontierOf(w2)
       IN [w |-> w2, f |-> f2, emit |-> IF f2 # NOTS /\ f2 # f THEN f2 ELSE NOTS]

SInit(senders) ==
  [n |-> Cardinality(senders), missR |-> Cardinality(senders), missX |-> Cardinality(senders),
   batch |-> <<>>, sender |-> "", wm |-> [p \in senders |-> NOTS], front |-> NOTS, timedOut |-> FALSE]

(* a message of `from` was received *)
SReceived(s, from, els) == [s EXCEPT !.batch = els, !.sender = from, !.timedOut = FALSE]

(* Start::next consumes the head of the batch WITHOUT handing anything on:                   *)
(*   a watermark that makes nothing new safe, a FlushAndRestart (the frontier is told the    *)
(*   replica ended, the returned value is dropped - finding F6), a Terminate                 *)
Silent(s) ==
  LET e == Head(s.batch) IN
  IF e.k = "W" THEN UpdateW(s.wm, s.front, s.sender, e.ts).emit = NOTS
  ELSE e.k \in {"FR", "X"}
PopSilent(s) ==
  LET e == Head(s.batch) IN
  CASE e.k = "W"  -> LET u == UpdateW(s.wm, s.front, s.sender, e.ts) IN
                     [s EXCEPT !.batch = Tail(@), !.wm = u.w, !.front = u.f]
    [] e.k = "FR" -> LET u == UpdateW(s.wm, s.front, s.sender, TSMAX) IN
                     [s EXCEPT !.batch = Tail(@), !.wm = u.w, !.front = u.f, !.missR = @ - 1]
    [] e.k = "X"  -> [s EXCEPT !.batch = Tail(@), !.missX = @ - 1]

(* what Start hands on for the head of the batch when it is not silent *)
HeadOut(s) ==
  LET e == Head(s.batch) IN
  IF e.k = "W" THEN [k |-> "W", v |-> 0, ts |-> UpdateW(s.wm, s.front, s.sender, e.ts).emit] ELSE e
PopOut(s) ==
  LET e == Head(s.batch) IN
  IF e.k = "W" THEN LET u == UpdateW(s.wm, s.front, s.sender, e.ts) IN
                    [s EXCEPT !.batch = Tail(@), !.wm = u.w, !.front = u.f]
  ELSE [s EXCEPT !.batch = Tail(@)]

(* all FlushAndRestart counted: the iteration ends, the frontier is reset *)
EmitRestart(s) == [s EXCEPT !.missR = s.n, !.wm = [p \in DOMAIN s.wm |-> NOTS], !.front = NOTS]
=============================================================================
