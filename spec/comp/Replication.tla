---------------------------- MODULE Replication ----------------------------
(***************************************************************************)
(* Replication requirements of a block (src/block/mod.rs `Replication`).    *)
(* A block accumulates requirements (`Scheduling::replication` intersects   *)
(* every new requirement with the current one): sources, `zip`, `fold`,     *)
(* windows over the whole stream and binary connections all add theirs.     *)
(*                                                                         *)
(* Two definitions, checked against each other by TLC and bound to the      *)
(* code by conformance (C19 evaluates the real `Replication::intersect` on  *)
(* every pair that `Pairs` enumerates):                                     *)
(*   IntersectCoded  the match of `intersect`, arm by arm, first match wins *)
(*   Meet            the requirement: the more restrictive of the two in    *)
(*                   the order One < Host < Limited(1) < Limited(2) < ...   *)
(*                   < Unlimited                                            *)
(* `Clamp` is `Replication::clamp` (replicas on one host with n cores       *)
(* before the host-by-host filling that ExecGraph!LimitedOn models).        *)
(***************************************************************************)
EXTENDS Naturals, FiniteSets, TLC, Json

CONSTANT MAXLIM      \* limits 1..MAXLIM

Unl == [k |-> "Unlimited", n |-> 0]
Hst == [k |-> "Host", n |-> 0]
One == [k |-> "One", n |-> 0]
Lim(n) == [k |-> "Limited", n |-> n]
Dom == {Unl, Hst, One} \cup {Lim(n) : n \in 1..MAXLIM}

Min(a, b) == IF a <= b THEN a ELSE b

\* the match arms of `intersect`, in source order
IntersectCoded(a, b) ==
  IF a.k = "One" \/ b.k = "One" THEN One
  ELSE IF a.k = "Host" \/ b.k = "Host" THEN Hst
  ELSE IF a.k = "Limited" /\ b.k = "Limited" THEN Lim(Min(a.n, b.n))
  ELSE IF a.k = "Limited" THEN Lim(a.n)
  ELSE IF b.k = "Limited" THEN Lim(b.n)
  ELSE Unl

\* the requirement: a total order of restrictiveness
Rank(a) == CASE a.k = "One" -> 0
             [] a.k = "Host" -> 1
             [] a.k = "Limited" -> 1 + a.n
             [] a.k = "Unlimited" -> 2 + MAXLIM
Meet(a, b) == IF Rank(a) <= Rank(b) THEN a ELSE b

Clamp(a, cores) == CASE a.k = "Unlimited" -> cores
                     [] a.k = "Limited" -> Min(cores, a.n)
                     [] OTHER -> 1

CodedIsMeet     == \A a, b \in Dom : IntersectCoded(a, b) = Meet(a, b)
Commutative     == \A a, b \in Dom : IntersectCoded(a, b) = IntersectCoded(b, a)
Associative     == \A a, b, c \in Dom :
                     IntersectCoded(IntersectCoded(a, b), c) = IntersectCoded(a, IntersectCoded(b, c))
Idempotent      == \A a \in Dom : IntersectCoded(a, a) = a
UnlimitedNeutral == \A a \in Dom : IntersectCoded(a, Unl) = a
OneAbsorbs      == \A a \in Dom : IntersectCoded(a, One) = One
\* what the operators rely on: after `replication(One)` the block has ONE replica whatever else was
\* required (zip, global fold, windows over the whole stream); a Limited requirement is never widened
NeverWider      == \A a, b \in Dom : \A cores \in 1..(MAXLIM + 1) :
                     a.k # "Host" /\ b.k # "Host" =>
                       Clamp(IntersectCoded(a, b), cores) = Min(Clamp(a, cores), Clamp(b, cores))

Str(a) == IF a.k = "Limited" THEN [k |-> a.k, n |-> a.n] ELSE [k |-> a.k, n |-> 0]
Pairs == {[a |-> Str(p[1]), b |-> Str(p[2]), r |-> Str(Meet(p[1], p[2]))] : p \in Dom \X Dom}

ASSUME CodedIsMeet /\ Commutative /\ Associative /\ Idempotent /\ UnlimitedNeutral /\ OneAbsorbs /\ NeverWider
ASSUME \A x \in Pairs : PrintT(<<"REPLAY", ToJson(x)>>)
=============================================================================
