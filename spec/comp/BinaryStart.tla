----------------------------- MODULE BinaryStart -----------------------------
(***************************************************************************)
(* The two-input block head as coded, as pure functions over a state       *)
(* record: `Start<BinaryStartReceiver>` = Start::next (start/mod.rs) over   *)
(* BinaryStartReceiver::select / process_side / SideReceiver (start/        *)
(* binary.rs), with whole network messages (several elements), either side *)
(* cached or none.  Shared by trace/BinaryConform.tla, which replays the   *)
(* receive and output events of real replicas through it.                  *)
(*                                                                         *)
(* Elements: [k, v] with k = "I" data, "FR" FlushAndRestart, "X" Terminate *)
(* on the wire; handed to the operators: "L"/"R" data of the left / right  *)
(* side, "LE"/"RE" end of side, "FR", "X", "B" (FlushBatch after a receive *)
(* timeout).                                                               *)
(***************************************************************************)
EXTENDS Naturals, Integers, Sequences

El(k, v) == [k |-> k, v |-> v]

(* SideReceiver *)
SideInit(inst, cached) ==
  [inst |-> inst, missR |-> inst, missX |-> inst, cached |-> cached,
   cache |-> <<>>, cacheFull |-> FALSE, cachePtr |-> 0]
Terminated(s) == s.missX = 0
Terminating(s) == s.missX < s.inst
Ended(s) == IF s.cached THEN Terminated(s) ELSE s.missR = 0
CacheFinished(s) == s.cachePtr >= Len(s.cache)
SideReset(s) == IF s.cached THEN [s EXCEPT !.missR = s.inst, !.cacheFull = TRUE, !.cachePtr = 0]
                ELSE [s EXCEPT !.missR = s.inst]

(* process_side: wrap the elements, insert the end-of-side item before the FlushAndRestart that *)
(* completes the side, count the markers, keep Terminate out of a cached side, fill the cache   *)
RECURSIVE ProcEls(_, _, _, _, _, _)
ProcEls(s, els, i, acc, wrapk, endk) ==
  IF i > Len(els) THEN [s |-> s, out |-> acc]
  ELSE LET e    == els[i]
           s1   == IF e.k = "FR" THEN [s EXCEPT !.missR = @ - 1] ELSE s
           pre  == IF e.k = "FR" /\ s1.missR = 0 THEN <<El(endk, 0)>> ELSE <<>>
           s2   == IF e.k = "X" THEN [s1 EXCEPT !.missX = @ - 1] ELSE s1
           keep == IF s.cached /\ e.k = "X" THEN <<>>
                   ELSE IF e.k = "I" THEN <<El(wrapk, e.v)>> ELSE <<e>>
       IN ProcEls(s2, els, i + 1, acc \o pre \o keep, wrapk, endk)
ProcessSide(s, els, wrapk, endk) ==
  LET r == ProcEls(s, els, 1, <<>>, wrapk, endk) IN
  IF s.cached THEN [s |-> [r.s EXCEPT !.cache = Append(@, r.out), !.cachePtr = Len(r.s.cache) + 1], out |-> r.out]
  ELSE r

(* next_cached_item *)
NextCached(s) ==
  LET p == s.cachePtr + 1 IN
  [s |-> [s EXCEPT !.cachePtr = p, !.missR = IF p >= Len(s.cache) THEN 0 ELSE @], out |-> s.cache[p]]

(* BinaryStartReceiver + Start *)
BSInit(nl, nr, cl, cr) ==
  [L |-> SideInit(nl, cl), R |-> SideInit(nr, cr), first |-> FALSE,
   batch |-> <<>>, missR |-> nl + nr, missX |-> nl + nr, n |-> nl + nr, timedOut |-> FALSE]

(* the reset select performs first when both sides ended and the caches were read *)
AfterReset(st) ==
  IF Ended(st.L) /\ Ended(st.R) /\ CacheFinished(st.L) /\ CacheFinished(st.R)
  THEN [st EXCEPT !.L = SideReset(st.L), !.R = SideReset(st.R), !.first = TRUE]
  ELSE st

(* where select looks, for the state AFTER the reset:                                            *)
(*   "synth"             both sides terminated, the Terminates of the cached side are made up    *)
(*   <<"recv", sides, first>>  a receive on the channels of `sides`                              *)
(*   <<"cache", side>>   the next cached message of that side                                    *)
(*   "none"              nothing can be received (both terminated, nothing cached)               *)
(* f8 = FALSE: the code before the repair of finding F8 (the cache was replayed again while the    *)
(* Terminates of the other side were still arriving)                                              *)
ChoiceX(st, f8) ==
  IF Terminated(st.L) /\ Terminated(st.R) /\ (st.L.cached \/ st.R.cached) THEN <<"synth">>
  ELSE IF st.first /\ (st.L.cached \/ st.R.cached)
       THEN <<"recv", IF st.L.cached THEN {"R"} ELSE {"L"}, TRUE>>
  ELSE IF st.L.cached /\ st.L.cacheFull /\ ~CacheFinished(st.L) /\ ~(f8 /\ Terminating(st.R)) THEN <<"cache", "L">>
  ELSE IF st.R.cached /\ st.R.cacheFull /\ ~CacheFinished(st.R) /\ ~(f8 /\ Terminating(st.L)) THEN <<"cache", "R">>
  ELSE IF Ended(st.L) THEN <<"recv", {"R"}, FALSE>>
  ELSE IF Ended(st.R) THEN <<"recv", {"L"}, FALSE>>
  ELSE LET sides == (IF Terminated(st.L) THEN {} ELSE {"L"}) \cup (IF Terminated(st.R) THEN {} ELSE {"R"})
       IN IF sides = {} THEN <<"none">> ELSE <<"recv", sides, FALSE>>

Choice(st) == ChoiceX(st, TRUE)

SynthBatch(st) == [i \in 1..(IF st.L.cached THEN st.L.inst ELSE st.R.inst) |-> El("X", 0)]

(* a message of `side` was received by the select of state st (already reset): the new state *)
Received(st, side, els, first) ==
  LET pr == IF side = "L" THEN ProcessSide(st.L, els, "L", "LE") ELSE ProcessSide(st.R, els, "R", "RE")
      s1 == IF side = "L" THEN [st EXCEPT !.L = pr.s] ELSE [st EXCEPT !.R = pr.s]
  IN [s1 EXCEPT !.batch = pr.out, !.first = IF first THEN FALSE ELSE @]
FromCache(st, side) ==
  LET nc == IF side = "L" THEN NextCached(st.L) ELSE NextCached(st.R)
      s1 == IF side = "L" THEN [st EXCEPT !.L = nc.s] ELSE [st EXCEPT !.R = nc.s]
  IN [s1 EXCEPT !.batch = nc.out]

(* Start::next pops a marker of the current batch without handing anything to the operators *)
PopMarker(st) ==
  LET e == Head(st.batch) IN
  [st EXCEPT !.batch = Tail(@), !.missR = IF e.k = "FR" THEN @ - 1 ELSE @,
             !.missX = IF e.k = "X" THEN @ - 1 ELSE @]
=============================================================================
