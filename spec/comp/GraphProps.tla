----------------------------- MODULE GraphProps -----------------------------
(***************************************************************************)
(* C19 (and the link part of C03): what a well-formed execution graph is,  *)
(* written from the property text, as predicates over                      *)
(*   cores   : sequence of core counts, one per host (host ids are 0-based) *)
(*   g       : a graph as one host derived it, a record                     *)
(*     blocks : sequence of [id, repl, lim, fwd, next, replicas]            *)
(*        repl \in {"Unlimited","Limited","Host","One"}, lim the limit      *)
(*        fwd      the block's outgoing connections are forward ones        *)
(*        next     sequence of [to, fragile]                                *)
(*        replicas sequence of [h, r, gid]                                  *)
(*     links  : sequence of [fb, fh, fr, tb, th, tr]                        *)
(*     addrs  : sequence of [b, h, prev, addr]   (addr a string)            *)
(* Every predicate returns the set of violated kinds (with a witness).     *)
(***************************************************************************)
EXTENDS Naturals, Integers, Sequences, FiniteSets

Range(s) == {s[i] : i \in DOMAIN s}
NH(cores) == Len(cores)

(* --- replicas per replication requirement ------------------------------ *)
RECURSIVE Before(_, _, _)
Before(cores, h, lim) ==   \* replicas handed out to hosts 0..h-1 under a limit
  IF h = 0 THEN 0
  ELSE LET b == Before(cores, h - 1, lim)
           n == IF lim - b < cores[h] THEN lim - b ELSE cores[h]
       IN b + n
LimitedOn(cores, h, lim) ==  \* replicas on host h (0-based) under a limit
  LET b == Before(cores, h, lim)
      c == cores[h + 1]
  IN IF lim - b < c THEN (IF lim - b > 0 THEN lim - b ELSE 0) ELSE c

ExpectedReplicas(cores, repl, lim) ==
  CASE repl = "Unlimited" -> {p \in (0..(NH(cores) - 1)) \X (0..10) : p[2] < cores[p[1] + 1]}
    [] repl = "Limited"   -> {p \in (0..(NH(cores) - 1)) \X (0..10) : p[2] < LimitedOn(cores, p[1], lim)}
    [] repl = "Host"      -> {<<h, 0>> : h \in 0..(NH(cores) - 1)}
    [] repl = "One"       -> {<<0, 0>>}

ReplicaSet(b) == {<<x.h, x.r>> : x \in Range(b.replicas)}

BadReplicaSet(cores, g) ==
  {b.id : b \in {x \in Range(g.blocks) : ReplicaSet(x) # ExpectedReplicas(cores, x.repl, x.lim)}}

(* every replica of a block has a distinct global index in 0..#replicas-1 *)
BadGlobalIds(g) ==
  {b.id : b \in {x \in Range(g.blocks) :
      LET ids == {y.gid : y \in Range(x.replicas)} IN
      ~(ids = 0..(Len(x.replicas) - 1) /\ Cardinality(ids) = Len(x.replicas))}}

(* --- links -------------------------------------------------------------- *)
BlockOf(g, id) == CHOOSE b \in Range(g.blocks) : b.id = id
HasBlock(g, id) == \E b \in Range(g.blocks) : b.id = id
Consumers(g, fb, fh, fr, tb) ==
  {<<k.th, k.tr>> : k \in {x \in Range(g.links) : x.fb = fb /\ x.fh = fh /\ x.fr = fr /\ x.tb = tb}}

RealEdges(g) == UNION {{<<b.id, n.to, b.fwd \/ n.fragile>> : n \in Range(b.next)} : b \in Range(g.blocks)}

(* forward connection: every producer replica has exactly one consumer, the same-index one when *)
(* it exists                                                                                     *)
BadForward(g) ==
  UNION {
    LET A == BlockOf(g, e[1])
        B == BlockOf(g, e[2])
    IN {[kind |-> (IF Consumers(g, e[1], a[1], a[2], e[2]) = {} THEN "forward_link_missing"
                   ELSE IF Cardinality(Consumers(g, e[1], a[1], a[2], e[2])) > 1 THEN "forward_link_extra"
                   ELSE "forward_not_same_index"),
         from |-> e[1], to |-> e[2], producer |-> a,
         producers |-> Cardinality(ReplicaSet(A)), consumers |-> Cardinality(ReplicaSet(B))]
        : a \in {x \in ReplicaSet(A) :
                   LET c == Consumers(g, e[1], x[1], x[2], e[2]) IN
                   ~(Cardinality(c) = 1 /\ (x \in ReplicaSet(B) => c = {x}))}}
    : e \in {x \in RealEdges(g) : x[3] /\ HasBlock(g, x[1]) /\ HasBlock(g, x[2])}}

(* every other connection is all-to-all *)
BadAllToAll(g) ==
  UNION {
    LET A == BlockOf(g, e[1])
        B == BlockOf(g, e[2])
    IN {[kind |-> "alltoall_missing", from |-> e[1], to |-> e[2], producer |-> a,
         producers |-> Cardinality(ReplicaSet(A)), consumers |-> Cardinality(ReplicaSet(B))]
        : a \in {x \in ReplicaSet(A) : Consumers(g, e[1], x[1], x[2], e[2]) # ReplicaSet(B)}}
    : e \in {x \in RealEdges(g) : ~x[3] /\ HasBlock(g, x[1]) /\ HasBlock(g, x[2])}}

(* no link without a connection in the job graph, and only between existing replicas *)
BadExtraLinks(g) ==
  {k \in Range(g.links) :
     ~(\E e \in RealEdges(g) : e[1] = k.fb /\ e[2] = k.tb)
     \/ ~HasBlock(g, k.fb) \/ ~HasBlock(g, k.tb)
     \/ (HasBlock(g, k.fb) /\ <<k.fh, k.fr>> \notin ReplicaSet(BlockOf(g, k.fb)))
     \/ (HasBlock(g, k.tb) /\ <<k.th, k.tr>> \notin ReplicaSet(BlockOf(g, k.tb)))}

(* --- addresses: every remote endpoint group (block, host, previous block) has its own address *)
AddrCollisions(g) ==
  {<<x, y>> \in Range(g.addrs) \X Range(g.addrs) :
     x.addr = y.addr /\ <<x.b, x.h, x.prev>> # <<y.b, y.h, y.prev>>}
(* every link that crosses hosts has an address for its (consumer block, consumer host, producer block) *)
AddrMissing(g) ==
  {k \in Range(g.links) : k.fh # k.th /\
     ~\E a \in Range(g.addrs) : a.b = k.tb /\ a.h = k.th /\ a.prev = k.fb}

(* --- all hosts derive the same graph (as sets: enumeration order is irrelevant) *)
Canon(g) == [blocks |-> {[id |-> b.id, repl |-> b.repl, lim |-> b.lim, fwd |-> b.fwd,
                          next |-> Range(b.next), replicas |-> Range(b.replicas)] : b \in Range(g.blocks)},
             links |-> Range(g.links), addrs |-> Range(g.addrs)]
=============================================================================
