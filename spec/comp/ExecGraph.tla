------------------------------ MODULE ExecGraph ------------------------------
(***************************************************************************)
(* How the scheduler turns the job graph into the execution graph          *)
(* (src/scheduler.rs: local_block_info / remote_block_info /               *)
(* build_execution_graph; src/network/topology.rs: build), as coded, for   *)
(* a chain of three blocks A -> B -> C plus a second consumer A -> D, over *)
(* every small cluster: 1..MaxHosts hosts with 1..MaxCores cores each      *)
(* (heterogeneous), every replication requirement per block and both       *)
(* connection kinds.  One initial state per configuration; the predicates  *)
(* of GraphProps.tla (from the property text of C19) are the invariants.   *)
(*                                                                         *)
(* Deviation of the code that the model keeps (finding F2): a forward      *)
(* connection is only made for equal (host, replica) coordinates or when   *)
(* the consumer has a single replica; a producer without a same-index      *)
(* consumer gets NO link when the consumer has several replicas.           *)
(***************************************************************************)
EXTENDS Naturals, Integers, Sequences, FiniteSets, TLC, GraphProps, SequencesExt

CONSTANTS MaxHosts, MaxCores, Limits   \* Limits: the n of Limited(n) that are tried

Repls == {<<"Unlimited", 0>>, <<"Host", 0>>, <<"One", 0>>} \cup {<<"Limited", n>> : n \in Limits}

VARIABLE c   \* the configuration: [cores, rA, rB, rC, rD, fAB, fBC]
vars == <<c>>

CoresSeqs == UNION {[1..n -> 1..MaxCores] : n \in 1..MaxHosts}

Init == c \in [cores : CoresSeqs, rA : Repls, rB : Repls, rC : Repls, rD : Repls,
               fA : BOOLEAN, fB : BOOLEAN]
Next == UNCHANGED c
Spec == Init /\ [][Next]_vars

(* --- remote_block_info: replicas host by host, global ids in that order --- *)
RECURSIVE RepSeq(_, _, _, _, _)
RepSeq(cores, repl, h, remaining, acc) ==   \* h: 1-based host index
  IF h > Len(cores) THEN acc
  ELSE LET n == CASE repl[1] = "Unlimited" -> cores[h]
                  [] repl[1] = "Limited"   -> IF remaining < cores[h] THEN remaining ELSE cores[h]
                  [] repl[1] = "Host"      -> 1
                  [] repl[1] = "One"       -> IF h = 1 THEN 1 ELSE 0
           new == [r \in 1..n |-> [h |-> h - 1, r |-> r - 1, gid |-> Len(acc) + r - 1]]
       IN RepSeq(cores, repl, h + 1, remaining - n, acc \o new)
Replicas(cores, repl) == RepSeq(cores, repl, 1, repl[2], <<>>)

(* --- build_execution_graph -------------------------------------------------- *)
LinksOf(fb, ra, tb, rb, fwd) ==
  {[fb |-> fb, fh |-> p[1].h, fr |-> p[1].r, tb |-> tb, th |-> p[2].h, tr |-> p[2].r] :
     p \in {q \in Range(ra) \X Range(rb) :
               ~fwd \/ Len(rb) = 1 \/ (q[2].h = q[1].h /\ q[2].r = q[1].r)}}

(* --- topology.build: one address per (consumer block, consumer host, producer block), ports in *)
(* the sorted order of those coordinates per host                                               *)
DemuxCoords(links) == {<<k.tb, k.th, k.fb>> : k \in links}
Less(x, y) == x[1] < y[1] \/ (x[1] = y[1] /\ (x[2] < y[2] \/ (x[2] = y[2] /\ x[3] < y[3])))
PortOffset(coords, x) == Cardinality({y \in coords : y[2] = x[2] /\ Less(y, x)})
Addrs(links) == {[b |-> x[1], h |-> x[2], prev |-> x[3],
                  addr |-> <<x[2], PortOffset(DemuxCoords(links), x)>>] : x \in DemuxCoords(links)}


Graph ==
  LET rA == Replicas(c.cores, c.rA) rB == Replicas(c.cores, c.rB)
      rC == Replicas(c.cores, c.rC) rD == Replicas(c.cores, c.rD)
      links == LinksOf(0, rA, 1, rB, c.fA) \cup LinksOf(1, rB, 2, rC, c.fB) \cup LinksOf(0, rA, 3, rD, c.fA)
      blk(id, r, rs, fwd, nxt) == [id |-> id, repl |-> r[1], lim |-> r[2], fwd |-> fwd, next |-> nxt, replicas |-> rs]
  IN [blocks |-> << blk(0, c.rA, rA, c.fA, <<[to |-> 1, fragile |-> FALSE], [to |-> 3, fragile |-> FALSE]>>),
                    blk(1, c.rB, rB, c.fB, <<[to |-> 2, fragile |-> FALSE]>>),
                    blk(2, c.rC, rC, FALSE, <<>>),
                    blk(3, c.rD, rD, FALSE, <<>>) >>,
      links |-> SetToSeq(links),
      addrs |-> SetToSeq(Addrs(links))]

(* --- invariants: the predicates of the property text on the graph as coded --- *)
ReplicaSetsOK == BadReplicaSet(c.cores, Graph) = {}
GlobalIdsOK   == BadGlobalIds(Graph) = {}
AllToAllOK    == BadAllToAll(Graph) = {}
NoExtraLinks  == BadExtraLinks(Graph) = {}
AddressesOK   == AddrCollisions(Graph) = {} /\ AddrMissing(Graph) = {}
(* F2: holds only where every producer replica has a same-index consumer or the consumer is single *)
ForwardOK     == BadForward(Graph) = {}
F2Class(bf)   == bf.kind = "forward_link_missing" /\ bf.consumers > 1
ForwardOKExceptF2 == \A bf \in BadForward(Graph) : F2Class(bf)
=============================================================================
