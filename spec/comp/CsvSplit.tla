------------------------------ MODULE CsvSplit ------------------------------
(***************************************************************************)
(* CsvSource (src/operator/source/csv.rs, setup): how the replicas of the  *)
(* CSV source share one file.  Pure transcription:                         *)
(*   header_size = has_headers ? read_until('\n') at 0 : 0                 *)
(*   body_size   = file_size - header_size                                 *)
(*   range_size  = body_size / instances                                   *)
(*   start = header_size + range_size * global_id                          *)
(*   end   = last replica ? file_size : start + range_size                 *)
(*   every replica but 0:        start += read_until('\n') at start        *)
(*   every replica but the last: end   += read_until('\n') at end          *)
(*   the csv reader gets the bytes [start, end) (LimitedReader), with the  *)
(*   header record installed by hand (set_byte_headers), so it does NOT    *)
(*   consume a header of its own.                                          *)
(* The csv crate with Terminator::CRLF (the default of the source) ends a  *)
(* record at '\r', '\n' or "\r\n" and skips empty records; fields are not  *)
(* modelled (no delimiter or quote in the alphabet): a record is the       *)
(* content of a non-empty line.                                            *)
(*                                                                         *)
(* The wrapper enumerates every file exactly like FileSplit.tla and splits *)
(* it with and without header for every replica count 1..MAXREP.           *)
(***************************************************************************)
EXTENDS Naturals, Integers, Sequences, FiniteSets, TLC, Json, SourceProps

CONSTANTS MAXLEN,   \* maximal size of a file without "\r\n"
          MAXREP,   \* replica counts 1..MAXREP
          CRLFLEN   \* maximal size of a file containing "\r\n" (0: none)

X == 120

VARIABLES file,     \* abstract file: sequence over {X, NL, CR}
          phase,    \* "build" | "done"
          hdr,      \* has_headers of the source (chosen when splitting)
          out       \* out[n][g+1]: records emitted by replica g of n
vars == <<file, phase, hdr, out>>

Bytes(f) == [i \in DOMAIN f |-> IF f[i] = X THEN 96 + i ELSE f[i]]

---------------------------------------------------------------------------
ReadUntilNL(b, pos) ==
  LET S == {i \in (pos + 1)..Len(b) : b[i] = NL}
  IN IF pos >= Len(b) THEN 0
     ELSE IF S = {} THEN Len(b) - pos
     ELSE (CHOOSE i \in S : \A j \in S : i <= j) - pos

(* byte range [start, end) handed to the csv reader of replica g of n *)
CsvRange(b, n, g, hasHdr) ==
  LET size   == Len(b)
      hsize  == IF hasHdr THEN ReadUntilNL(b, 0) ELSE 0
      body   == size - hsize
      rs     == body \div n
      start0 == hsize + rs * g
      end0   == IF g = n - 1 THEN size ELSE start0 + rs
      start  == IF g # 0 THEN start0 + ReadUntilNL(b, start0) ELSE start0
      end    == IF g # n - 1 THEN end0 + ReadUntilNL(b, end0) ELSE end0
  IN [start |-> start, end |-> end]

(* csv crate, Terminator::CRLF: records end at CR or NL, empty records are skipped *)
RECURSIVE CsvParseFrom(_, _, _)
CsvParseFrom(c, i, cur) ==
  IF i > Len(c) THEN (IF cur = <<>> THEN <<>> ELSE <<cur>>)
  ELSE IF c[i] = NL \/ c[i] = CR
       THEN (IF cur = <<>> THEN <<>> ELSE <<cur>>) \o CsvParseFrom(c, i + 1, <<>>)
       ELSE CsvParseFrom(c, i + 1, Append(cur, c[i]))
CsvParse(c) == CsvParseFrom(c, 1, <<>>)

CsvRecords(b, n, g, hasHdr) ==
  LET r == CsvRange(b, n, g, hasHdr)
  IN IF r.end <= r.start THEN <<>> ELSE CsvParse(SubSeq(b, r.start + 1, r.end))
CsvOut(b, n, hasHdr) == [g \in 1..n |-> CsvRecords(b, n, g - 1, hasHdr)]

---------------------------------------------------------------------------
Init == file = <<>> /\ phase = "build" /\ hdr = FALSE /\ out = <<>>

HasCR(f) == \E i \in DOMAIN f : f[i] = CR
Room(f) == IF HasCR(f) THEN Len(f) < CRLFLEN ELSE Len(f) < MAXLEN
AppendX == phase = "build" /\ Room(file) /\ file' = Append(file, X) /\ UNCHANGED <<phase, hdr, out>>
AppendLF == phase = "build" /\ Room(file) /\ file' = Append(file, NL) /\ UNCHANGED <<phase, hdr, out>>
AppendCRLF == phase = "build" /\ Len(file) + 2 <= CRLFLEN /\ file' = file \o <<CR, NL>>
              /\ UNCHANGED <<phase, hdr, out>>
SplitWith(h) == /\ phase = "build"
                /\ phase' = "done"
                /\ hdr' = h
                /\ out' = [n \in 1..MAXREP |-> CsvOut(Bytes(file), n, h)]
                /\ UNCHANGED file
SplitHeader == SplitWith(TRUE)
SplitPlain == SplitWith(FALSE)

Next == AppendX \/ AppendLF \/ AppendCRLF \/ SplitHeader \/ SplitPlain
Spec == Init /\ [][Next]_vars

---------------------------------------------------------------------------
KindsOf(n) == CsvKinds(Bytes(file), hdr, out[n])
C15_Csv == phase = "done" => \A n \in 1..MAXREP : KindsOf(n) = {}
(* `(end - start) as usize` in the code must not underflow (model sanity) *)
RangeOrdered == phase = "done" =>
  \A n \in 1..MAXREP : \A g \in 0..(n - 1) :
     LET r == CsvRange(Bytes(file), n, g, hdr) IN r.start <= r.end

EmitReplay == phase = "done" =>
  PrintT(<<"REPLAY", ToJson([kind |-> "csv", header |-> hdr, bytes |-> Bytes(file), exp |-> out])>>)
=============================================================================
