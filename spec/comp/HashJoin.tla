------------------------------- MODULE HashJoin -------------------------------
(***************************************************************************)
(* The symmetric local hash join (src/operator/join/local_hash.rs,         *)
(* JoinLocalHash::add_item / side_ended / next) as a transducer over the   *)
(* stream that BinaryStart hands to it: Left(v), Right(v), LeftEnd,        *)
(* RightEnd, FlushAndRestart.  Per side the operator keeps                 *)
(*   data  key -> the items stored so far   (only while the OTHER side is  *)
(*         still open)                                                     *)
(*   keys  the keys seen on this side        (only for the outer variants: *)
(*         used when this side ends to find the unmatched items of the     *)
(*         other side)                                                     *)
(*   ended                                                                 *)
(* Every interleaving of the two sides (items and end markers) of every    *)
(* pair of small inputs is explored; at the FlushAndRestart the output of  *)
(* the iteration must be the relational join (C08), the asserts of the     *)
(* code must hold, and nothing is kept (C05).                              *)
(* KEYS_ON_MATCH_ONLY = TRUE is the seeded regression seeded/C08 (a key is *)
(* recorded only when the arriving item finds a match).                    *)
(***************************************************************************)
EXTENDS Naturals, Sequences, FiniteSets, TLC, Functions

CONSTANTS VARIANT,             \* "inner" | "left" | "outer"
          MAXL, MAXR,          \* items per side
          VALS,                \* values; key = value % 2
          KEYS_ON_MATCH_ONLY

Key(v) == v % 2
LeftOuter == VARIANT \in {"left", "outer"}
RightOuter == VARIANT = "outer"
NONE == 0

VARIABLES inL, inR,        \* items fed so far (ghost, for the oracle)
          data, keys, ended,   \* per side 1 (left) / 2 (right)
          out, closed
vars == <<inL, inR, data, keys, ended, out, closed>>

Init == /\ inL = <<>> /\ inR = <<>>
        /\ data = [s \in {1, 2} |-> [k \in {0, 1} |-> <<>>]]
        /\ keys = [s \in {1, 2} |-> {}]
        /\ ended = [s \in {1, 2} |-> FALSE]
        /\ out = <<>> /\ closed = FALSE

Pair(s, x, y) == IF s = 1 THEN <<x, y>> ELSE <<y, x>>     \* s: side of x
Other(s) == 3 - s
(* outer-ness of side s: are unmatched items of s padded? *)
Outer(s) == IF s = 1 THEN LeftOuter ELSE RightOuter

AddItem(s, v) ==
  LET o == Other(s)
      k == Key(v)
      matches == data[o][k]
      emit == IF matches # <<>> THEN [i \in 1..Len(matches) |-> Pair(s, v, matches[i])]
              ELSE IF ended[o] /\ Outer(s) THEN <<Pair(s, v, NONE)>> ELSE <<>>
      record == Outer(o) /\ (~KEYS_ON_MATCH_ONLY \/ matches # <<>>)
  IN /\ out' = out \o emit
     /\ keys' = IF record THEN [keys EXCEPT ![s] = @ \cup {k}] ELSE keys
     /\ data' = IF ~ended[o] THEN [data EXCEPT ![s][k] = Append(@, v)] ELSE data
     /\ UNCHANGED <<ended, closed>>

LeftItem == /\ ~closed /\ ~ended[1] /\ Len(inL) < MAXL
            /\ \E v \in VALS : inL' = Append(inL, v) /\ AddItem(1, v) /\ UNCHANGED inR
RightItem == /\ ~closed /\ ~ended[2] /\ Len(inR) < MAXR
             /\ \E v \in VALS : inR' = Append(inR, v) /\ AddItem(2, v) /\ UNCHANGED inL

(* side s ends: the unmatched items of the OTHER side are padded if that side is outer *)
RECURSIVE Flat(_, _)
Flat(ss, i) == IF i > Len(ss) THEN <<>> ELSE ss[i] \o Flat(ss, i + 1)
SideEnd(s) ==
  LET o == Other(s)
      unmatched == Flat([k \in 1..2 |-> IF (k - 1) \in keys[s] THEN <<>> ELSE data[o][k - 1]], 1)
      emit == IF Outer(o) THEN [i \in 1..Len(unmatched) |-> Pair(o, unmatched[i], NONE)] ELSE <<>>
  IN /\ ~closed /\ ~ended[s]
     /\ out' = out \o emit
     /\ data' = [data EXCEPT ![o] = [k \in {0, 1} |-> <<>>]]
     /\ keys' = [keys EXCEPT ![s] = {}]
     /\ ended' = [ended EXCEPT ![s] = TRUE]
     /\ UNCHANGED <<inL, inR, closed>>

Restart == /\ ~closed /\ ended[1] /\ ended[2] /\ closed' = TRUE
           /\ UNCHANGED <<inL, inR, data, keys, ended, out>>

Next == LeftItem \/ RightItem \/ SideEnd(1) \/ SideEnd(2) \/ Restart
Spec == Init /\ [][Next]_vars

---------------------------------------------------------------------------
(* the relational definition *)
BagOf(s) == [x \in Range(s) |-> Cardinality({i \in DOMAIN s : s[i] = x})]
Rel ==
  LET inner == {<<i, j>> \in (DOMAIN inL) \X (DOMAIN inR) : Key(inL[i]) = Key(inR[j])}
      lpad == {i \in DOMAIN inL : \A j \in DOMAIN inR : Key(inL[i]) # Key(inR[j])}
      rpad == {j \in DOMAIN inR : \A i \in DOMAIN inL : Key(inL[i]) # Key(inR[j])}
      CountOf(p) == Cardinality({x \in inner : <<inL[x[1]], inR[x[2]]>> = p})
                    + (IF p[2] = NONE /\ LeftOuter THEN Cardinality({i \in lpad : inL[i] = p[1]}) ELSE 0)
                    + (IF p[1] = NONE /\ RightOuter THEN Cardinality({j \in rpad : inR[j] = p[2]}) ELSE 0)
      support == {<<inL[x[1]], inR[x[2]]>> : x \in inner}
                 \cup (IF LeftOuter THEN {<<inL[i], NONE>> : i \in lpad} ELSE {})
                 \cup (IF RightOuter THEN {<<NONE, inR[j]>> : j \in rpad} ELSE {})
  IN [p \in support |-> CountOf(p)]

(* C08: at the end of the iteration the output is exactly the relational join *)
JoinOK == closed => BagOf(out) = Rel
(* never more than the join while running (no spurious pair can be taken back) *)
NoExtra == \A p \in DOMAIN BagOf(out) : p \in DOMAIN Rel /\ BagOf(out)[p] <= Rel[p]
(* the asserts of the FlushAndRestart arm / C05: nothing is kept *)
CleanAtRestart == closed => /\ \A s \in {1, 2} : keys[s] = {} /\ \A k \in {0, 1} : data[s][k] = <<>>
=============================================================================
