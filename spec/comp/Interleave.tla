------------------------------ MODULE Interleave ------------------------------
(***************************************************************************)
(* Arrival orders at a two-input block: every interleaving of the element  *)
(* scripts of the LEFT and the RIGHT upstream replica (data items, then the *)
(* end-of-iteration marker, for ITERS iterations, then Terminate).  Used to *)
(* drive the real join / zip / merge operators through every arrival order *)
(* (C08, C09): the harness enforces the order with lock-step gates and the  *)
(* result is judged against the relational definition of SeqSemantics.tla.  *)
(*   Left, Right : sequences (one per iteration) of sequences of values     *)
(* Inside one iteration the two sides interleave freely; iteration i+1 of a *)
(* side starts only after BOTH sides ended iteration i (round-synchronised  *)
(* producers, see comp/Start.tla).                                          *)
(***************************************************************************)
EXTENDS Naturals, Sequences, TLC, Json, IOUtils, SequencesExt

(* the input scripts: one JSON object {id, left, right} per line of the file named by IOEnv.CASES; *)
(* without that file: every pair of two-iteration scripts over a small domain (join keys are the   *)
(* values mod 2, so 1 and 3 share a key): what one iteration leaves behind in a stateful operator  *)
(* meets every possible content of the next one (C05 "carry nothing over", C08, C09).              *)
GenLists == {<<>>, <<1>>, <<2>>, <<3>>, <<2, 1>>}
GenCases == SetToSeq({[id |-> ToString(<<a, b, x, y>>), left |-> <<a, b>>, right |-> <<x, y>>] :
                         a \in GenLists, b \in GenLists, x \in GenLists, y \in GenLists})
Cases == IF "CASES" \in DOMAIN IOEnv THEN ndJsonDeserialize(IOEnv.CASES) ELSE GenCases

VARIABLES c, it, li, ri, lend, rend, order, done
vars == <<c, it, li, ri, lend, rend, order, done>>
Left == Cases[c].left
Right == Cases[c].right
ITERS == Len(Left)

Init == c \in 1..Len(Cases) /\ it = 1 /\ li = 0 /\ ri = 0 /\ lend = FALSE /\ rend = FALSE
        /\ order = <<>> /\ done = FALSE

Ev(side, k, v) == [side |-> side, k |-> k, v |-> v]

LData == /\ ~done /\ it <= ITERS /\ ~lend /\ li < Len(Left[it])
         /\ li' = li + 1 /\ order' = Append(order, Ev("L", "I", Left[it][li + 1]))
         /\ UNCHANGED <<c, it, ri, lend, rend, done>>
RData == /\ ~done /\ it <= ITERS /\ ~rend /\ ri < Len(Right[it])
         /\ ri' = ri + 1 /\ order' = Append(order, Ev("R", "I", Right[it][ri + 1]))
         /\ UNCHANGED <<c, it, li, lend, rend, done>>
LEnd == /\ ~done /\ it <= ITERS /\ ~lend /\ li = Len(Left[it])
        /\ order' = Append(order, Ev("L", "R", 0))
        /\ IF rend THEN it' = it + 1 /\ li' = 0 /\ ri' = 0 /\ lend' = FALSE /\ rend' = FALSE
           ELSE lend' = TRUE /\ UNCHANGED <<it, li, ri, rend>>
        /\ UNCHANGED <<c, done>>
REnd == /\ ~done /\ it <= ITERS /\ ~rend /\ ri = Len(Right[it])
        /\ order' = Append(order, Ev("R", "R", 0))
        /\ IF lend THEN it' = it + 1 /\ li' = 0 /\ ri' = 0 /\ lend' = FALSE /\ rend' = FALSE
           ELSE rend' = TRUE /\ UNCHANGED <<it, li, ri, lend>>
        /\ UNCHANGED <<c, done>>
(* both terminate (either order) *)
Term == /\ ~done /\ it > ITERS
        /\ \E first \in {"L", "R"} :
             order' = order \o <<Ev(first, "X", 0), Ev(IF first = "L" THEN "R" ELSE "L", "X", 0)>>
        /\ done' = TRUE /\ UNCHANGED <<c, it, li, ri, lend, rend>>

Next == LData \/ RData \/ LEnd \/ REnd \/ Term
Spec == Init /\ [][Next]_vars

EmitReplay == done => PrintT(<<"REPLAY", ToJson([id |-> Cases[c].id, left |-> Left, right |-> Right, order |-> order])>>)
=============================================================================
