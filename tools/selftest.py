#!/usr/bin/env python3
"""Demonstrates that the trace specifications are bound to the recorded events: a clean trace is
accepted, a corrupted field and a removed hook are rejected.  Usage: tools/selftest.py"""
import json, os, sys, random
sys.path.insert(0, os.path.join(os.path.dirname(os.path.abspath(__file__)), "..", "lib"))
from common import build_harness, workdir, run_jobs, read_trace, split_trace_files, validate_parallel
import project, gen

def main():
    build_harness()
    wd = workdir("selftest")
    prog, sinks = gen.gen_program(12345, max_ops=4, allow_loops=False)
    jobs = [{"id": "st", "prog": prog, "cfg": {"mode": "remote", "hosts": [2, 1]}, "batch": "fixed:2", "trace": True}]
    results, traces = run_jobs(jobs, wd)
    ok = True
    def judge(name, spec, recs, expect_violation):
        nonlocal ok
        files = split_trace_files(recs, wd, name)
        v, consumed, states, _ = validate_parallel(spec, files, wd)
        good = (len(v) > 0) == expect_violation
        ok &= good
        print(f"{'PASS' if good else 'FAIL'} {name}: {len(v)} violation(s) reported, expected {'some' if expect_violation else 'none'}"
              + (f" (first: {v[0]['kind']})" if v else ""))
    link = list(project.link_records(read_trace(traces[0]), results))
    bnd = list(project.boundary_records(read_trace(traces[0]), results))
    judge("clean_link", "Link", link, False)
    judge("clean_boundary", "Boundary", bnd, False)
    # 1. corrupt one field: the payload of one received element
    bad = json.loads(json.dumps(link))
    r = next(x for x in bad if x["ev"] == "recv" and x["els"] and x["els"][0].startswith("I:"))
    r["els"][0] = "I:424242"
    judge("corrupted_recv_payload", "Link", bad, True)
    # 2. remove one hook: no enq events at all (as if the batcher hook were gone)
    judge("enq_hook_removed", "Link", [x for x in link if x["ev"] != "enq"], True)
    # 3. remove one recv event (as if one receive path were not hooked)
    i = next(k for k, x in enumerate(link) if x["ev"] == "recv")
    judge("one_recv_missing", "Link", link[:i] + link[i + 1:], True)
    # 4. a Terminate removed from one probe sequence / data after Terminate
    b2 = [x for x in bnd]
    j = next(k for k, x in enumerate(b2) if x["ev"] == "probe" and x["k"] == "X")
    judge("terminate_missing_at_a_boundary", "Boundary", b2[:j] + b2[j + 1:], True)
    b3 = b2[:j + 1] + [dict(b2[j], k="I")] + b2[j + 1:]
    judge("data_after_terminate", "Boundary", b3, True)
    # 5. conformance of the block heads (StartConform / BinaryConform): a real join job is accepted without drift;
    #    a dropped output event, a receive attributed to the other side and a changed payload are located
    from common import tlc_trace
    jprog = gen.join_programs(random.Random(7), 1)[0]
    jjobs = [{"id": "sj", "prog": jprog["prog"], "cfg": {"mode": "local", "par": 2}, "batch": "fixed:2", "trace": True}]
    jres, jtraces = run_jobs(jjobs, os.path.join(wd, "j") if os.makedirs(os.path.join(wd, "j"), exist_ok=True) is None else wd)
    jb = {"sj": jjobs[0]}
    def drift(name, spec, recs, expect):
        nonlocal ok
        path = os.path.join(wd, name + ".ndjson")
        with open(path, "w") as f:
            for r in recs:
                f.write(json.dumps(r) + "\n")
        _, consumed, _, infos = tlc_trace(spec, path, wd, name)
        d = [i for i in infos if "drift" in i]
        good = (len(d) > 0) == expect
        ok &= good
        print(f"{'PASS' if good else 'FAIL'} {name}: {len(d)} drift report(s), expected {'some' if expect else 'none'}"
              + (f" (expected '{d[0]['expected']}' at event {d[0]['index']})" if d else ""))
    srecs = list(project.start_records(read_trace(jtraces[0]), jres, jb))
    brecs = list(project.binary_records(read_trace(jtraces[0]), jres, jb))
    drift("clean_start_conform", "StartConform", srecs, False)
    drift("clean_binary_conform", "BinaryConform", brecs, False)
    i = next(k for k, x in enumerate(srecs) if x["ev"] == "o" and x["k"] == "I")
    drift("start_output_event_dropped", "StartConform", srecs[:i] + srecs[i + 1:], True)
    m = json.loads(json.dumps(brecs))
    r = next(x for x in m if x["ev"] in ("rl", "rr") and any(e["k"] == "I" for e in x["els"]))
    r["ev"] = "rr" if r["ev"] == "rl" else "rl"
    drift("binary_receive_from_the_other_side", "BinaryConform", m, True)
    m = json.loads(json.dumps(brecs))
    r = next(x for x in m if x["ev"] == "o" and x["k"] in ("L", "R"))
    r["v"] += 1
    drift("binary_output_payload_changed", "BinaryConform", m, True)
    print("SELFTEST", "OK" if ok else "FAILED")
    return 0 if ok else 1

if __name__ == "__main__":
    sys.exit(main())
