#!/bin/bash
# run every quick check with several VERIF_SEED values on the current tree; report anything but exit 0
cd "$(dirname "$0")/.."
for sd in ${SEEDS:-2 3 4}; do
  for c in C01 C02 C03 C04 C05 C06 C07 C08 C09 C10 C11 C12 C13 C14 C15 C16 C17 C18 C19 C20; do
    s=$(date +%s); VERIF_SEED=$sd ./check $c > /tmp/sweep_${sd}_$c.log 2>&1; e=$?
    echo "seed=$sd $c exit=$e $(( $(date +%s)-s ))s viol=$(grep -c '^VIOLATION' /tmp/sweep_${sd}_$c.log) $(grep -E 'TOOL ERROR' /tmp/sweep_${sd}_$c.log | cut -c1-120)"
  done
done
