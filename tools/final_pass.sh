#!/bin/bash
# final pass on the unchanged /repo: every quick check with the default seed (evidence/ regenerated), MANIFEST
# regenerated, both validated against their schemas
cd "$(dirname "$0")/.."
git -C /repo status --short | grep -q . && { echo "/repo is not clean"; exit 2; }
tools/quick_all.sh | tee /tmp/final_quick.log
python3 tools/mkmanifest.py
python3-vt - <<'PY'
import json, jsonschema, glob
m = json.load(open('MANIFEST.json')); jsonschema.validate(m, json.load(open('/root/.vp/MANIFEST.schema.json')))
s = json.load(open('/root/.vp/EVIDENCE.schema.json'))
for f in sorted(glob.glob('evidence/C*.json')):
    jsonschema.validate(json.load(open(f)), s)
print("MANIFEST and", len(glob.glob('evidence/C*.json')), "evidence files valid")
PY
grep -v "exit=0" /tmp/final_quick.log && echo "SOME CHECK DID NOT EXIT 0" || echo "all quick checks exit 0"
