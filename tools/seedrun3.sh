#!/bin/bash
# tools/seedrun3.sh <name> <check> [...]: run checks against seeded/<name>/patch.diff without touching /repo:
# scratch worktree of /repo HEAD + the patch, scratch copy of /verif bound to it (tools/seedrun2.sh); both removed.
N=$1; shift
W=/tmp/wt-$N
git -C /repo worktree remove --force $W 2>/dev/null; rm -rf $W
git -C /repo worktree add --detach $W HEAD > /dev/null 2>&1 || exit 2
git -C $W apply /verif/seeded/$N/patch.diff || { git -C /repo worktree remove --force $W; exit 2; }
/verif/tools/seedrun2.sh $N $W "$@"
git -C /repo worktree remove --force $W; git -C /repo worktree prune
