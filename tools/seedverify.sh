#!/bin/bash
# tools/seedverify.sh <ID> [<worktree> [<name under seeded/>]]: re-verify a seeded change in its scratch
# worktree (default /tmp/seed-<ID>): demo fails with the patch, passes without; lib tests pass with it;
# copy it to /verif/seeded/<name>/.
set -u
ID=$1; W=${2:-/tmp/seed-$ID}; N=${3:-$ID}; S=/verif/seeded/$N; ID=$N
mkdir -p $S; cp -r $W/seed/* $S/ 2>/dev/null
cd $W || exit 2
DEMO=$(grep -v "^#" seed/demo_cmd.txt | grep cargo | head -1 | sed "s#cd $W *&& *##")
echo "== demo cmd: $DEMO"
echo "== with patch:"; timeout 900 bash -c "$DEMO" > /tmp/seedv_$ID.with.log 2>&1; echo "exit=$?" | tee -a $S/verify.log
grep -E "test result|panicked|FAILED" /tmp/seedv_$ID.with.log | head -5
echo "== lib tests with patch:"; timeout 900 cargo test --offline -j 6 --lib 2>&1 | grep -E "test result" | tee -a $S/verify.log
git diff -- src > /tmp/seedv_$ID.patch
git apply -R /tmp/seedv_$ID.patch || { echo "cannot revert"; exit 2; }
echo "== without patch:"; timeout 900 bash -c "$DEMO" > /tmp/seedv_$ID.without.log 2>&1; echo "exit=$?" | tee -a $S/verify.log
grep -E "test result|panicked|FAILED" /tmp/seedv_$ID.without.log | head -5
git apply /tmp/seedv_$ID.patch
cp /tmp/seedv_$ID.patch $S/patch.diff
echo "== patch applies to /repo HEAD?"; git -C /repo apply --check $S/patch.diff && echo yes
