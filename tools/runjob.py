#!/usr/bin/env python3
"""Run the job stored in a replay file (or a job json) n times; print outcomes."""
import json, sys, os, subprocess, collections
sys.path.insert(0, os.path.join(os.path.dirname(os.path.abspath(__file__)), "..", "lib"))
from common import VH, workdir
path = sys.argv[1]; n = int(sys.argv[2]) if len(sys.argv) > 2 else 10
d = json.load(open(path)); job = d.get("replay", d)
wd = workdir("runjob")
jobs = []
for i in range(n):
    j = dict(job); j["id"] = f"r{i}"; j["seed"] = job.get("seed", 0) + i
    for a in sys.argv[3:]:
        k, v = a.split("="); j[k] = json.loads(v)
    jobs.append(j)
with open(f"{wd}/jobs.ndjson", "w") as f:
    for j in jobs: f.write(json.dumps(j) + "\n")
skip = 0
while True:
    p = subprocess.run([VH, "jobs", f"{wd}/jobs.ndjson", f"{wd}/res.ndjson", f"{wd}/trace.ndjson"] + (["--skip", str(skip)] if skip else []))
    if p.returncode != 3: break
    last = [json.loads(l) for l in open(f"{wd}/res.ndjson")][-1]; skip = last["index"] + 1
c = collections.Counter()
for l in open(f"{wd}/res.ndjson"):
    r = json.loads(l)
    if r.get("hang"): c["hang"] += 1
    elif all(h.get("ok") for h in r["hosts"]): c["ok:" + json.dumps([s["res"] for h in r["hosts"] for s in h["sinks"] if s["res"] is not None])[:80]] += 1
    else: c["panic:" + (r["panics"][0][:150] if r["panics"] else "?")] += 1
for k, v in c.items(): print(v, k)
