#!/usr/bin/env python3
"""tools/seedmeta.py <name> <round> '<check>:<outcome>' ... : record the main session's verification of a seeded
change (from seeded/<name>/verify.log) and which checks caught it in seeded/<name>/meta.json."""
import json, sys, os
name, rnd = sys.argv[1], int(sys.argv[2])
d = os.path.join(os.path.dirname(os.path.abspath(__file__)), "..", "seeded", name)
m = json.load(open(os.path.join(d, "meta.json")))
log = open(os.path.join(d, "verify.log")).read().split("\n") if os.path.exists(os.path.join(d, "verify.log")) else []
m["round"] = rnd
m["verified_by_main"] = {"script": "tools/seedverify.sh (demo fails with the patch, passes without; lib tests pass with it) + "
                         "the full existing suite in the worktree (/tmp/fullsuite.sh)", "log": [x for x in log if x.strip()]}
m["checks_run"] = {a.split(":", 1)[0]: a.split(":", 1)[1] for a in sys.argv[3:]}
json.dump(m, open(os.path.join(d, "meta.json"), "w"), indent=1)
