#!/usr/bin/env python3
"""Regenerate /verif/MANIFEST.json from the table below (keeps it valid at all times)."""
import json, os, subprocess
ROOT = os.path.dirname(os.path.dirname(os.path.abspath(__file__)))

CLAIMED = {
 "C01": ("D+T: sink results of generated pipelines under a configuration matrix compared by TLC with SeqSemantics!Eval; traces validated against Link/Boundary trace specs",
         "TLC evaluates the sequential meaning (spec/SeqSemantics.tla) of every generated program and compares each sink as a bag (sequence where ordered); every run's trace is validated against spec/trace/Link.tla and Boundary.tla. Small-scope over programs/configs, sampled real schedules with seeded perturbation.",
         "programs are the typed closure of the interpreter's operator set up to a depth bound; user functions from a fixed deterministic family; schedules of the real runtime are sampled, not enumerated", "4-C01"),
 "C02": ("T: trace validation of every link (enq/send/recv hooks) against spec/trace/Link.tla with TLC",
         "every enqueue, send and receive of every link of every traced job is checked by TLC against the FIFO exactly-once link specification (prefix relations per producer/endpoint, nothing left at the end)",
         "hooks in batcher.rs/network_channel.rs emit at the linearization points; payloads compared through their JSON projection", "4-C02"),
 "C05": ("M+R+T: TLC model check of comp/Start.tla; TLC-generated arrival interleavings replayed on the real Start and judged by StartProps predicates; grammar monitor on every operator boundary of generated jobs",
         "exhaustive model check of the block-input protocol for small constants; thousands of TLC-generated behaviours replayed on the real End+channel+Start and judged by TLC; Elem!GStep automaton at every probe of every generated pipeline",
         "FlushBatch erased by the grammar; upstream replicas round-synchronised (Start.tla CanSend)", "4-C05"),
 "C06": ("M+R: TLC model check of comp/Start.tla (watermark frontier); TLC-generated behaviours replayed on the real Start, judged by StartProps (late_element, watermark_not_increasing)",
         "exhaustive model check of the min-frontier for small constants; replayed behaviours judged by TLC on the real history",
         "inputs respect the watermark contract per sender", "4-C06"),
 "C17": ("M+R: TLC model check of comp/Start.tla with the progress predicate ActiveMin; replay of TLC-generated interleavings on the real Start, judged by TLC",
         "the predicate 'at every data output the last emitted watermark has caught up with the minimum over active replicas' is an invariant of the model (cause=watermark) and is evaluated by TLC on real histories of thousands of enforced arrival orders; cause=replica_ended is the open finding F6",
         "lock-step gates enforce the arrival order with single-element batches", "4-C17"),
 "C03": ("T: trace validation of every End emission (probe + enq hooks) against spec/trace/Routing.tla with the connection kind promised by the API call",
         "for templates whose block boundaries are created by one API call each (shuffle, group_by, replication, broadcast, hash/broadcast joins, route, zip) TLC checks for every element leaving a block the fan-out per downstream block, same-index forwarding, key->replica functionality across producers and join sides, first-match routing and control broadcast, over local parallelism 1..4 and remote layouts",
         "replica sets are taken from worker-start events; delivery of what was enqueued is C02's link check", "4-C03"),
 "C19": ("M+R: TLC model check of comp/ExecGraph.tla over all small clusters and of comp/Replication.tla (requirement algebra, every pair replayed through the real Replication::intersect); StreamContext::verif_execution_graph dumps of every host judged by TLC (GraphProps.tla)",
         "the scheduler rules as coded are model checked for every cluster up to MaxHosts x MaxCores and every replication requirement; for hundreds of (program, cluster) pairs the graph and address map derived by EVERY host of the real scheduler are checked by TLC against the property's rules and against each other",
         "the dump hook runs build_execution_graph + topology.build exactly as start_blocking does, without starting workers", "4-C19"),
 "C04": ("T: generated jobs (loops, side inputs, diamonds, empty and oversized inputs, tiny batches) under a watchdog; Link.tla leaves nothing in flight; each sink completes exactly once",
         "hundreds of jobs per run with inputs far above the channel capacities, Single/Fixed(1)/adaptive batching, local and multi-host layouts, seeded schedule perturbation; a job without progress for 12 s is a hang; TLC validates every link history to be empty at the end",
         "absence of deadlock for all schedules rests on sampled schedules plus the small-scope models (sys/); a hang verdict needs 12 s without any hook event", "4-C04"),
 "C07": ("D: every aggregation API on varied key distributions; sink bags compared by TLC with SeqSemantics!Eval (KeyedFold, GlobalFold, two-phase forms)",
         "TLC evaluates the sequential fold per key for each generated program (all 14 aggregation forms, skewed/single/many keys, empty input, pipelines before/after) and compares the sink bag of every run under the configuration matrix",
         "associative-commutative aggregation functions from the fixed family; avg on dyadic-friendly values", "4-C07"),
 "C08": ("D: joins (ship hash|broadcast x local hash|sort-merge x inner|left|outer, keyed join) compared by TLC with the relational join of SeqSemantics.tla under schedule perturbation",
         "TLC computes the relational join (inner pairs + padding) of the two input multisets and compares the sink bag for duplicate keys, one-sided keys, empty sides, all configurations; arrival orders vary by seeded perturbation",
         "interleavings of the two sides are sampled (perturbation), not enumerated", "4-C08"),
 "C09": ("D: split/route/merge/zip programs (diamonds, per-branch sinks) compared by TLC with SeqSemantics!Eval; broadcast fan-out by Routing.tla (C03)",
         "every branch of split sees the whole stream, route is first-match, merge is bag union, zip is positional on sequential inputs and min(|a|,|b|) otherwise: computed by TLC and compared per sink",
         "zip positional only where both producers are sequential", "4-C09"),
 "C10": ("D: replay/iterate programs (shuffles, aggregations, nesting) compared by TLC with SeqSemantics!LoopRun (state sequence, final state, iterate output)",
         "TLC runs the loop sequentially (state after round k = global fold of local folds, stop on condition or bound, replay re-feeds, iterate feeds back) and compares final state and output of every run, under perturbation and multi-host layouts",
         "per-round state reads are not yet compared (final results only)", "4-C10"),
 "C11": ("D: loops whose body joins/merges an outside stream; results compared by TLC with the sequential loop semantics (side input complete and identical every round)",
         "a side input that is incomplete, duplicated or different in some round changes the loop state or output that TLC computes; jobs run under adaptive batching with short delays (receive timeouts), several layouts and perturbation",
         "the per-round multiset seen inside the body is observed through its effect on state/output", "4-C11"),
 "C16": ("D+T: single-replica chains under every batch mode compared AS SEQUENCES by TLC with Eval; link FIFO by Link.tla",
         "sequential pipelines of length 1..6 with up to 1500 (thorough 5000) elements, all batch modes: the sink sequence must equal the iterator-chain meaning computed by TLC",
         "reorder() is covered by the C06/C13 component checks", "4-C16"),
 "C18": ("T: streaming jobs fed through a channel source with a long idle period; Latency.tla judges the order of fed/arrive/close events; Link.tla shows nothing pending at the end",
         "for adaptive batching every element fed before the idle period must have left the sink before the source is closed (idle 2.5 s vs 20 ms max delay, depth 1..3, parallelism 1..3); for every mode everything is delivered by the end of the iteration",
         "verdict by event order only; the idle period is two orders of magnitude above depth x delay", "4-C18"),
 "C20": ("fault enumeration + T: panic injected at enumerated (operator, replica, element) points of acyclic jobs; CrashCheck.tla judges hosts' outcomes and sinks against the execution graph",
         "for each crash point: execute_blocking must fail on the host of the failed replica and on every host running a downstream block, no StreamOutput sink fed from the failed block or downstream may publish, and every worker thread must unwind within 6 s",
         "collect_channel / for_each stream by contract and are excluded; downstream = reachability in the dumped execution graph", "4-C20"),
 "C15": ("M+R: TLC model check of comp/FileSplit, CsvSplit, RangeSplit (+ Apalache for 64-bit limits in thorough); every enumerated file/range run through the real sources; SourceProps judged by TLC (SourceCheck.tla)",
         "every file over {x, LF, CRLF} up to a length bound for 1..6 replicas and every small range for 1..6 peers of all ten integer types (plus near-limit tables) is run on the real FileSource/CsvSource/IntoParallelSource; TLC evaluates exactly-once/partition predicates on the real per-replica output; the finite spaces are enumerated completely",
         "TLC integers are 32 bit: near-limit values reach TLC through an order-preserving map; CSV quoted newlines are outside the property", "4-C15"),
 "C12": ("M+R: TLC model check of comp/CountWindow.tla; every (N, S, length, mode) case run on the real CountWindow manager and WindowOperator; WindowProps judged by TLC (WindowCheck.tla)",
         "the slot algorithm is model checked for all 1<=S<=N, lengths and modes of the tier; the same finite space is enumerated completely on the real manager through the public WindowDescription::build / WindowManager::process with a collecting accumulator (group content, position, end flush, keys), plus keyed interleavings through a real single-block job",
         "results are judged from (input, per-step outputs) only; library aggregators first/last/min/max/count covered, sum through the job-level D check", "4-C12"),
 "C13": ("M+R: TLC model check of comp/EventTimeWindow.tla and TransactionWindow.tla; TLC-generated arrival orders / watermark placements replayed on the real managers; WindowProps judged by TLC",
         "every arrival order allowed by the watermarks for small sizes/slides/timestamps: span, tumbling exactly-once, sliding cover, fired_early / fired_late against the watermarks, transaction commit/discard; open finding F3 carved out narrowly with a finding config that must still fail",
         "managers driven directly and through WindowOperator in a single-block job", "4-C13"),
 "C14": ("M+R: TLC model check of comp/ProcTimeWindow.tla and SessionWindow.tla over integer tick patterns; the patterns replayed tick for tick on the real managers under the mock clock; WindowProps judged by TLC",
         "conservation (each element in exactly one result, order kept, no empty result), sliding cover, flush at the end of the iteration, for every timing pattern of the tier",
         "wall-clock windows are judged under the mock clock only (verif::set_mock_clock); the Instant::now() path itself is exercised by the repository's own test", "4-C14"),
}

# entries refreshed after the block-head conformance specs, the algorithmic join models and the loop trace specs
CLAIMED.update({
 "C01": ("D+T: sink results of generated pipelines (incl. keyed joins, loops with stateful bodies) under a configuration matrix compared by TLC with SeqSemantics!Eval; traces validated against Link/Boundary; every block head replayed through comp/StartCore.tla / BinaryStart.tla (conformance)",
         "TLC evaluates the sequential meaning (spec/SeqSemantics.tla) of every generated program and compares each sink as a bag (sequence where ordered); every run's trace is validated against spec/trace/Link.tla and Boundary.tla; every replica's receive/output events are replayed through the Start transcriptions. Small-scope over programs/configs, sampled real schedules with seeded perturbation; sys/Runtime.tla templates model checked.",
         "programs are the typed closure of the interpreter's operator set up to a depth bound; user functions from a fixed deterministic family; schedules of the real runtime are sampled, not enumerated", "4-C01"),
 "C05": ("M+R+T: TLC model check of comp/Start.tla and comp/SortMergeJoin.tla; TLC-generated arrival interleavings replayed on the real Start and on the real joins/zip/merge over several iterations (carry-over decided by re-running each iteration alone); grammar monitor on every operator boundary of generated jobs; block-head conformance",
         "exhaustive model check of the block-input protocol for small constants; thousands of TLC-generated behaviours replayed on the real End+channel+Start and judged by TLC; Elem!GStep automaton at every probe of every generated pipeline; five window kinds, folds, reorder, joins over two iterations",
         "FlushBatch erased by the grammar; upstream replicas round-synchronised (Start.tla CanSend); a replay whose arrival order could not be enforced is judged only inside that assumption", "4-C05"),
 "C08": ("M+R+D: TLC model check of comp/HashJoin.tla and comp/SortMergeJoin.tla (the local algorithms as coded); every arrival order of TLC-enumerated script pairs (comp/Interleave.tla) enforced on the real joins, judged by JoinCheck.tla; generated join programs compared with the relational join; interval joins; BinaryStart conformance",
         "the two local join algorithms are model checked for every small input pair and interleaving (seeded regressions must still fail); the real operators are driven through every enumerated arrival order (thorough) or a sample (quick) of hand-written and generated two-iteration cases; TLC computes the relational join for generated programs under the configuration matrix",
         "the keyed join and broadcast shipping are covered by generated programs (D), the arrival-order replay uses one replica per side", "4-C08"),
 "C10": ("M+D+T: TLC model check of sys/Iteration.tla (lock generation, barrier, state feedback; the no-wait variant must read stale state); loop programs compared by TLC with SeqSemantics!LoopRun; per-round state reads, lock discipline and leader decisions validated by IterTrace.tla under a delayed state feedback; block-head conformance inside loops",
         "TLC runs the loop sequentially (state after round k = global fold of local folds, stop on condition or bound, replay re-feeds, iterate feeds back) and compares final state and output of every run; every state read of every round is checked against the state the leader decided for that round, on multi-host layouts with the state broadcast of one host held back",
         "the gfold family is restricted to functions for which the default delta of idle replicas is neutral (what C10 assumes)", "4-C10"),
 "C11": ("M+D+T: TLC model check of comp/SideInput.tla over comp/BinaryStart.tla (cached side, timeouts, several producers; the pre-repair variants F8/F10 must still fail); loop programs with side inputs compared with the sequential loop semantics; SideTrace.tla per round and replica; every real BinaryStart replica replayed through comp/BinaryStart.tla (BinaryConform.tla)",
         "the receiver's decision tree is explored exhaustively for small constants; on real jobs TLC checks per round and replica that the side input is presented completely and exactly once, and that every receive/output event of the block head is the one the specification allows next",
         "side input always the right operand in generated programs; conformance mismatches are reported as DRIFT, verdicts come from the C11 predicates and hangs", "4-C11"),
 "C20": ("M + fault enumeration + T: TLC model check of sys/Crash.tla; panic injected at enumerated (operator, replica, element) points of acyclic jobs; CrashCheck.tla judges hosts' outcomes and sinks against the replica-level execution graph",
         "for each crash point: execute_blocking must fail on the host of the failed replica and on every host running a replica reachable from it through the links of the dumped execution graph, no StreamOutput sink fed from the failed block or downstream may publish, and every spawned worker thread must end within 6 s",
         "collect_channel / for_each stream by contract and are excluded; downstream = reachability over replica-level links", "4-C20"),
})

def main():
    props = [json.loads(l)["id"] for l in open(os.path.join(ROOT, "properties.jsonl"))]
    commits = subprocess.run(["git", "-C", "/repo", "log", "--format=%H %s", "d221401..HEAD"],
                             capture_output=True, text=True).stdout.strip().splitlines()
    hook_commits = [c.split()[0] for c in commits if c.split(" ", 1)[1].startswith("verif:")]
    checks = []
    for p in props:
        if p not in CLAIMED:
            continue
        tech, text, note, ref = CLAIMED[p]
        checks.append({
            "property_id": p,
            "quick_cmd": f"./check {p} --tier quick",
            "thorough_cmd": f"./check {p} --tier thorough",
            "evidence_file": f"evidence/{p}.json",
            "replay_cmd_template": f"./check {p} --replay {{path}}",
            "engine": "tlc+vh",
            "level_claimed": {"category": "model_checking", "text": text, "design_ref": ref},
            "level_note": note,
            "technique": tech,
        })
    m = {
        "version": 1,
        "setup_cmd": "cd harness && cargo build --offline && cd ../harness-src && cargo build --offline && cd ../harness-win && cargo build --offline",
        "hooks": {
            "guard": "cargo feature `verif` of the renoir crate (default off); every hook site is #[cfg(feature = \"verif\")]",
            "enable": "harness/Cargo.toml depends on renoir (path /repo) with features = [\"verif\"]; every check starts with an incremental `cargo build --offline` of the harness",
            "baseline_off_cmd": "cd /repo && cargo nextest run --workspace --no-fail-fast --tool-config-file pb:/w/lib/nextest.toml --profile pb --test-threads 8 --offline",
            "source_commits": hook_commits,
            "add_only": True,
        },
        "engines": [
            {"name": "tlc+vh", "path": "check", "serves_properties": sorted(CLAIMED),
             "kind_free_text": "python driver: TLC (model checking, behaviour generation, trace validation) + Rust harness `vh` driving the real engine with the `verif` hooks"}],
        "checks": checks,
        "not_applicable": [{"property_id": p, "reason": "check under construction (DESIGN.md section 7); claimed once it passes on the unchanged tree"} for p in props if p not in CLAIMED],
        "notes": "See DESIGN.md. known_findings.json lists genuine defects (open/fixed).",
    }
    json.dump(m, open(os.path.join(ROOT, "MANIFEST.json"), "w"), indent=1)
    print("claimed:", sorted(CLAIMED), "hook commits:", len(hook_commits))

if __name__ == "__main__":
    main()
