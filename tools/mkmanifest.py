#!/usr/bin/env python3
"""Regenerate /verif/MANIFEST.json from the table below (keeps it valid at all times)."""
import json, os, subprocess
ROOT = os.path.dirname(os.path.dirname(os.path.abspath(__file__)))

CLAIMED = {
 "C01": ("D+T: sink results of generated pipelines under a configuration matrix compared by TLC with SeqSemantics!Eval; traces validated against Link/Boundary trace specs",
         "TLC evaluates the sequential meaning (spec/SeqSemantics.tla) of every generated program and compares each sink as a bag (sequence where ordered); every run's trace is validated against spec/trace/Link.tla and Boundary.tla. Small-scope over programs/configs, sampled real schedules with seeded perturbation.",
         "programs are the typed closure of the interpreter's operator set up to a depth bound; user functions from a fixed deterministic family; schedules of the real runtime are sampled, not enumerated", "4-C01"),
 "C02": ("T: trace validation of every link (enq/send/recv hooks) against spec/trace/Link.tla with TLC",
         "every enqueue, send and receive of every link of every traced job is checked by TLC against the FIFO exactly-once link specification (prefix relations per producer/endpoint, nothing left at the end)",
         "hooks in batcher.rs/network_channel.rs emit at the linearization points; payloads compared through their JSON projection", "4-C02"),
 "C05": ("M+R+T: TLC model check of comp/Start.tla; TLC-generated arrival interleavings replayed on the real Start and judged by StartProps predicates; grammar monitor on every operator boundary of generated jobs",
         "exhaustive model check of the block-input protocol for small constants; thousands of TLC-generated behaviours replayed on the real End+channel+Start and judged by TLC; Elem!GStep automaton at every probe of every generated pipeline",
         "FlushBatch erased by the grammar; upstream replicas round-synchronised (Start.tla CanSend)", "4-C05"),
 "C06": ("M+R: TLC model check of comp/Start.tla (watermark frontier); TLC-generated behaviours replayed on the real Start, judged by StartProps (late_element, watermark_not_increasing)",
         "exhaustive model check of the min-frontier for small constants; replayed behaviours judged by TLC on the real history",
         "inputs respect the watermark contract per sender", "4-C06"),
 "C17": ("M+R: TLC model check of comp/Start.tla with the progress predicate ActiveMin; replay of TLC-generated interleavings on the real Start, judged by TLC",
         "the predicate 'at every data output the last emitted watermark has caught up with the minimum over active replicas' is an invariant of the model (cause=watermark) and is evaluated by TLC on real histories of thousands of enforced arrival orders; cause=replica_ended is the open finding F6",
         "lock-step gates enforce the arrival order with single-element batches", "4-C17"),
 "C03": ("T: trace validation of every End emission (probe + enq hooks) against spec/trace/Routing.tla with the connection kind promised by the API call",
         "for templates whose block boundaries are created by one API call each (shuffle, group_by, replication, broadcast, hash/broadcast joins, route, zip) TLC checks for every element leaving a block the fan-out per downstream block, same-index forwarding, key->replica functionality across producers and join sides, first-match routing and control broadcast, over local parallelism 1..4 and remote layouts",
         "replica sets are taken from worker-start events; delivery of what was enqueued is C02's link check", "4-C03"),
 "C19": ("M+R: TLC model check of comp/ExecGraph.tla over all small clusters; StreamContext::verif_execution_graph dumps of every host judged by TLC (GraphProps.tla)",
         "the scheduler rules as coded are model checked for every cluster up to MaxHosts x MaxCores and every replication requirement; for hundreds of (program, cluster) pairs the graph and address map derived by EVERY host of the real scheduler are checked by TLC against the property's rules and against each other",
         "the dump hook runs build_execution_graph + topology.build exactly as start_blocking does, without starting workers", "4-C19"),
}

def main():
    props = [json.loads(l)["id"] for l in open(os.path.join(ROOT, "properties.jsonl"))]
    commits = subprocess.run(["git", "-C", "/repo", "log", "--format=%H %s", "d221401..HEAD"],
                             capture_output=True, text=True).stdout.strip().splitlines()
    hook_commits = [c.split()[0] for c in commits if c.split(" ", 1)[1].startswith("verif:")]
    checks = []
    for p in props:
        if p not in CLAIMED:
            continue
        tech, text, note, ref = CLAIMED[p]
        checks.append({
            "property_id": p,
            "quick_cmd": f"./check {p} --tier quick",
            "thorough_cmd": f"./check {p} --tier thorough",
            "evidence_file": f"evidence/{p}.json",
            "replay_cmd_template": f"./check {p} --replay {{path}}",
            "engine": "tlc+vh",
            "level_claimed": {"category": "model_checking", "text": text, "design_ref": ref},
            "level_note": note,
            "technique": tech,
        })
    m = {
        "version": 1,
        "setup_cmd": "cd harness && cargo build --offline",
        "hooks": {
            "guard": "cargo feature `verif` of the renoir crate (default off); every hook site is #[cfg(feature = \"verif\")]",
            "enable": "harness/Cargo.toml depends on renoir (path /repo) with features = [\"verif\"]; every check starts with an incremental `cargo build --offline` of the harness",
            "baseline_off_cmd": "cd /repo && cargo nextest run --workspace --no-fail-fast --tool-config-file pb:/w/lib/nextest.toml --profile pb --test-threads 8 --offline",
            "source_commits": hook_commits,
            "add_only": True,
        },
        "engines": [
            {"name": "tlc+vh", "path": "check", "serves_properties": sorted(CLAIMED),
             "kind_free_text": "python driver: TLC (model checking, behaviour generation, trace validation) + Rust harness `vh` driving the real engine with the `verif` hooks"}],
        "checks": checks,
        "not_applicable": [{"property_id": p, "reason": "check under construction (DESIGN.md section 7); claimed once it passes on the unchanged tree"} for p in props if p not in CLAIMED],
        "notes": "See DESIGN.md. known_findings.json lists genuine defects (open/fixed).",
    }
    json.dump(m, open(os.path.join(ROOT, "MANIFEST.json"), "w"), indent=1)
    print("claimed:", sorted(CLAIMED), "hook commits:", len(hook_commits))

if __name__ == "__main__":
    main()
