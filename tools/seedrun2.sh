#!/bin/bash
# tools/seedrun2.sh <name> <worktree> <check> [<check> ...]: run checks against a seeded change WITHOUT touching
# /repo: a scratch copy of /verif whose harness crates depend on the worktree (which has the patch applied).
# Lets seeded runs proceed while other checks run against /repo.  The copy is removed afterwards.
N=$1; W=$2; shift; shift
C=/tmp/vseed-$N-$$
rm -rf $C; mkdir -p $C
rsync -a --exclude .git --exclude work --exclude replays --exclude 'harness-src/target' --exclude 'harness-win/target' /verif/ $C/
sed -i "s#path = \"/repo\"#path = \"$W\"#" $C/harness/Cargo.toml $C/harness-src/Cargo.toml $C/harness-win/Cargo.toml
cd $C
for c in "$@"; do
  echo "=== $c on seeded $N ($W)"; ( time ./check $c ) > /tmp/seedrun_${N}_$c.log 2>&1; echo "exit=$?"
  grep -E "^VIOLATION|^KNOWN|^DRIFT|TOOL ERROR|^real" /tmp/seedrun_${N}_$c.log | cut -c1-200 | head -6
done
cd /; rm -rf $C
