#!/bin/bash
# run every check's thorough tier once, sequentially; log exit codes and wall times
cd "$(dirname "$0")/.."
(cd harness && cargo build --offline -q) ; (cd harness-src && cargo build --offline -q); (cd harness-win && cargo build --offline -q)
for c in ${@:-C17 C19 C03 C08 C09 C07 C16 C18 C20 C10 C11 C02 C06 C05 C04 C01 C12 C13 C14 C15}; do
  s=$(date +%s); ./check $c --tier thorough > thorough_$c.log 2>&1; e=$?
  echo "$c exit=$e $(( $(date +%s)-s ))s viol=$(grep -c '^VIOLATION' thorough_$c.log) $(grep -E 'TOOL ERROR' thorough_$c.log | cut -c1-160)"
done
