#!/bin/bash
# every check's quick tier once, sequentially; exit codes and wall times (evidence/ is rewritten)
cd "$(dirname "$0")/.."
for c in ${@:-C01 C02 C03 C04 C05 C06 C07 C08 C09 C10 C11 C12 C13 C14 C15 C16 C17 C18 C19 C20}; do
  s=$(date +%s); ./check $c > /tmp/quick_$c.log 2>&1; e=$?
  echo "$c exit=$e $(( $(date +%s)-s ))s viol=$(grep -c '^VIOLATION' /tmp/quick_$c.log) known=$(grep -c '^KNOWN' /tmp/quick_$c.log) drift=$(grep -c '^DRIFT' /tmp/quick_$c.log) $(grep -E 'TOOL ERROR' /tmp/quick_$c.log | cut -c1-160)"
done
