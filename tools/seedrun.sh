#!/bin/bash
# tools/seedrun.sh <ID> <check> [<check> ...]: apply seeded/<ID>/patch.diff to /repo, run the checks, undo.
ID=$1; shift
cd /verif
git -C /repo status --short | grep -q . && { echo "/repo not clean"; exit 2; }
git -C /repo apply /verif/seeded/$ID/patch.diff || exit 2
for c in "$@"; do
  echo "=== $c on seeded $ID"; ( time ./check $c ) > /tmp/seedrun_${ID}_$c.log 2>&1; echo "exit=$?"
  grep -E "^VIOLATION|^KNOWN|^DRIFT|TOOL ERROR|^real" /tmp/seedrun_${ID}_$c.log | cut -c1-200 | head -6
done
git -C /repo checkout -- . ; git -C /repo status --short
