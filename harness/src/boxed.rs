//! Type-erased operator over renoir's public `Operator` trait. It is also the boundary probe:
//! every element that crosses it is logged (when probing is on) as a `probe` event.

use std::fmt::Display;

use renoir::operator::{Operator, StreamElement};
use renoir::structure::BlockStructure;
use renoir::ExecutionMetadata;
use serde::Serialize;
use serde_json::json;

pub trait DynOp<T>: Send {
    fn dyn_setup(&mut self, metadata: &mut ExecutionMetadata);
    fn dyn_next(&mut self) -> StreamElement<T>;
    fn dyn_structure(&self) -> BlockStructure;
    fn dyn_clone(&self) -> Box<dyn DynOp<T>>;
    fn dyn_fmt(&self) -> String;
}

impl<Op> DynOp<Op::Out> for Op
where
    Op: Operator + 'static,
{
    fn dyn_setup(&mut self, metadata: &mut ExecutionMetadata) {
        self.setup(metadata)
    }
    fn dyn_next(&mut self) -> StreamElement<Op::Out> {
        self.next()
    }
    fn dyn_structure(&self) -> BlockStructure {
        self.structure()
    }
    fn dyn_clone(&self) -> Box<dyn DynOp<Op::Out>> {
        Box::new(self.clone())
    }
    fn dyn_fmt(&self) -> String {
        self.to_string()
    }
}

/// Probe configuration of one boundary.
#[derive(Clone, Debug)]
pub struct Probe {
    /// Identifier of the boundary (node id of the operator whose output this is).
    pub id: String,
    /// Whether to log.
    pub on: bool,
}

pub struct BoxedOp<T> {
    inner: Box<dyn DynOp<T>>,
    probe: Probe,
    at: String,
    gid: u64,
}

impl<T: Send + 'static> BoxedOp<T> {
    pub fn new<Op: Operator<Out = T> + 'static>(op: Op, probe: Probe) -> Self {
        BoxedOp {
            inner: Box::new(op),
            probe,
            at: String::new(),
            gid: 0,
        }
    }
}

impl<T> Clone for BoxedOp<T> {
    fn clone(&self) -> Self {
        BoxedOp {
            inner: self.inner.dyn_clone(),
            probe: self.probe.clone(),
            at: self.at.clone(),
            gid: self.gid,
        }
    }
}

impl<T> Display for BoxedOp<T> {
    fn fmt(&self, f: &mut std::fmt::Formatter<'_>) -> std::fmt::Result {
        write!(f, "{}", self.inner.dyn_fmt())
    }
}

impl<T: Send + Serialize + 'static> Operator for BoxedOp<T> {
    type Out = T;

    fn setup(&mut self, metadata: &mut ExecutionMetadata) {
        self.at = format!(
            "{}.{}.{}",
            metadata.coord.block_id, metadata.coord.host_id, metadata.coord.replica_id
        );
        self.gid = metadata.global_id;
        self.inner.dyn_setup(metadata);
    }

    fn next(&mut self) -> StreamElement<T> {
        CUR_GID.with(|g| g.set(self.gid as i64));
        let el = self.inner.dyn_next();
        if self.probe.on {
            renoir::verif::emit(|| {
                json!({"ev": "probe", "id": self.probe.id, "at": self.at, "gid": self.gid,
                    "el": renoir::verif::element(&el)})
            });
        }
        el
    }

    fn structure(&self) -> BlockStructure {
        self.inner.dyn_structure()
    }
}

thread_local! {
    /// Global replica id of the block the current worker thread runs.
    pub static CUR_GID: std::cell::Cell<i64> = const { std::cell::Cell::new(-1) };
}
