//! The fixed family of deterministic user functions shared with `spec/SeqSemantics.tla`.
//! All values live in `0..M`.

pub const M: i64 = 1_000_003;

pub fn fmap(name: &str) -> fn(i64) -> i64 {
    match name {
        "inc" => |v| (v + 1) % M,
        "mul3p1" => |v| (3 * v + 1) % M,
        "mod7" => |v| v % 7,
        "half" => |v| v / 2,
        "add10" => |v| (v + 10) % M,
        "id" => |v| v,
        _ => panic!("unknown map function {name}"),
    }
}

pub fn ffilter(name: &str) -> fn(i64) -> bool {
    match name {
        "odd" => |v| v % 2 == 1,
        "even" => |v| v % 2 == 0,
        "lt50" => |v| v < 50,
        "ge5" => |v| v >= 5,
        "ne3" => |v| v != 3,
        "all" => |_| true,
        "none" => |_| false,
        _ => panic!("unknown filter {name}"),
    }
}

pub fn fflat(name: &str) -> fn(i64) -> Vec<i64> {
    match name {
        "dup" => |v| vec![v, (v + 1) % M],
        "drop_even" => |v| if v % 2 == 1 { vec![v] } else { vec![] },
        "range3" => |v| vec![v, (v + 1) % M, (v + 2) % M],
        "none" => |_| vec![],
        "one" => |v| vec![v],
        _ => panic!("unknown flat_map {name}"),
    }
}

/// Combine two values into one (pairs, key/value); `None` is passed as -1.
pub fn comb(a: i64, b: i64) -> i64 {
    ((a + 1) * 1009 + (b + 1)) % M
}

pub fn opt(v: Option<i64>) -> i64 {
    v.unwrap_or(-1)
}

/// Aggregations: (initial value, step)
pub fn agg(name: &str) -> (i64, fn(i64, i64) -> i64) {
    match name {
        "sum" => (0, |a, v| (a + v) % M),
        "max" => (0, |a, v| a.max(v)),
        "min" => (M, |a, v| a.min(v)),
        "count" => (0, |a, _| a + 1),
        _ => panic!("unknown aggregation {name}"),
    }
}

/// How partial aggregates are combined (second phase of the associative forms).
pub fn agg_merge(name: &str) -> fn(i64, i64) -> i64 {
    match name {
        "sum" => |a, b| (a + b) % M,
        "max" => |a, b| a.max(b),
        "min" => |a, b| a.min(b),
        "count" => |a, b| a + b,
        _ => panic!("unknown aggregation {name}"),
    }
}

/// State-dependent map used inside loop bodies.
pub fn fmap_st(name: &str) -> fn(i64, i64) -> i64 {
    match name {
        "add_state" => |v, s| (v + s) % M,
        "mix_state" => |v, s| (v * 3 + s * 7 + 1) % M,
        "id" => |v, _| v,
        _ => panic!("unknown state map {name}"),
    }
}

pub fn fcond(name: &str) -> fn(i64) -> bool {
    match name {
        "always" => |_| true,
        "lt1000" => |s| s < 1000,
        "lt100" => |s| s < 100,
        "lt30" => |s| s < 30,
        "lt10" => |s| s < 10,
        "never" => |_| false,
        _ => panic!("unknown condition {name}"),
    }
}
