//! Running one job (a program under a configuration) and collecting sink results and the trace.

use std::panic::{catch_unwind, AssertUnwindSafe};
use std::sync::atomic::{AtomicBool, AtomicU64, Ordering};
use std::sync::Arc;
use std::time::{Duration, Instant};

use renoir::config::{ConfigBuilder, HostConfig};
use renoir::prelude::*;
use serde_json::{json, Value};

use crate::interp::Interp;
use crate::trace::{Gate, Perturb, Session, Turns};

pub fn batch_mode(v: &Value) -> Option<BatchMode> {
    let s = v.as_str().unwrap_or("default");
    let parts: Vec<&str> = s.split(':').collect();
    match parts[0] {
        "default" => None,
        "single" => Some(BatchMode::single()),
        "fixed" => Some(BatchMode::fixed(parts[1].parse().unwrap())),
        "adaptive" => Some(BatchMode::adaptive(
            parts[1].parse().unwrap(),
            Duration::from_micros(parts[2].parse().unwrap()),
        )),
        _ => panic!("bad batch mode {s}"),
    }
}

/// The configurations of all the hosts of a job. `slot`/`serial` make the loopback addresses
/// unique among concurrently running harness processes and among the jobs of one process.
pub fn configs(cfg: &Value, slot: u32, serial: u32) -> Vec<RuntimeConfig> {
    match cfg["mode"].as_str().unwrap_or("local") {
        "local" => vec![RuntimeConfig::local(cfg["par"].as_u64().unwrap_or(1)).unwrap()],
        "remote" => {
            let cores: Vec<u64> = cfg["hosts"]
                .as_array()
                .unwrap()
                .iter()
                .map(|c| c.as_u64().unwrap())
                .collect();
            let addr = format!(
                "127.{}.{}.{}",
                1 + slot % 250,
                (serial / 250) % 250,
                1 + serial % 250
            );
            let hosts: Vec<HostConfig> = cores
                .iter()
                .enumerate()
                .map(|(i, &c)| HostConfig {
                    address: addr.clone(),
                    base_port: 21000 + (i as u16) * 400,
                    num_cores: c,
                    ssh: Default::default(),
                    perf_path: None,
                })
                .collect();
            (0..cores.len())
                .map(|h| {
                    ConfigBuilder::new_remote()
                        .add_hosts(&hosts)
                        .host_id(h as u64)
                        .build()
                        .unwrap()
                })
                .collect()
        }
        m => panic!("bad mode {m}"),
    }
}

pub struct JobOutcome {
    pub result: Value,
    pub events: Vec<Value>,
}

/// Progress information shared with the watchdog.
pub struct Progress {
    pub job: parking_lot::Mutex<Option<(String, Instant, u64, Arc<crate::trace::Recorder>)>>,
    pub started: AtomicU64,
    pub in_job: AtomicBool,
}

pub static PANIC_LOG: once_cell::sync::Lazy<parking_lot::Mutex<Vec<String>>> =
    once_cell::sync::Lazy::new(|| parking_lot::Mutex::new(Vec::new()));

pub fn install_panic_hook() {
    std::panic::set_hook(Box::new(|info| {
        let msg = info.to_string();
        let mut l = PANIC_LOG.lock();
        if l.len() < 64 {
            l.push(msg.chars().take(300).collect());
        }
    }));
}

/// Build the gate described by the job (lock-step for scripted sources).
fn make_gate(job: &Value, turns: &Arc<Turns>) -> Option<Gate> {
    let g = job.get("gate")?;
    match g["kind"].as_str()? {
        // every `recv` whose sender block is in `blocks` counts as one delivery
        "count_recv" => {
            let blocks: Vec<String> = g["from_blocks"]
                .as_array()
                .map(|a| a.iter().map(|b| b.to_string()).collect())
                .unwrap_or_default();
            let turns = turns.clone();
            let delivered = AtomicU64::new(0);
            Some(Arc::new(move |ev: &Value| {
                if ev["ev"] == "recv" {
                    let from = ev["from"].as_str().unwrap_or("");
                    let b = from.split('.').next().unwrap_or("");
                    if blocks.is_empty() || blocks.iter().any(|x| x == b) {
                        let n = ev["els"].as_array().map(|a| a.len() as u64).unwrap_or(1);
                        let d = delivered.fetch_add(n, Ordering::SeqCst) + n;
                        turns.advance_to(d);
                    }
                }
            }))
        }
        // hold back the state feedback of a loop for the head replicas of one host: the other hosts
        // start the next round first and their data overtakes the state broadcast (C10 schedules,
        // derived from the counterexample of spec/mc/Iteration_nowait.cfg)
        "delay_state" => {
            let host = g["host"].as_u64().unwrap_or(1).to_string();
            let ms = g["ms"].as_u64().unwrap_or(30);
            Some(Arc::new(move |ev: &Value| {
                if ev["ev"] == "recv" {
                    let at = ev["at"].as_str().unwrap_or("");
                    let h = at.split('.').nth(1).unwrap_or("");
                    if h == host {
                        let is_state = ev["els"]
                            .as_array()
                            .and_then(|a| a.first())
                            .and_then(|e| e["v"].as_array())
                            .and_then(|v| v.first())
                            .and_then(|x| x.as_str())
                            .map(|s| s == "Continue" || s == "Finished")
                            .unwrap_or(false);
                        if is_state {
                            std::thread::sleep(Duration::from_millis(ms));
                        }
                    }
                }
            }))
        }
        _ => None,
    }
}

pub fn run_job(job: &Value, slot: u32, serial: u32, progress: &Progress) -> JobOutcome {
    let id = job["id"].as_str().unwrap_or("?").to_string();
    let trace_on = job["trace"].as_bool().unwrap_or(true);
    let keep: Option<Vec<String>> = job["keep"].as_array().map(|a| {
        a.iter()
            .map(|x| x.as_str().unwrap().to_string())
            .collect()
    });
    let seed = job["seed"].as_u64().unwrap_or(0);
    let perturb_us = job["perturb_us"].as_u64().unwrap_or(0);
    let turns = Turns::new();
    turns
        .timeout_ms
        .store(job["gate_timeout_ms"].as_u64().unwrap_or(2000), Ordering::Relaxed);
    let turns_stat = turns.clone();
    let gate = make_gate(job, &turns);
    let perturb = if perturb_us > 0 {
        Some(Perturb {
            seed,
            max_us: perturb_us,
            every: job["perturb_every"].as_u64().unwrap_or(3),
        })
    } else {
        None
    };
    PANIC_LOG.lock().clear();
    let session = Session::start(
        if trace_on { keep } else { Some(vec![]) },
        perturb,
        gate,
    );
    *progress.job.lock() = Some((
        id.clone(),
        Instant::now(),
        job["hang_ms"].as_u64().unwrap_or(15000),
        session.rec.clone(),
    ));
    progress.in_job.store(true, Ordering::SeqCst);

    let cfgs = configs(&job["cfg"], slot, serial);
    let batch = batch_mode(&job["batch"]);
    let crash = job.get("crash").filter(|c| !c.is_null()).map(|c| {
        (
            match &c["node"] {
                Value::String(s) => s.clone(),
                o => o.to_string(),
            },
            c["gid"].as_i64().unwrap_or(-1),
            c["at"].as_i64().unwrap_or(0),
        )
    });
    let t0 = Instant::now();
    let threads_before = count_threads();
    if job["selftest_leak"].as_bool().unwrap_or(false) {
        // self-test of the thread-leak check: a thread that outlives the job
        std::thread::spawn(|| std::thread::sleep(Duration::from_secs(8)));
    }
    let nhosts = cfgs.len();
    let mut handles = vec![];
    for (h, cfg) in cfgs.into_iter().enumerate() {
        let prog = job["prog"].clone();
        let turns = turns.clone();
        let crash = crash.clone();
        let probes_on = trace_on && job["probes"].as_bool().unwrap_or(true);
        let feed = if h == 0 { job["feed"].clone() } else { Value::Null };
        handles.push(
            std::thread::Builder::new()
                .name(format!("host-{h}"))
                .spawn(move || {
                    let built = catch_unwind(AssertUnwindSafe(|| {
                        let env = StreamContext::new(cfg);
                        let mut it = Interp {
                            env: &env,
                            probes_on,
                            batch,
                            turns: Some(turns),
                            sinks: vec![],
                            crash,
                            feeds: vec![],
                        };
                        it.top(&prog);
                        let sinks = std::mem::take(&mut it.sinks);
                        let feeds = std::mem::take(&mut it.feeds);
                        (env, sinks, feeds)
                    }));
                    let (env, mut sinks, feeds) = match built {
                        Ok(x) => x,
                        Err(_) => return json!({"host": h, "build_panic": true, "sinks": []}),
                    };
                    // streaming jobs: feed the channel sources on a schedule and watch the channel
                    // sinks, noting every hand-over as an event (order, not wall clock, is judged)
                    let mut side_threads = vec![];
                    if let Some(feed) = feed.as_array().cloned() {
                        let t0 = Instant::now();
                        side_threads.push(std::thread::spawn(move || {
                            let mut feeds = feeds;
                            for step in feed {
                                let at = Duration::from_millis(step["at_ms"].as_u64().unwrap_or(0));
                                if let Some(rest) = at.checked_sub(t0.elapsed()) {
                                    std::thread::sleep(rest);
                                }
                                if step["close"].as_bool().unwrap_or(false) {
                                    // the idle period before the close is counted from the moment the source
                                    // has TAKEN everything that was fed (on a loaded machine the job may start
                                    // late and the absolute schedule would leave no idle time at all)
                                    if let Some(ms) = step["after_drained_ms"].as_u64() {
                                        let t1 = Instant::now();
                                        while feeds.iter().any(|(_, tx)| !tx.is_empty())
                                            && t1.elapsed() < Duration::from_secs(60)
                                        {
                                            std::thread::sleep(Duration::from_millis(2));
                                        }
                                        std::thread::sleep(Duration::from_millis(ms));
                                    }
                                    Session::note(json!({"ev": "close"}));
                                    feeds.clear();
                                    continue;
                                }
                                let src = step["src"].as_str().unwrap_or("");
                                for v in step["vals"].as_array().cloned().unwrap_or_default() {
                                    let v = v.as_i64().unwrap();
                                    if let Some((_, tx)) = feeds.iter().find(|(i, _)| i == src) {
                                        Session::note(json!({"ev": "fed", "src": src, "v": v}));
                                        let _ = tx.send(v);
                                    }
                                }
                            }
                        }));
                        for (sid, _, hnd) in sinks.iter_mut() {
                            if let crate::interp::SinkHandle::Chan(rx) = hnd {
                                let (tx2, rx2) = flume::unbounded();
                                let rx = std::mem::replace(rx, rx2);
                                let sid = sid.clone();
                                side_threads.push(std::thread::spawn(move || {
                                    while let Ok(v) = rx.recv() {
                                        Session::note(json!({"ev": "arrive", "sink": sid, "v": v}));
                                        let _ = tx2.send(v);
                                    }
                                }));
                            }
                        }
                    } else {
                        drop(feeds);
                    }
                    Session::note(json!({"ev": "exec_start", "host": h}));
                    let exec = catch_unwind(AssertUnwindSafe(move || env.execute_blocking()));
                    Session::note(json!({"ev": "exec_end", "host": h, "ok": exec.is_ok()}));
                    for t in side_threads {
                        let _ = t.join();
                    }
                    let mut out = vec![];
                    for (sid, kind, hnd) in sinks {
                        let res = catch_unwind(AssertUnwindSafe(move || hnd.read()))
                            .unwrap_or(Value::Null);
                        out.push(json!({"id": sid, "kind": kind, "res": res}));
                    }
                    json!({"host": h, "ok": exec.is_ok(), "sinks": out})
                })
                .unwrap(),
        );
    }
    let mut hosts = vec![];
    for h in handles {
        hosts.push(h.join().unwrap_or(json!({"host": -1, "thread_panic": true})));
    }
    // every worker thread of this job must be gone before the next job starts (after a panic the
    // other workers are still unwinding when execute_blocking returns)
    let unwind_ms = job["unwind_ms"].as_u64().unwrap_or(6000);
    let t1 = Instant::now();
    let lingering = loop {
        let s = session.rec.workers_started.load(Ordering::SeqCst);
        let f = session.rec.workers_finished.load(Ordering::SeqCst);
        if f >= s {
            break 0;
        }
        if t1.elapsed() > Duration::from_millis(unwind_ms) {
            break s - f;
        }
        std::thread::sleep(Duration::from_millis(2));
    };
    let unwind_s = t1.elapsed().as_secs_f64();
    // C04 "all worker and network threads exit": the thread count of the process must come back to what it
    // was before the job (multiplexer / demultiplexer / listener threads have no hook of their own)
    let t2 = Instant::now();
    let threads_leaked = loop {
        let n = count_threads();
        if n <= threads_before {
            break 0;
        }
        if t2.elapsed() > Duration::from_millis(job["threads_ms"].as_u64().unwrap_or(3000)) {
            break n - threads_before;
        }
        std::thread::sleep(Duration::from_millis(5));
    };
    progress.in_job.store(false, Ordering::SeqCst);
    let wall = t0.elapsed().as_secs_f64();
    let total = session.rec.count.load(Ordering::Relaxed);
    let events = session.finish();
    let panics = std::mem::take(&mut *PANIC_LOG.lock());
    let result = json!({"id": id, "hosts": hosts, "nhosts": nhosts, "wall_s": wall, "events": total,
        "panics": panics, "lingering": lingering, "unwind_s": unwind_s,
        "gate_timeouts": turns_stat.timeouts.load(Ordering::Relaxed),
        "threads_leaked": threads_leaked, "threads_before": threads_before});
    JobOutcome { result, events }
}


/// Number of threads of this process (Linux: entries of /proc/self/task).
fn count_threads() -> u64 {
    std::fs::read_dir("/proc/self/task").map(|d| d.count() as u64).unwrap_or(0)
}

/// `vh graph`: the execution graph of a program as every host of a configuration derives it.
pub fn graph_case(case: &Value, slot: u32, serial: u32) -> Value {
    if let Some(pairs) = case.get("algebra").and_then(|a| a.as_array()) {
        // conformance of spec/comp/Replication.tla: the real `Replication::intersect` on every pair
        fn rep(v: &Value) -> renoir::Replication {
            match v["k"].as_str().unwrap() {
                "Unlimited" => renoir::Replication::Unlimited,
                "Host" => renoir::Replication::Host,
                "One" => renoir::Replication::One,
                _ => renoir::Replication::Limited(v["n"].as_u64().unwrap()),
            }
        }
        let out: Vec<Value> = pairs
            .iter()
            .map(|p| {
                let r = format!("{:?}", rep(&p["a"]).intersect(rep(&p["b"])));
                json!({"a": p["a"], "b": p["b"], "r": r})
            })
            .collect();
        return json!({"id": case["id"], "cfg": case["cfg"], "algebra": out, "dumps": [], "panics": []});
    }
    let cfgs = configs(&case["cfg"], slot, serial);
    let mut dumps = vec![];
    for (h, cfg) in cfgs.into_iter().enumerate() {
        let prog = case["prog"].clone();
        let r = catch_unwind(AssertUnwindSafe(|| {
            let env = StreamContext::new(cfg);
            let mut it = Interp {
                env: &env,
                probes_on: false,
                batch: None,
                turns: None,
                sinks: vec![],
                crash: None,
                feeds: vec![],
            };
            it.top(&prog);
            drop(std::mem::take(&mut it.sinks));
            env.verif_execution_graph()
        }));
        match r {
            Ok(d) => dumps.push(d),
            Err(_) => dumps.push(json!({"host": h, "panic": true})),
        }
    }
    json!({"id": case["id"], "cfg": case["cfg"], "dumps": dumps, "panics": std::mem::take(&mut *PANIC_LOG.lock())})
}
