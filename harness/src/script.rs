//! Scripted source: each replica emits exactly the element script it is given (any
//! `StreamElement`, several iterations), optionally in lock-step with a global turn counter.

use std::fmt::Display;
use std::sync::Arc;
use std::time::Duration;

use renoir::operator::source::Source;
use renoir::operator::{Operator, StreamElement};
use renoir::structure::{BlockStructure, OperatorKind, OperatorStructure};
use renoir::{ExecutionMetadata, Replication};
use serde_json::Value;

use crate::trace::Turns;

/// One scripted element: the stream element plus the number of deliveries (`recv` events counted by
/// the gate) that must have happened before it may be emitted (`None` = free running).
#[derive(Clone, Debug)]
pub struct Step<T> {
    pub el: StreamElement<T>,
    pub after: Option<u64>,
    /// Sleep before emitting (microseconds).
    pub delay_us: u64,
}

#[derive(Clone)]
pub struct ScriptSource<T> {
    /// Script per global replica id.
    pub scripts: Arc<Vec<Vec<Step<T>>>>,
    pub replication: Replication,
    pub turns: Option<Arc<Turns>>,
    mine: Vec<Step<T>>,
    pos: usize,
}

impl<T: Clone + Send + Sync + 'static> ScriptSource<T> {
    pub fn new(scripts: Vec<Vec<Step<T>>>, replication: Replication, turns: Option<Arc<Turns>>) -> Self {
        ScriptSource {
            scripts: Arc::new(scripts),
            replication,
            turns,
            mine: vec![],
            pos: 0,
        }
    }
}

impl<T> Display for ScriptSource<T> {
    fn fmt(&self, f: &mut std::fmt::Formatter<'_>) -> std::fmt::Result {
        write!(f, "ScriptSource")
    }
}

impl<T: Clone + Send + Sync + 'static> Operator for ScriptSource<T> {
    type Out = T;

    fn setup(&mut self, metadata: &mut ExecutionMetadata) {
        let g = metadata.global_id as usize;
        self.mine = self.scripts.get(g).cloned().unwrap_or_else(|| {
            vec![Step {
                el: StreamElement::FlushAndRestart,
                after: None,
                delay_us: 0,
            }]
        });
        self.pos = 0;
    }

    fn next(&mut self) -> StreamElement<T> {
        if self.pos >= self.mine.len() {
            return StreamElement::Terminate;
        }
        let step = self.mine[self.pos].clone();
        self.pos += 1;
        if let (Some(t), Some(turns)) = (step.after, self.turns.as_ref()) {
            // a gate never blocks for ever: after the timeout the element is emitted anyway
            let ms = match turns.timeout_ms.load(std::sync::atomic::Ordering::Relaxed) {
                0 => 2000,
                ms => ms,
            };
            if !turns.wait_for(t, Duration::from_millis(ms)) {
                turns.timeouts.fetch_add(1, std::sync::atomic::Ordering::Relaxed);
            }
        }
        if step.delay_us > 0 {
            std::thread::sleep(Duration::from_micros(step.delay_us));
        }
        step.el
    }

    fn structure(&self) -> BlockStructure {
        let mut operator = OperatorStructure::new::<T, _>("ScriptSource");
        operator.kind = OperatorKind::Source;
        BlockStructure::default().add_operator(operator)
    }
}

impl<T: Clone + Send + Sync + 'static> Source for ScriptSource<T> {
    fn replication(&self) -> Replication {
        self.replication
    }
}

/// Parse `{k, v?, ts?}` into a stream element with an `i64` payload.
pub fn parse_el_i64(v: &Value) -> StreamElement<i64> {
    let k = v["k"].as_str().unwrap_or("?");
    match k {
        "I" => StreamElement::Item(v["v"].as_i64().unwrap()),
        "T" => StreamElement::Timestamped(v["v"].as_i64().unwrap(), v["ts"].as_i64().unwrap()),
        "W" => StreamElement::Watermark(v["ts"].as_i64().unwrap()),
        "B" => StreamElement::FlushBatch,
        "R" => StreamElement::FlushAndRestart,
        "X" => StreamElement::Terminate,
        _ => panic!("bad element {v}"),
    }
}

/// Parse a list of per-replica scripts: `[[{k,v,ts,after?,delay?}, ...], ...]`.
pub fn parse_scripts_i64(v: &Value) -> Vec<Vec<Step<i64>>> {
    v.as_array()
        .unwrap()
        .iter()
        .map(|s| {
            s.as_array()
                .unwrap()
                .iter()
                .map(|e| Step {
                    el: parse_el_i64(e),
                    after: e.get("after").and_then(|a| a.as_u64()),
                    delay_us: e.get("delay").and_then(|a| a.as_u64()).unwrap_or(0),
                })
                .collect()
        })
        .collect()
}
