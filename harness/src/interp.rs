//! Dynamic pipeline interpreter: builds a renoir job from a JSON program (Appendix C of DESIGN.md)
//! over two erased stream types. Every operator output is wrapped in a `BoxedOp`, which is the
//! boundary probe.

use std::collections::HashMap;
use std::sync::Arc;

use parking_lot::Mutex;
use renoir::operator::sink::StreamOutput;
use renoir::operator::window::{CountWindow, EventTimeWindow};
use renoir::operator::Operator;
use renoir::prelude::*;
use renoir::{IterationStateHandle, KeyedStream, Replication, Stream};
use serde_json::{json, Value};

use crate::boxed::{BoxedOp, Probe, CUR_GID};
use crate::fam;
use crate::script::{parse_scripts_i64, ScriptSource};
use crate::trace::Turns;

pub type S = Stream<BoxedOp<i64>>;
pub type K = KeyedStream<BoxedOp<(i64, i64)>>;

pub enum Val {
    S(S),
    K(K),
}

/// Handle of one sink, read after the execution.
pub enum SinkHandle {
    Vec(StreamOutput<Vec<i64>>),
    KVec(StreamOutput<Vec<(i64, i64)>>),
    Count(StreamOutput<usize>),
    Chan(flume::Receiver<i64>),
    KChan(flume::Receiver<(i64, i64)>),
    Shared(Arc<Mutex<Vec<Value>>>),
}

impl SinkHandle {
    /// `None` when the sink replica does not live on this host (or nothing was published).
    pub fn read(self) -> Value {
        match self {
            SinkHandle::Vec(o) => o.get().map(|v| json!(v)).unwrap_or(Value::Null),
            SinkHandle::KVec(o) => o
                .get()
                .map(|v| json!(v.into_iter().map(|(k, v)| vec![k, v]).collect::<Vec<_>>()))
                .unwrap_or(Value::Null),
            SinkHandle::Count(o) => o.get().map(|v| json!([v])).unwrap_or(Value::Null),
            SinkHandle::Chan(rx) => json!(rx.try_iter().collect::<Vec<_>>()),
            SinkHandle::KChan(rx) => {
                json!(rx.try_iter().map(|(k, v)| vec![k, v]).collect::<Vec<_>>())
            }
            SinkHandle::Shared(v) => Value::Array(std::mem::take(&mut *v.lock())),
        }
    }
}

pub struct Interp<'a> {
    pub env: &'a StreamContext,
    pub probes_on: bool,
    pub batch: Option<BatchMode>,
    pub turns: Option<Arc<Turns>>,
    pub sinks: Vec<(String, String, SinkHandle)>,
    /// Crash injection: node id -> (global replica id or -1 for any, element index)
    pub crash: Option<(String, i64, i64)>,
    /// Senders of the channel sources (node id, sender): fed by the job's feeder thread.
    pub feeds: Vec<(String, flume::Sender<i64>)>,
}

fn probe(id: &str, on: bool) -> Probe {
    Probe {
        id: id.to_string(),
        on,
    }
}

fn repl(v: &Value) -> Replication {
    match v.as_str().unwrap_or("unlimited") {
        "one" => Replication::One,
        "host" => Replication::Host,
        "unlimited" => Replication::Unlimited,
        s if s.starts_with("limited:") => Replication::Limited(s[8..].parse().unwrap()),
        s => panic!("bad replication {s}"),
    }
}

fn route_pred(name: &str) -> fn(&i64) -> bool {
    match name {
        "odd" => |v| *v % 2 == 1,
        "even" => |v| *v % 2 == 0,
        "lt50" => |v| *v < 50,
        "ge5" => |v| *v >= 5,
        "ne3" => |v| *v != 3,
        "all" => |_| true,
        "none" => |_| false,
        _ => panic!("unknown route predicate {name}"),
    }
}

/// Scope of values while interpreting a node list (the top level or a loop body).
pub struct Scope {
    vals: HashMap<String, Val>,
    state: Option<IterationStateHandle<i64>>,
}

impl Scope {
    fn take(&mut self, r: &Value) -> Val {
        let key = match r {
            Value::String(s) => s.clone(),
            other => other.to_string(),
        };
        self.vals
            .remove(&key)
            .unwrap_or_else(|| panic!("value {key} not available (used twice or undefined)"))
    }
    fn take_s(&mut self, r: &Value) -> S {
        match self.take(r) {
            Val::S(s) => s,
            Val::K(_) => panic!("expected a plain stream at {r}"),
        }
    }
    fn take_k(&mut self, r: &Value) -> K {
        match self.take(r) {
            Val::K(k) => k,
            Val::S(_) => panic!("expected a keyed stream at {r}"),
        }
    }
}

impl<'a> Interp<'a> {
    fn bs<Op: Operator<Out = i64> + 'static>(&self, s: Stream<Op>, id: &str) -> S {
        let p = probe(id, self.probes_on);
        s.add_operator(|prev| BoxedOp::new(prev, p))
    }
    fn bk<Op: Operator<Out = (i64, i64)> + 'static>(&self, s: KeyedStream<Op>, id: &str) -> K {
        let p = probe(id, self.probes_on);
        KeyedStream(s.0.add_operator(|prev| BoxedOp::new(prev, p)))
    }

    /// Wrap a user closure so that it panics at the configured crash point.
    fn crashing(&self, id: &str) -> impl Fn() + Clone + Send + 'static {
        let cfg = self.crash.clone().filter(|c| c.0 == id);
        let counters: Arc<Mutex<HashMap<String, i64>>> = Arc::new(Mutex::new(HashMap::new()));
        move || {
            if let Some((_, gid, at)) = &cfg {
                // per-thread counter keyed by the replica coordinate
                let me = std::thread::current().id();
                let key = format!("{me:?}");
                let mut c = counters.lock();
                let n = c.entry(key).or_insert(0);
                let cur = *n;
                *n += 1;
                let my_gid = CUR_GID.with(|g| g.get());
                if cur == *at && (*gid < 0 || *gid == my_gid) {
                    drop(c);
                    panic!("verif: injected crash");
                }
            }
        }
    }

    pub fn run_nodes(&mut self, nodes: &[Value], scope: &mut Scope) {
        for n in nodes {
            self.node(n, scope);
        }
    }

    pub fn top(&mut self, prog: &Value) {
        let mut scope = Scope {
            vals: HashMap::new(),
            state: None,
        };
        let nodes = prog["nodes"].as_array().expect("nodes").clone();
        self.run_nodes(&nodes, &mut scope);
        assert!(
            scope.vals.is_empty(),
            "streams without a sink: {:?}",
            scope.vals.keys().collect::<Vec<_>>()
        );
    }

    fn node(&mut self, n: &Value, sc: &mut Scope) {
        let id = match &n["id"] {
            Value::String(s) => s.clone(),
            other => other.to_string(),
        };
        let op = n["op"].as_str().expect("op");
        let ins = n["in"].as_array().cloned().unwrap_or_default();
        let crash = self.crashing(&id);
        match op {
            "src" => {
                let kind = n["kind"].as_str().unwrap();
                let s: S = match kind {
                    "par_range" => {
                        let lo = n["lo"].as_i64().unwrap();
                        let hi = n["hi"].as_i64().unwrap();
                        let s = self.env.stream_par_iter(lo..hi);
                        let s = match self.batch {
                            Some(b) => s.batch_mode(b),
                            None => s,
                        };
                        self.bs(s, &id)
                    }
                    "iter" => {
                        let data: Vec<i64> = n["data"]
                            .as_array()
                            .unwrap()
                            .iter()
                            .map(|v| v.as_i64().unwrap())
                            .collect();
                        let s = self.env.stream_iter(data.into_iter());
                        let s = match self.batch {
                            Some(b) => s.batch_mode(b),
                            None => s,
                        };
                        self.bs(s, &id)
                    }
                    "script" => {
                        let scripts = parse_scripts_i64(&n["scripts"]);
                        let src = ScriptSource::new(scripts, repl(&n["repl"]), self.turns.clone());
                        let s = self.env.stream(src);
                        let s = match self.batch {
                            Some(b) => s.batch_mode(b),
                            None => s,
                        };
                        self.bs(s, &id)
                    }
                    "channel" => {
                        let (tx, src) = renoir::operator::source::ChannelSource::new(
                            n["cap"].as_u64().unwrap_or(1024) as usize,
                        );
                        self.feeds.push((id.clone(), tx));
                        let s = self.env.stream(src);
                        let s = match self.batch {
                            Some(b) => s.batch_mode(b),
                            None => s,
                        };
                        self.bs(s, &id)
                    }
                    _ => panic!("bad source kind {kind}"),
                };
                sc.vals.insert(id, Val::S(s));
            }
            "map" => {
                let f = fam::fmap(n["f"].as_str().unwrap());
                let s = sc.take_s(&ins[0]);
                let s = s.map(move |v| {
                    crash();
                    f(v)
                });
                let s = self.bs(s, &id);
                sc.vals.insert(id, Val::S(s));
            }
            "map_memo" => {
                // memoised map: must be indistinguishable from map for a pure function
                let f = fam::fmap(n["f"].as_str().unwrap());
                let cap = n["cap"].as_u64().unwrap_or(4) as usize;
                let s = sc.take_s(&ins[0]).map_memo(move |v| f(v), cap);
                let s = self.bs(s, &id);
                sc.vals.insert(id, Val::S(s));
            }
            "unique" => {
                let s = sc.take_s(&ins[0]).unique_assoc();
                let s = self.bs(s, &id);
                sc.vals.insert(id, Val::S(s));
            }
            "rich_map" => {
                // stateful map on a sequential stream: running aggregate
                let (init, f) = fam::agg(n["agg"].as_str().unwrap());
                let s = sc.take_s(&ins[0]).rich_map({
                    let mut acc = init;
                    move |v| {
                        acc = f(acc, v);
                        acc
                    }
                });
                let s = self.bs(s, &id);
                sc.vals.insert(id, Val::S(s));
            }
            "map_st" => {
                let f = fam::fmap_st(n["f"].as_str().unwrap());
                let st = sc.state.clone().expect("map_st outside a loop body");
                let s = sc.take_s(&ins[0]);
                let pid = id.clone();
                let on = self.probes_on;
                let s = s.map(move |v| {
                    let cur = *st.get();
                    if on {
                        renoir::verif::emit(|| json!({"ev": "state_read", "id": pid, "v": v, "state": cur}));
                    }
                    f(v, cur)
                });
                let s = self.bs(s, &id);
                sc.vals.insert(id, Val::S(s));
            }
            "filter" => {
                let f = fam::ffilter(n["p"].as_str().unwrap());
                let s = sc.take_s(&ins[0]);
                let s = s.filter(move |v| {
                    crash();
                    f(*v)
                });
                let s = self.bs(s, &id);
                sc.vals.insert(id, Val::S(s));
            }
            "flat_map" => {
                let f = fam::fflat(n["g"].as_str().unwrap());
                let s = sc.take_s(&ins[0]);
                let s = s.flat_map(move |v| {
                    crash();
                    f(v)
                });
                let s = self.bs(s, &id);
                sc.vals.insert(id, Val::S(s));
            }
            "shuffle" => {
                let s = sc.take_s(&ins[0]).shuffle();
                let s = self.bs(s, &id);
                sc.vals.insert(id, Val::S(s));
            }
            "replicate" => {
                let s = sc.take_s(&ins[0]).replication(repl(&n["repl"]));
                let s = self.bs(s, &id);
                sc.vals.insert(id, Val::S(s));
            }
            "broadcast" => {
                let s = sc.take_s(&ins[0]).broadcast();
                let s = self.bs(s, &id);
                sc.vals.insert(id, Val::S(s));
            }
            "reorder" => {
                let s = sc.take_s(&ins[0]).reorder();
                let s = self.bs(s, &id);
                sc.vals.insert(id, Val::S(s));
            }
            "group_by" => {
                let m = n["m"].as_i64().unwrap();
                let k = sc.take_s(&ins[0]).group_by(move |v| *v % m);
                let k = self.bk(k, &id);
                sc.vals.insert(id, Val::K(k));
            }
            "key_by" => {
                let m = n["m"].as_i64().unwrap();
                let k = sc.take_s(&ins[0]).key_by(move |v| *v % m);
                let k = self.bk(k, &id);
                sc.vals.insert(id, Val::K(k));
            }
            "kmap" => {
                let f = fam::fmap(n["f"].as_str().unwrap());
                let k = sc.take_k(&ins[0]).map(move |(_, v)| {
                    crash();
                    f(v)
                });
                let k = self.bk(k, &id);
                sc.vals.insert(id, Val::K(k));
            }
            "kfilter" => {
                let f = fam::ffilter(n["p"].as_str().unwrap());
                let k = sc.take_k(&ins[0]).filter(move |(_, v)| f(*v));
                let k = self.bk(k, &id);
                sc.vals.insert(id, Val::K(k));
            }
            "kflat_map" => {
                let f = fam::fflat(n["g"].as_str().unwrap());
                let k = sc.take_k(&ins[0]).flat_map(move |(_, v)| f(v));
                let k = self.bk(k, &id);
                sc.vals.insert(id, Val::K(k));
            }
            "kfold" => {
                let (init, f) = fam::agg(n["agg"].as_str().unwrap());
                let k = sc.take_k(&ins[0]).fold(init, move |a, v| {
                    crash();
                    *a = f(*a, v)
                });
                let k = self.bk(k, &id);
                sc.vals.insert(id, Val::K(k));
            }
            "kreduce" => {
                let f = fam::agg_merge(n["agg"].as_str().unwrap());
                let k = sc.take_k(&ins[0]).reduce(move |a, v| *a = f(*a, v));
                let k = self.bk(k, &id);
                sc.vals.insert(id, Val::K(k));
            }
            "krich_map" => {
                // keyed running aggregate: emits the aggregate so far for every element
                let (init, f) = fam::agg(n["agg"].as_str().unwrap());
                let k = sc.take_k(&ins[0]).rich_map({
                    let mut acc = init;
                    move |(_, v)| {
                        acc = f(acc, v);
                        acc
                    }
                });
                let k = self.bk(k, &id);
                sc.vals.insert(id, Val::K(k));
            }
            "gb_fold" => {
                let m = n["m"].as_i64().unwrap();
                let name = n["agg"].as_str().unwrap();
                let (init, f) = fam::agg(name);
                let g = fam::agg_merge(name);
                let k = sc.take_s(&ins[0]).group_by_fold(
                    move |v| *v % m,
                    init,
                    move |a, v| *a = f(*a, v),
                    move |a, b| *a = g(*a, b),
                );
                let k = self.bk(k, &id);
                sc.vals.insert(id, Val::K(k));
            }
            "gb_reduce" => {
                let m = n["m"].as_i64().unwrap();
                let g = fam::agg_merge(n["agg"].as_str().unwrap());
                let k = sc
                    .take_s(&ins[0])
                    .group_by_reduce(move |v| *v % m, move |a, b| *a = g(*a, b));
                let k = self.bk(k, &id);
                sc.vals.insert(id, Val::K(k));
            }
            "gb_sum" => {
                let m = n["m"].as_i64().unwrap();
                let k = sc.take_s(&ins[0]).group_by_sum(move |v| *v % m, |v| v);
                let k = self.bk(k, &id);
                sc.vals.insert(id, Val::K(k));
            }
            "gb_count" => {
                let m = n["m"].as_i64().unwrap();
                let k = sc
                    .take_s(&ins[0])
                    .group_by_count(move |v| *v % m)
                    .map(|(_, c)| c as i64);
                let k = self.bk(k, &id);
                sc.vals.insert(id, Val::K(k));
            }
            "gb_min" => {
                let m = n["m"].as_i64().unwrap();
                let k = sc
                    .take_s(&ins[0])
                    .group_by_min_element(move |v| *v % m, |v| *v);
                let k = self.bk(k, &id);
                sc.vals.insert(id, Val::K(k));
            }
            "gb_max" => {
                let m = n["m"].as_i64().unwrap();
                let k = sc
                    .take_s(&ins[0])
                    .group_by_max_element(move |v| *v % m, |v| *v);
                let k = self.bk(k, &id);
                sc.vals.insert(id, Val::K(k));
            }
            "gb_avg" => {
                // average of 8*v (dyadic-friendly), reported as floor(avg)
                let m = n["m"].as_i64().unwrap();
                let k = sc
                    .take_s(&ins[0])
                    .group_by_avg(move |v| *v % m, |v| (*v * 8) as f64)
                    .map(|(_, a)| a.floor() as i64);
                let k = self.bk(k, &id);
                sc.vals.insert(id, Val::K(k));
            }
            "fold" => {
                let (init, f) = fam::agg(n["agg"].as_str().unwrap());
                let s = sc.take_s(&ins[0]).fold(init, move |a, v| {
                    crash();
                    *a = f(*a, v)
                });
                let s = self.bs(s, &id);
                sc.vals.insert(id, Val::S(s));
            }
            "reduce" => {
                let g = fam::agg_merge(n["agg"].as_str().unwrap());
                let s = sc.take_s(&ins[0]).reduce(move |a, v| g(a, v));
                let s = self.bs(s, &id);
                sc.vals.insert(id, Val::S(s));
            }
            "fold_assoc" => {
                let name = n["agg"].as_str().unwrap();
                let (init, f) = fam::agg(name);
                let g = fam::agg_merge(name);
                let s = sc.take_s(&ins[0]).fold_assoc(
                    init,
                    move |a, v| *a = f(*a, v),
                    move |a, b| *a = g(*a, b),
                );
                let s = self.bs(s, &id);
                sc.vals.insert(id, Val::S(s));
            }
            "reduce_assoc" => {
                let g = fam::agg_merge(n["agg"].as_str().unwrap());
                let s = sc.take_s(&ins[0]).reduce_assoc(move |a, v| g(a, v));
                let s = self.bs(s, &id);
                sc.vals.insert(id, Val::S(s));
            }
            "unkey" => {
                let s = sc
                    .take_k(&ins[0])
                    .unkey()
                    .map(|(k, v)| fam::comb(k, v));
                let s = self.bs(s, &id);
                sc.vals.insert(id, Val::S(s));
            }
            "drop_key" => {
                let s = sc.take_k(&ins[0]).drop_key();
                let s = self.bs(s, &id);
                sc.vals.insert(id, Val::S(s));
            }
            "join" => {
                let ml = n["ml"].as_i64().unwrap();
                let mr = n["mr"].as_i64().unwrap();
                let ship = n["ship"].as_str().unwrap_or("hash");
                let local = n["local"].as_str().unwrap_or("hash");
                let variant = n["variant"].as_str().unwrap_or("inner");
                let l = sc.take_s(&ins[0]);
                let r = sc.take_s(&ins[1]);
                let j = l.join_with(r, move |v| *v % ml, move |v| *v % mr);
                // every variant is mapped to a plain stream of comb(l, r) values (None = -1)
                let s: S = match (ship, local, variant) {
                    ("hash", "hash", "inner") => {
                        let k = j.ship_hash().local_hash().inner();
                        self.bs(k.drop_key().map(|(a, b)| fam::comb(a, b)), &id)
                    }
                    ("hash", "hash", "left") => {
                        let k = j.ship_hash().local_hash().left();
                        self.bs(k.drop_key().map(|(a, b)| fam::comb(a, fam::opt(b))), &id)
                    }
                    ("hash", "hash", "outer") => {
                        let k = j.ship_hash().local_hash().outer();
                        self.bs(
                            k.drop_key().map(|(a, b)| fam::comb(fam::opt(a), fam::opt(b))),
                            &id,
                        )
                    }
                    ("hash", "sortmerge", "inner") => {
                        let k = j.ship_hash().local_sort_merge().inner();
                        self.bs(k.drop_key().map(|(a, b)| fam::comb(a, b)), &id)
                    }
                    ("hash", "sortmerge", "left") => {
                        let k = j.ship_hash().local_sort_merge().left();
                        self.bs(k.drop_key().map(|(a, b)| fam::comb(a, fam::opt(b))), &id)
                    }
                    ("hash", "sortmerge", "outer") => {
                        let k = j.ship_hash().local_sort_merge().outer();
                        self.bs(
                            k.drop_key().map(|(a, b)| fam::comb(fam::opt(a), fam::opt(b))),
                            &id,
                        )
                    }
                    ("bcast", "hash", "inner") => {
                        let k = j.ship_broadcast_right().local_hash().inner();
                        self.bs(k.map(|(_, (a, b))| fam::comb(a, b)), &id)
                    }
                    ("bcast", "hash", "left") => {
                        let k = j.ship_broadcast_right().local_hash().left();
                        self.bs(k.map(|(_, (a, b))| fam::comb(a, fam::opt(b))), &id)
                    }
                    ("bcast", "sortmerge", "inner") => {
                        let k = j.ship_broadcast_right().local_sort_merge().inner();
                        self.bs(k.map(|(_, (a, b))| fam::comb(a, b)), &id)
                    }
                    ("bcast", "sortmerge", "left") => {
                        let k = j.ship_broadcast_right().local_sort_merge().left();
                        self.bs(k.map(|(_, (a, b))| fam::comb(a, fam::opt(b))), &id)
                    }
                    other => panic!("unsupported join {other:?}"),
                };
                sc.vals.insert(id, Val::S(s));
            }
            "kjoin" => {
                let variant = n["variant"].as_str().unwrap_or("inner");
                let l = sc.take_k(&ins[0]);
                let r = sc.take_k(&ins[1]);
                let k: K = match variant {
                    "inner" => self.bk(l.join(r).map(|(_, (a, b))| fam::comb(a, b)), &id),
                    "outer" => self.bk(
                        l.join_outer(r)
                            .map(|(_, (a, b))| fam::comb(fam::opt(a), fam::opt(b))),
                        &id,
                    ),
                    other => panic!("unsupported keyed join {other}"),
                };
                sc.vals.insert(id, Val::K(k));
            }
            "ijoin" => {
                // interval join of two timestamped streams: pairs (l, r) with l.ts - lower <= r.ts <= l.ts + upper
                let lower = n["lower"].as_i64().unwrap();
                let upper = n["upper"].as_i64().unwrap();
                let l = sc.take_s(&ins[0]);
                let r = sc.take_s(&ins[1]);
                let s = self.bs(l.interval_join(r, lower, upper).map(|(a, b)| fam::comb(a, b)), &id);
                sc.vals.insert(id, Val::S(s));
            }
            "kijoin" => {
                // keyed interval join: same key and l.ts - lower <= r.ts <= l.ts + upper
                let lower = n["lower"].as_i64().unwrap();
                let upper = n["upper"].as_i64().unwrap();
                let l = sc.take_k(&ins[0]);
                let r = sc.take_k(&ins[1]);
                let k = self.bk(
                    l.interval_join(r, lower, upper).map(|(_, (a, b))| fam::comb(a, b)),
                    &id,
                );
                sc.vals.insert(id, Val::K(k));
            }
            "merge" => {
                let l = sc.take_s(&ins[0]);
                let r = sc.take_s(&ins[1]);
                let s = self.bs(l.merge(r), &id);
                sc.vals.insert(id, Val::S(s));
            }
            "kmerge" => {
                let l = sc.take_k(&ins[0]);
                let r = sc.take_k(&ins[1]);
                let k = self.bk(l.merge(r), &id);
                sc.vals.insert(id, Val::K(k));
            }
            "zip" => {
                let l = sc.take_s(&ins[0]);
                let r = sc.take_s(&ins[1]);
                let s = self.bs(l.zip(r).map(|(a, b)| fam::comb(a, b)), &id);
                sc.vals.insert(id, Val::S(s));
            }
            "split" => {
                let cnt = n["n"].as_u64().unwrap() as usize;
                let s = sc.take_s(&ins[0]);
                for (i, b) in s.split(cnt).into_iter().enumerate() {
                    let bid = format!("{id}.{i}");
                    let b = self.bs(b, &bid);
                    sc.vals.insert(bid, Val::S(b));
                }
            }
            "route" => {
                let preds: Vec<String> = n["preds"]
                    .as_array()
                    .unwrap()
                    .iter()
                    .map(|p| p.as_str().unwrap().to_string())
                    .collect();
                let s = sc.take_s(&ins[0]);
                let mut rb = s.route();
                for p in &preds {
                    rb = rb.add_route(route_pred(p));
                }
                for (i, b) in rb.build().into_iter().enumerate() {
                    let bid = format!("{id}.{i}");
                    let b = self.bs(b, &bid);
                    sc.vals.insert(bid, Val::S(b));
                }
            }
            "count_window" => {
                let size = n["n"].as_u64().unwrap() as usize;
                let slide = n["s"].as_u64().unwrap() as usize;
                let exact = n["exact"].as_bool().unwrap_or(true);
                let k = sc.take_k(&ins[0]);
                let descr = CountWindow::new(size, slide, exact);
                let k = self.window_agg(k.window(descr), n["agg"].as_str().unwrap(), &id);
                sc.vals.insert(id, Val::K(k));
            }
            "event_window" => {
                let size = n["size"].as_i64().unwrap();
                let slide = n["slide"].as_i64().unwrap_or(size);
                let k = sc.take_k(&ins[0]);
                let descr = EventTimeWindow::sliding(size, slide);
                let k = self.window_agg(k.window(descr), n["agg"].as_str().unwrap(), &id);
                sc.vals.insert(id, Val::K(k));
            }
            "replay" | "iterate" => {
                self.loop_node(n, &id, op, &ins, sc);
            }
            "sink" => {
                let kind = n["kind"].as_str().unwrap();
                let v = sc.take(&ins[0]);
                let h = match (v, kind) {
                    (Val::S(s), "collect_vec") => SinkHandle::Vec(s.collect_vec()),
                    (Val::S(s), "collect_vec_all") => SinkHandle::Vec(s.collect_vec_all()),
                    (Val::S(s), "collect") => SinkHandle::Vec(s.collect::<Vec<i64>>()),
                    (Val::S(s), "collect_all") => SinkHandle::Vec(s.collect_all::<Vec<i64>>()),
                    (Val::S(s), "collect_count") => SinkHandle::Count(s.collect_count()),
                    (Val::S(s), "collect_channel") => SinkHandle::Chan(s.collect_channel()),
                    (Val::S(s), "collect_channel_parallel") => {
                        SinkHandle::Chan(s.collect_channel_parallel())
                    }
                    (Val::S(s), "for_each") => {
                        let shared = Arc::new(Mutex::new(Vec::new()));
                        let sh = shared.clone();
                        s.for_each(move |v| sh.lock().push(json!(v)));
                        SinkHandle::Shared(shared)
                    }
                    (Val::K(k), "collect_vec") => SinkHandle::KVec(k.collect_vec()),
                    (Val::K(k), "collect_vec_all") => SinkHandle::KVec(k.collect_vec_all()),
                    (Val::K(k), "collect") => SinkHandle::KVec(k.collect::<Vec<(i64, i64)>>()),
                    (Val::K(k), "collect_channel") => SinkHandle::KChan(k.collect_channel()),
                    (Val::K(k), "for_each") => {
                        let shared = Arc::new(Mutex::new(Vec::new()));
                        let sh = shared.clone();
                        k.for_each(move |(k, v)| sh.lock().push(json!([k, v])));
                        SinkHandle::Shared(shared)
                    }
                    (_, other) => panic!("unsupported sink {other}"),
                };
                self.sinks.push((id, kind.to_string(), h));
            }
            other => panic!("unknown op {other}"),
        }
    }

    fn window_agg<Op, D>(
        &self,
        w: renoir::WindowedStream<Op, i64, D>,
        agg: &str,
        id: &str,
    ) -> K
    where
        Op: Operator<Out = (i64, i64)> + 'static,
        D: renoir::operator::window::WindowDescription<i64> + Clone + Send + 'static,
    {
        match agg {
            "sum" => self.bk(w.fold(0i64, |a, v| *a = (*a + v) % fam::M), id),
            "count" => self.bk(w.fold(0i64, |a, _| *a += 1), id),
            "max" => self.bk(w.max(), id),
            "min" => self.bk(w.min(), id),
            "first" => self.bk(w.first(), id),
            "last" => self.bk(w.last(), id),
            // order-sensitive digest of the whole group: exposes content and order
            "digest" => self.bk(w.fold(7i64, |a, v| *a = (*a * 31 + v + 1) % fam::M), id),
            other => panic!("unknown window aggregation {other}"),
        }
    }

    fn loop_node(&mut self, n: &Value, id: &str, op: &str, ins: &[Value], sc: &mut Scope) {
        let rounds = n["rounds"].as_u64().unwrap() as usize;
        let init = n["init"].as_i64().unwrap_or(0);
        let (_, lf) = fam::agg(n["lfold"].as_str().unwrap_or("sum"));
        let gf = fam::agg_merge(n["gfold"].as_str().unwrap_or("sum"));
        let cond = fam::fcond(n["cond"].as_str().unwrap_or("always"));
        let body_nodes = n["body"].as_array().unwrap().clone();
        let out_ref = n["out"].clone();
        // side inputs: values of the outer scope made visible inside the body under their own names
        let mut side: Vec<(String, Val)> = vec![];
        if let Some(list) = n["side"].as_array() {
            for r in list {
                let name = match r {
                    Value::String(s) => s.clone(),
                    o => o.to_string(),
                };
                side.push((name, sc.take(r)));
            }
        }
        let input = sc.take_s(&ins[0]);
        let pid = id.to_string();
        let on = self.probes_on;

        // The body closure needs `self` mutably: it runs synchronously inside replay()/iterate().
        let this = self as *mut Interp<'a> as usize;
        let body = move |s: S, st: IterationStateHandle<i64>| -> S {
            let this = unsafe { &mut *(this as *mut Interp<'_>) };
            let mut inner = Scope {
                vals: HashMap::new(),
                state: Some(st),
            };
            inner.vals.insert("$in".to_string(), Val::S(s));
            for (name, v) in side {
                inner.vals.insert(name, v);
            }
            this.run_nodes(&body_nodes, &mut inner);
            let out = inner.take_s(&out_ref);
            assert!(inner.vals.is_empty(), "dangling streams in loop body");
            out
        };
        let lfold = move |a: &mut i64, v: i64| *a = lf(*a, v);
        let gfold = move |a: &mut i64, d: i64| *a = gf(*a, d);
        let lcond = move |s: &mut i64| {
            if on {
                renoir::verif::emit(|| json!({"ev": "cond", "id": pid, "state": *s}));
            }
            cond(*s)
        };
        match op {
            "replay" => {
                let probe_in = probe(&format!("{id}.in"), self.probes_on);
                let st = input.replay(
                    rounds,
                    init,
                    move |s, h| {
                        let s = s.add_operator(|prev| BoxedOp::new(prev, probe_in));
                        body(s, h)
                    },
                    lfold,
                    gfold,
                    lcond,
                );
                let st = self.bs(st, &format!("{id}.state"));
                sc.vals.insert(format!("{id}.state"), Val::S(st));
            }
            "iterate" => {
                let probe_in = probe(&format!("{id}.in"), self.probes_on);
                let (st, out) = input.iterate(
                    rounds,
                    init,
                    move |s, h| {
                        let s = s.add_operator(|prev| BoxedOp::new(prev, probe_in));
                        body(s, h)
                    },
                    lfold,
                    gfold,
                    lcond,
                );
                let st = self.bs(st, &format!("{id}.state"));
                let out = self.bs(out, &format!("{id}.out"));
                sc.vals.insert(format!("{id}.state"), Val::S(st));
                sc.vals.insert(format!("{id}.out"), Val::S(out));
            }
            _ => unreachable!(),
        }
    }
}
