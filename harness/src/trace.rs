//! Trace recording, seeded schedule perturbation and gates, on top of renoir's `verif` hooks.

use std::collections::HashMap;
use std::sync::atomic::{AtomicBool, AtomicU64, Ordering};
use std::sync::Arc;
use std::time::Duration;

use parking_lot::{Condvar, Mutex};
use serde_json::{json, Value};

/// What is recorded of a run.
#[derive(Default)]
pub struct Recorder {
    /// Events in sequence order (the observer is called under the sequencer lock).
    pub events: Mutex<Vec<Value>>,
    /// Which event kinds to keep (`None` = all).
    pub keep: Option<Vec<String>>,
    pub count: AtomicU64,
    /// Worker threads started / ended (normally or by a panic), from the `worker` events.
    pub workers_started: AtomicU64,
    pub workers_finished: AtomicU64,
}

/// Seeded perturbation: sleep at hook points depending on (seed, thread, counter).
pub struct Perturb {
    pub seed: u64,
    /// Maximum sleep in microseconds (0 = off).
    pub max_us: u64,
    /// One in `every` events is delayed.
    pub every: u64,
}

fn mix(mut x: u64) -> u64 {
    x ^= x >> 33;
    x = x.wrapping_mul(0xff51afd7ed558ccd);
    x ^= x >> 33;
    x = x.wrapping_mul(0xc4ceb9fe1a85ec53);
    x ^= x >> 33;
    x
}

/// A gate: a predicate on events (evaluated in the emitting thread, after the event has been
/// recorded) that blocks the thread until a condition becomes true or a timeout elapses.
pub type Gate = Arc<dyn Fn(&Value) + Send + Sync>;

pub struct Session {
    pub rec: Arc<Recorder>,
}

static ACTIVE: AtomicBool = AtomicBool::new(false);

impl Session {
    /// Install the hooks. Only one session may be active in a process.
    pub fn start(keep: Option<Vec<String>>, perturb: Option<Perturb>, gate: Option<Gate>) -> Session {
        assert!(!ACTIVE.swap(true, Ordering::SeqCst), "session already active");
        let rec = Arc::new(Recorder {
            events: Mutex::new(Vec::new()),
            keep,
            count: AtomicU64::new(0),
            workers_started: AtomicU64::new(0),
            workers_finished: AtomicU64::new(0),
        });
        let rec2 = rec.clone();
        let observer: renoir::verif::Observer = Arc::new(move |seq, ev| {
            rec2.count.fetch_add(1, Ordering::Relaxed);
            if ev.get("ev").and_then(|v| v.as_str()) == Some("worker") {
                match ev.get("what").and_then(|v| v.as_str()) {
                    // counted when the thread is SPAWNED: a worker that has not begun to run when
                    // execute_blocking gives up (early panic) still belongs to this job
                    Some("spawn") => rec2.workers_started.fetch_add(1, Ordering::SeqCst),
                    Some("start") => 0,
                    _ => rec2.workers_finished.fetch_add(1, Ordering::SeqCst),
                };
            }
            if let Some(keep) = &rec2.keep {
                let k = ev.get("ev").and_then(|v| v.as_str()).unwrap_or("");
                if !keep.iter().any(|x| x == k) {
                    return;
                }
            }
            let mut e = ev.clone();
            e["seq"] = json!(seq);
            rec2.events.lock().push(e);
        });
        let counter = AtomicU64::new(0);
        let after: Option<renoir::verif::After> = if perturb.is_some() || gate.is_some() {
            Some(Arc::new(move |ev: &Value| {
                if let Some(g) = &gate {
                    g(ev);
                }
                if let Some(p) = &perturb {
                    if p.max_us > 0 {
                        let n = counter.fetch_add(1, Ordering::Relaxed);
                        let th = ev.get("th").and_then(|v| v.as_u64()).unwrap_or(0);
                        let h = mix(p.seed ^ mix(th.wrapping_mul(0x9e3779b97f4a7c15)) ^ mix(n));
                        // thread priority: some threads are slowed down much more than others
                        let prio = mix(p.seed.wrapping_add(th)) % 4;
                        if h % p.every.max(1) == 0 {
                            let us = (h >> 8) % (p.max_us * (prio + 1) / 2 + 1);
                            if us > 0 {
                                std::thread::sleep(Duration::from_micros(us));
                            } else {
                                std::thread::yield_now();
                            }
                        }
                    }
                }
            }))
        } else {
            None
        };
        renoir::verif::install(Some(observer), after);
        Session { rec }
    }

    /// Add a harness-level event to the trace (through the same sequencer).
    pub fn note(ev: Value) {
        renoir::verif::emit(|| ev);
    }

    pub fn finish(self) -> Vec<Value> {
        renoir::verif::install(None, None);
        ACTIVE.store(false, Ordering::SeqCst);
        std::mem::take(&mut *self.rec.events.lock())
    }
}

/// Lock-step turn keeper used by scripted sources and gates: a global turn counter that threads
/// wait on; `advance` moves to the next turn.
#[derive(Default)]
pub struct Turns {
    turn: Mutex<u64>,
    cv: Condvar,
    /// How long a scripted element waits for its turn before it is emitted anyway (job `gate_timeout_ms`).
    pub timeout_ms: std::sync::atomic::AtomicU64,
    /// Number of waits that ran into the timeout: the prescribed order was not enforced.
    pub timeouts: std::sync::atomic::AtomicU64,
}

impl Turns {
    pub fn new() -> Arc<Self> {
        Arc::new(Self::default())
    }
    /// Wait until the turn is at least `t` (with a timeout so that a gate never deadlocks a job).
    pub fn wait_for(&self, t: u64, timeout: Duration) -> bool {
        let mut g = self.turn.lock();
        let deadline = std::time::Instant::now() + timeout;
        while *g < t {
            if self.cv.wait_until(&mut g, deadline).timed_out() {
                return *g >= t;
            }
        }
        true
    }
    pub fn advance_to(&self, t: u64) {
        let mut g = self.turn.lock();
        if *g < t {
            *g = t;
        }
        self.cv.notify_all();
    }
    pub fn get(&self) -> u64 {
        *self.turn.lock()
    }
}

/// Count occurrences of event kinds (for evidence).
pub fn histogram(events: &[Value]) -> HashMap<String, u64> {
    let mut h = HashMap::new();
    for e in events {
        let k = e.get("ev").and_then(|v| v.as_str()).unwrap_or("?").to_string();
        *h.entry(k).or_insert(0) += 1;
    }
    h
}
