//! `vh`: verification harness for renoir. See /verif/DESIGN.md.

mod boxed;
mod fam;
mod interp;
mod jobs;
mod script;
mod trace;

use std::io::{BufRead, BufWriter, Write};
use std::sync::atomic::{AtomicBool, AtomicU64, Ordering};
use std::sync::Arc;
use std::time::{Duration, Instant};

use serde_json::{json, Value};

fn arg_val(args: &[String], name: &str) -> Option<String> {
    args.iter()
        .position(|a| a == name)
        .and_then(|i| args.get(i + 1).cloned())
}

/// `vh jobs <jobs.ndjson> <results.ndjson> <trace.ndjson> [--slot N] [--skip K]`
///
/// Runs the jobs one after the other. The trace file contains, per job, a `job` record, the
/// recorded events and a `done` record. If a job makes no progress for its `hang_ms` the process
/// writes a `hang` result for it (with the tail of the trace) and exits with status 3; the driver
/// restarts it with `--skip`.
fn cmd_jobs(args: &[String]) -> i32 {
    let jobs_path = &args[0];
    let res_path = &args[1];
    let trace_path = &args[2];
    let slot: u32 = arg_val(args, "--slot").and_then(|s| s.parse().ok()).unwrap_or(0);
    let skip: usize = arg_val(args, "--skip").and_then(|s| s.parse().ok()).unwrap_or(0);
    let append = skip > 0;

    let jobs: Vec<Value> = std::io::BufReader::new(std::fs::File::open(jobs_path).expect("jobs file"))
        .lines()
        .map(|l| l.unwrap())
        .filter(|l| !l.trim().is_empty())
        .map(|l| serde_json::from_str(&l).expect("job json"))
        .collect();

    let open = |p: &str| {
        BufWriter::new(
            std::fs::OpenOptions::new()
                .create(true)
                .write(true)
                .append(append)
                .truncate(!append)
                .open(p)
                .expect("open output"),
        )
    };
    let res_out = Arc::new(parking_lot::Mutex::new(open(res_path)));
    let trace_out = Arc::new(parking_lot::Mutex::new(open(trace_path)));

    jobs::install_panic_hook();
    let progress = Arc::new(jobs::Progress {
        job: parking_lot::Mutex::new(None),
        started: AtomicU64::new(0),
        in_job: AtomicBool::new(false),
    });

    // watchdog
    {
        let progress = progress.clone();
        let res_out = res_out.clone();
        let trace_out = trace_out.clone();
        std::thread::spawn(move || {
            let mut last_count = 0u64;
            let mut last_change = Instant::now();
            let mut last_id = String::new();
            loop {
                std::thread::sleep(Duration::from_millis(100));
                if !progress.in_job.load(Ordering::SeqCst) {
                    last_change = Instant::now();
                    continue;
                }
                let g = progress.job.lock();
                if let Some((id, _t0, hang_ms, rec)) = g.as_ref() {
                    let c = rec.count.load(Ordering::Relaxed);
                    if *id != last_id || c != last_count {
                        last_id = id.clone();
                        last_count = c;
                        last_change = Instant::now();
                    } else if last_change.elapsed() > Duration::from_millis(*hang_ms) {
                        // hang: dump what we have and exit
                        let events = rec.events.lock().clone();
                        let idx = progress.started.load(Ordering::SeqCst);
                        {
                            let mut t = trace_out.lock();
                            for e in &events {
                                let _ = writeln!(t, "{e}");
                            }
                            let _ = writeln!(t, "{}", json!({"ev": "hang", "id": id}));
                            let _ = t.flush();
                        }
                        {
                            let mut r = res_out.lock();
                            let _ = writeln!(
                                r,
                                "{}",
                                json!({"id": id, "hang": true, "index": idx, "events": c})
                            );
                            let _ = r.flush();
                        }
                        std::process::exit(3);
                    }
                }
            }
        });
    }

    for (i, job) in jobs.iter().enumerate() {
        if i < skip {
            continue;
        }
        progress.started.store(i as u64, Ordering::SeqCst);
        {
            let mut t = trace_out.lock();
            let mut hdr = json!({"ev": "job", "id": job["id"], "cfg": job["cfg"], "batch": job["batch"], "index": i});
            if let Some(m) = job.get("meta") {
                hdr["meta"] = m.clone();
            }
            writeln!(t, "{hdr}").unwrap();
            t.flush().unwrap();
        }
        let out = jobs::run_job(job, slot, i as u32, &progress);
        {
            let mut t = trace_out.lock();
            for e in &out.events {
                writeln!(t, "{e}").unwrap();
            }
            writeln!(t, "{}", json!({"ev": "done", "id": job["id"]})).unwrap();
            t.flush().unwrap();
        }
        let lingering = out.result["lingering"].as_u64().unwrap_or(0);
        {
            let mut r = res_out.lock();
            let mut res = out.result;
            res["index"] = json!(i);
            writeln!(r, "{res}").unwrap();
            r.flush().unwrap();
        }
        if lingering > 0 {
            // worker threads of this job are still alive: a fresh process for the remaining jobs
            std::process::exit(4);
        }
    }
    0
}

/// `vh graph <cases.ndjson> <out.ndjson>`
fn cmd_graph(args: &[String]) -> i32 {
    let slot: u32 = arg_val(args, "--slot").and_then(|s| s.parse().ok()).unwrap_or(0);
    jobs::install_panic_hook();
    let cases: Vec<Value> = std::io::BufReader::new(std::fs::File::open(&args[0]).expect("cases"))
        .lines()
        .map(|l| l.unwrap())
        .filter(|l| !l.trim().is_empty())
        .map(|l| serde_json::from_str(&l).expect("case json"))
        .collect();
    let mut out = BufWriter::new(std::fs::File::create(&args[1]).expect("out"));
    for (i, c) in cases.iter().enumerate() {
        let r = jobs::graph_case(c, slot, i as u32);
        writeln!(out, "{r}").unwrap();
    }
    out.flush().unwrap();
    0
}

fn main() {
    let args: Vec<String> = std::env::args().skip(1).collect();
    if args.is_empty() {
        eprintln!("usage: vh <jobs|...> ...");
        std::process::exit(2);
    }
    let code = match args[0].as_str() {
        "jobs" => cmd_jobs(&args[1..]),
        "graph" => cmd_graph(&args[1..]),
        other => {
            eprintln!("unknown command {other}");
            2
        }
    };
    std::process::exit(code);
}
