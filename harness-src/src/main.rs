//! `vhs` - driver of the real source operators of /repo for property C15.
//!
//! `vhs run <cases.ndjson> <out.ndjson>`: every input line is one case; the output line is the
//! input object plus the field `runs` (what the REAL code did for every replica count) and, for
//! ranges, the decoded bounds. The driver decides nothing: TLC (spec/trace/SourceCheck.tla)
//! evaluates the C15 predicates on these records. A panic of the code under test is data.
//!
//! Case kinds
//!  * `file`    {bytes:[u8..], ns:[n..]}            FileSource through a real job on local(n)
//!  * `csv`     {bytes, ns, header:bool}            CsvSource<Vec<String>> (has_headers = header)
//!  * `iter`    {items:[i64..], ns}                 IteratorSource (non-parallel)
//!  * `channel` {items, ns}                         ChannelSource (non-parallel)
//!  * `range`   {ty, lo:{b,o}, hi:{b,o}, peers:[p..], mode:"direct"|"job"}
//!              bound = base + o, base b in "0" | "MIN" | "MAX" of the integer type `ty`;
//!              direct: `IntoParallelSource::generate_iterator(lo..hi, i, p)` for every i < p;
//!              job:    `stream_par_iter(lo..hi)` on local(p), elements tagged with the replica.
//!
//! Every job tags each element with the global id of the source replica that produced it (an
//! operator added with the public `Stream::add_operator` inside the source block) and collects
//! with `collect_vec`; per-replica order is the order of emission (one FIFO path per replica).
//!
//! Encoding of range values for TLC (32-bit integers): all values of one case (bounds, sub-range
//! ends, elements) go through ONE strictly increasing map, named in `enc`:
//!   "id"   every value fits in +-10^9: verbatim;
//!   "MAX"  every value is within 10^9 of the type's MAX: value - MAX (<= 0), i.e. "MAX-3" -> -3;
//!   "MIN"  likewise value - MIN (>= 0);
//!   "rank" otherwise (direct mode only): dense rank among the distinct values of the case.
//! The interval predicates of SourceProps.tla only compare values, so their verdict is invariant
//! under any strictly increasing map; the element predicates (job mode) also use consecutiveness
//! and are only used with the translations id/MAX/MIN. The exact decimal values are kept in the
//! `*_s` fields for the reader.

use std::fmt::Display;
use std::io::{BufRead, BufReader, BufWriter, Write};
use std::panic::{catch_unwind, AssertUnwindSafe};
use std::sync::Arc;

use once_cell::sync::Lazy;
use parking_lot::Mutex;
use renoir::operator::source::{ChannelSource, CsvSource, IntoParallelSource};
use renoir::operator::{ExchangeData, Operator, StreamElement};
use renoir::structure::{BlockStructure, OperatorStructure};
use renoir::{ExecutionMetadata, RuntimeConfig, StreamContext};
use serde_json::{json, Map, Value};

static PANIC_LOG: Lazy<Mutex<Vec<String>>> = Lazy::new(|| Mutex::new(Vec::new()));

fn install_panic_hook() {
    std::panic::set_hook(Box::new(|info| {
        let msg = if let Some(s) = info.payload().downcast_ref::<&str>() {
            s.to_string()
        } else if let Some(s) = info.payload().downcast_ref::<String>() {
            s.clone()
        } else {
            "panic".to_string()
        };
        let loc = info
            .location()
            .map(|l| format!("{}:{}", l.file(), l.line()))
            .unwrap_or_default();
        PANIC_LOG.lock().push(format!("{msg} @ {loc}"));
    }));
}

fn take_panics() -> Vec<String> {
    std::mem::take(&mut *PANIC_LOG.lock())
}

// ------------------------------------------------------------------------------------------------
// replica tag

type Setups = Arc<Mutex<Vec<(u64, u64)>>>;

/// Tags every item with (global id of this replica, sequence number on this replica).
#[derive(Clone)]
struct Tag<Op: Operator> {
    prev: Op,
    gid: u64,
    seq: u64,
    setups: Setups,
}

impl<Op: Operator> Tag<Op> {
    fn new(prev: Op, setups: Setups) -> Self {
        Tag {
            prev,
            gid: u64::MAX,
            seq: 0,
            setups,
        }
    }
}

impl<Op: Operator> Display for Tag<Op> {
    fn fmt(&self, f: &mut std::fmt::Formatter<'_>) -> std::fmt::Result {
        write!(f, "{} -> Tag", self.prev)
    }
}

impl<Op: Operator> Operator for Tag<Op>
where
    Op::Out: Send,
{
    type Out = (u64, u64, Op::Out);

    fn setup(&mut self, metadata: &mut ExecutionMetadata) {
        self.gid = metadata.global_id;
        self.setups
            .lock()
            .push((metadata.global_id, metadata.replicas.len() as u64));
        self.prev.setup(metadata);
    }

    fn next(&mut self) -> StreamElement<Self::Out> {
        let el = self.prev.next();
        let gid = self.gid;
        let seq = &mut self.seq;
        el.map(|t| {
            *seq += 1;
            (gid, *seq, t)
        })
    }

    fn structure(&self) -> BlockStructure {
        self.prev
            .structure()
            .add_operator(OperatorStructure::new::<Self::Out, _>("Tag"))
    }
}

/// Result of one real job: per-replica emitted items (in emission order), the replicas that were
/// set up as (global id, number of replicas of the block), panic messages.
struct JobOut<T> {
    out: Vec<Vec<T>>,
    setups: Vec<(u64, u64)>,
    panics: Vec<String>,
}

fn group<T>(n: usize, mut tagged: Vec<(u64, u64, T)>) -> Vec<Vec<T>> {
    tagged.sort_by_key(|(g, s, _)| (*g, *s));
    let width = tagged
        .iter()
        .map(|(g, _, _)| *g as usize + 1)
        .max()
        .unwrap_or(0)
        .max(n);
    let mut out: Vec<Vec<T>> = (0..width).map(|_| Vec::new()).collect();
    for (g, _, t) in tagged {
        out[g as usize].push(t);
    }
    out
}

/// Run a job built by `build` on `local(n)`.
fn run_job<T, F>(n: u64, build: F) -> JobOut<T>
where
    T: ExchangeData,
    F: FnOnce(&StreamContext, Setups) -> renoir::operator::sink::StreamOutput<Vec<(u64, u64, T)>>,
{
    take_panics();
    let setups: Setups = Arc::new(Mutex::new(Vec::new()));
    let s2 = setups.clone();
    let res = catch_unwind(AssertUnwindSafe(move || {
        let env = StreamContext::new(RuntimeConfig::local(n).unwrap());
        let out = build(&env, s2);
        env.execute_blocking();
        out.get()
    }));
    // The panic log is process-wide and workers of an EARLIER job that panicked may still be winding
    // down (they fail on their disconnected channels after `execute_blocking` has already unwound):
    // whether THIS job panicked is decided by `catch_unwind` alone, the log only supplies a message
    // (preferring one raised inside the source operators).
    let log = take_panics();
    let mut panics = vec![];
    let tagged = match res {
        Ok(Some(v)) => v,
        Ok(None) => {
            panics.push("no sink result".to_string());
            vec![]
        }
        Err(_) => {
            let msg = log
                .iter()
                .find(|m| m.contains("/operator/source/"))
                .or_else(|| log.first())
                .cloned()
                .unwrap_or_else(|| "panic".to_string());
            panics.push(msg);
            vec![]
        }
    };
    let mut su = setups.lock().clone();
    su.sort();
    JobOut {
        out: group(n as usize, tagged),
        setups: su,
        panics,
    }
}

fn bytes_of(s: &str) -> Value {
    Value::Array(s.as_bytes().iter().map(|b| json!(*b)).collect())
}

fn run_to_json<T>(n: u64, j: JobOut<T>, f: impl Fn(&T) -> Value) -> Value {
    json!({
        "n": n,
        "out": j.out.iter().map(|r| Value::Array(r.iter().map(&f).collect())).collect::<Vec<_>>(),
        "setups": j.setups.iter().map(|(g, r)| json!([g, r])).collect::<Vec<_>>(),
        "panic": if j.panics.is_empty() { 0 } else { 1 },
        "msg": j.panics.first().cloned().unwrap_or_default(),
    })
}

// ------------------------------------------------------------------------------------------------
// file / csv / iter / channel

fn get_bytes(case: &Map<String, Value>) -> Vec<u8> {
    case["bytes"]
        .as_array()
        .expect("bytes")
        .iter()
        .map(|v| v.as_u64().expect("byte") as u8)
        .collect()
}

fn get_ns(case: &Map<String, Value>, key: &str) -> Vec<u64> {
    case[key]
        .as_array()
        .expect("ns")
        .iter()
        .map(|v| v.as_u64().expect("n"))
        .collect()
}

fn case_file(case: &Map<String, Value>, dir: &std::path::Path, csv: bool) -> Vec<Value> {
    let bytes = get_bytes(case);
    // a fresh name per case: workers of an earlier (panicked) job may still hold the old file
    static NEXT: std::sync::atomic::AtomicU64 = std::sync::atomic::AtomicU64::new(0);
    let path = dir.join(format!(
        "input_{}.txt",
        NEXT.fetch_add(1, std::sync::atomic::Ordering::Relaxed)
    ));
    std::fs::write(&path, &bytes).expect("write input file");
    let header = case.get("header").and_then(|v| v.as_bool()).unwrap_or(true);
    let mut runs = vec![];
    for n in get_ns(case, "ns") {
        if csv {
            let p = path.clone();
            let j = run_job::<Vec<String>, _>(n, move |env, su| {
                let src = CsvSource::<Vec<String>>::new(p).has_headers(header);
                env.stream(src)
                    .add_operator(|prev| Tag::new(prev, su))
                    .collect_vec()
            });
            // a record is reported as its fields joined by ','
            runs.push(run_to_json(n, j, |rec| bytes_of(&rec.join(","))));
        } else {
            let p = path.clone();
            let j = run_job::<String, _>(n, move |env, su| {
                env.stream_file(p)
                    .add_operator(|prev| Tag::new(prev, su))
                    .collect_vec()
            });
            runs.push(run_to_json(n, j, |line| bytes_of(line)));
        }
    }
    let _ = std::fs::remove_file(&path);
    runs
}

fn case_seq(case: &Map<String, Value>, channel: bool) -> Vec<Value> {
    let items: Vec<i64> = case["items"]
        .as_array()
        .expect("items")
        .iter()
        .map(|v| v.as_i64().expect("item"))
        .collect();
    let mut runs = vec![];
    for n in get_ns(case, "ns") {
        let its = items.clone();
        let j = if channel {
            run_job::<i64, _>(n, move |env, su| {
                let (tx, src) = ChannelSource::<i64>::new(4);
                // the feeder runs concurrently with the job; dropping `tx` ends the stream
                std::thread::spawn(move || {
                    for x in its {
                        if tx.send(x).is_err() {
                            break;
                        }
                    }
                });
                env.stream(src)
                    .add_operator(|prev| Tag::new(prev, su))
                    .collect_vec()
            })
        } else {
            run_job::<i64, _>(n, move |env, su| {
                env.stream_iter(its.into_iter())
                    .add_operator(|prev| Tag::new(prev, su))
                    .collect_vec()
            })
        };
        runs.push(run_to_json(n, j, |v| json!(*v)));
    }
    runs
}

// ------------------------------------------------------------------------------------------------
// ranges

/// What one case produced, in exact arithmetic.
struct RangeRun {
    n: u64,
    /// direct mode: sub-range (start, end) per index, None = the call panicked
    subs: Vec<Option<(i128, i128)>>,
    /// job mode: elements per replica
    vals: Vec<Vec<i128>>,
    setups: Vec<(u64, u64)>,
    panic: bool,
    msg: String,
    /// input class of (type, range, peers), used only to keep known-finding signatures narrow
    tag: &'static str,
}

/// Input class of one (type, range, number of peers):
///  * `above_i64_max`: a `usize` bound above `i64::MAX`;
///  * `chunks_exceed_type_max`: proper range with lo + (p-1)*ceil((hi-lo)/p) above the type's MAX
///    (the start of the last replica's chunk is not a value of the type).
fn input_tag<T: RInt>(lo: i128, hi: i128, p: u64) -> &'static str {
    if T::NAME == "usize" && lo.max(hi) > i64::MAX as i128 {
        return "above_i64_max";
    }
    if lo < hi && p > 0 {
        let p = p as i128;
        let chunk = (hi - lo + p - 1) / p;
        if lo + (p - 1) * chunk > T::MAXV {
            return "chunks_exceed_type_max";
        }
    }
    ""
}

trait RInt: Copy + Send + Sync + 'static {
    const MINV: i128;
    const MAXV: i128;
    const NAME: &'static str;
    fn from128(v: i128) -> Option<Self>;
    fn direct(lo: Self, hi: Self, index: u64, peers: u64) -> (i128, i128);
    fn job(lo: Self, hi: Self, n: u64) -> JobOut<i128>;
}

macro_rules! impl_rint {
    ($t:ty) => {
        impl RInt for $t {
            const MINV: i128 = <$t>::MIN as i128;
            const MAXV: i128 = <$t>::MAX as i128;
            const NAME: &'static str = stringify!($t);
            fn from128(v: i128) -> Option<Self> {
                <$t>::try_from(v).ok()
            }
            fn direct(lo: Self, hi: Self, index: u64, peers: u64) -> (i128, i128) {
                let r = (lo..hi).generate_iterator(index, peers);
                (r.start as i128, r.end as i128)
            }
            fn job(lo: Self, hi: Self, n: u64) -> JobOut<i128> {
                let j = run_job::<$t, _>(n, move |env, su| {
                    env.stream_par_iter(lo..hi)
                        .add_operator(|prev| Tag::new(prev, su))
                        .collect_vec()
                });
                JobOut {
                    out: j
                        .out
                        .into_iter()
                        .map(|r| r.into_iter().map(|x| x as i128).collect())
                        .collect(),
                    setups: j.setups,
                    panics: j.panics,
                }
            }
        }
    };
}
impl_rint!(u8);
impl_rint!(u16);
impl_rint!(u32);
impl_rint!(u64);
impl_rint!(usize);
impl_rint!(i8);
impl_rint!(i16);
impl_rint!(i32);
impl_rint!(i64);
impl_rint!(isize);

fn num128(v: &Value) -> i128 {
    if let Some(i) = v.as_i64() {
        i as i128
    } else if let Some(u) = v.as_u64() {
        u as i128
    } else if let Some(s) = v.as_str() {
        s.parse::<i128>().expect("decimal offset")
    } else {
        panic!("bad number {v}")
    }
}

fn bound<T: RInt>(v: &Value) -> i128 {
    let base = match v["b"].as_str().expect("base") {
        "0" => 0,
        "MIN" => T::MINV,
        "MAX" => T::MAXV,
        b => panic!("bad base {b}"),
    };
    base + num128(&v["o"])
}

const JOB_MAX_ELEMS: i128 = 100_000;

fn range_case<T: RInt>(case: &Map<String, Value>, out: &mut Map<String, Value>) {
    let lo128 = bound::<T>(&case["lo"]);
    let hi128 = bound::<T>(&case["hi"]);
    out.insert("lo_s".into(), json!(lo128.to_string()));
    out.insert("hi_s".into(), json!(hi128.to_string()));
    let (lo, hi) = match (T::from128(lo128), T::from128(hi128)) {
        (Some(a), Some(b)) => (a, b),
        _ => {
            // not a value of the type: not a case (the generator should not have produced it)
            out.insert("skipped".into(), json!(1));
            out.insert("runs".into(), json!([]));
            out.insert("enc".into(), json!("id"));
            out.insert("lo".into(), json!(0));
            out.insert("hi".into(), json!(0));
            return;
        }
    };
    let job = case["mode"].as_str() == Some("job");
    let mut runs = vec![];
    for p in get_ns(case, "peers") {
        if job {
            if hi128 - lo128 > JOB_MAX_ELEMS {
                panic!("job mode on a range of more than {JOB_MAX_ELEMS} elements");
            }
            let j = T::job(lo, hi, p);
            runs.push(RangeRun {
                n: p,
                subs: vec![],
                vals: j.out,
                setups: j.setups,
                panic: !j.panics.is_empty(),
                msg: j.panics.first().cloned().unwrap_or_default(),
                tag: input_tag::<T>(lo128, hi128, p),
            });
        } else {
            let mut subs = vec![];
            let mut msg = String::new();
            for i in 0..p {
                take_panics();
                match catch_unwind(AssertUnwindSafe(|| T::direct(lo, hi, i, p))) {
                    Ok(se) => subs.push(Some(se)),
                    Err(_) => {
                        let m = take_panics();
                        if msg.is_empty() {
                            msg = m.first().cloned().unwrap_or_else(|| "panic".into());
                        }
                        subs.push(None)
                    }
                }
            }
            let panic = subs.iter().any(|s| s.is_none());
            runs.push(RangeRun {
                n: p,
                subs,
                vals: vec![],
                setups: vec![],
                panic,
                msg,
                tag: input_tag::<T>(lo128, hi128, p),
            });
        }
    }
    // one strictly increasing encoding for the whole case
    let mut all: Vec<i128> = vec![lo128, hi128];
    for r in &runs {
        for s in r.subs.iter().flatten() {
            all.push(s.0);
            all.push(s.1);
        }
        for v in &r.vals {
            all.extend(v.iter().copied());
        }
    }
    const LIM: i128 = 1_000_000_000;
    let enc: &str;
    let map: Box<dyn Fn(i128) -> i64>;
    if all.iter().all(|v| v.abs() <= LIM) {
        enc = "id";
        map = Box::new(|v| v as i64);
    } else if all.iter().all(|v| (T::MAXV - v).abs() <= LIM) {
        enc = "MAX";
        map = Box::new(|v| (v - T::MAXV) as i64);
    } else if all.iter().all(|v| (v - T::MINV).abs() <= LIM) {
        enc = "MIN";
        map = Box::new(|v| (v - T::MINV) as i64);
    } else {
        assert!(!job, "rank encoding is only sound for interval (direct) cases");
        enc = "rank";
        let mut sorted = all.clone();
        sorted.sort();
        sorted.dedup();
        map = Box::new(move |v| sorted.binary_search(&v).unwrap() as i64);
    }
    out.insert("enc".into(), json!(enc));
    out.insert("lo".into(), json!(map(lo128)));
    out.insert("hi".into(), json!(map(hi128)));
    let runs_json: Vec<Value> = runs
        .iter()
        .map(|r| {
            json!({
                "n": r.n,
                "subs": r.subs.iter().map(|s| match s {
                    Some((a, b)) => json!([map(*a), map(*b)]),
                    None => json!([]),
                }).collect::<Vec<_>>(),
                "subs_s": r.subs.iter().map(|s| match s {
                    Some((a, b)) => json!([a.to_string(), b.to_string()]),
                    None => json!([]),
                }).collect::<Vec<_>>(),
                "vals": r.vals.iter().map(|v| v.iter().map(|x| json!(map(*x))).collect::<Vec<_>>()).collect::<Vec<_>>(),
                "setups": r.setups.iter().map(|(g, n)| json!([g, n])).collect::<Vec<_>>(),
                "panic": if r.panic { 1 } else { 0 },
                "msg": r.msg,
                "tag": r.tag,
            })
        })
        .collect();
    out.insert("runs".into(), Value::Array(runs_json));
}

fn case_range(case: &Map<String, Value>, out: &mut Map<String, Value>) {
    match case["ty"].as_str().expect("ty") {
        "u8" => range_case::<u8>(case, out),
        "u16" => range_case::<u16>(case, out),
        "u32" => range_case::<u32>(case, out),
        "u64" => range_case::<u64>(case, out),
        "usize" => range_case::<usize>(case, out),
        "i8" => range_case::<i8>(case, out),
        "i16" => range_case::<i16>(case, out),
        "i32" => range_case::<i32>(case, out),
        "i64" => range_case::<i64>(case, out),
        "isize" => range_case::<isize>(case, out),
        t => panic!("unknown integer type {t}"),
    }
}

// ------------------------------------------------------------------------------------------------

fn cmd_run(cases: &str, outp: &str) {
    let dir = tempfile::Builder::new()
        .prefix("vhs-")
        .tempdir()
        .expect("temp dir");
    let inp = BufReader::new(std::fs::File::open(cases).expect("open cases"));
    let mut w = BufWriter::new(std::fs::File::create(outp).expect("create out"));
    for line in inp.lines() {
        let line = line.expect("read");
        if line.trim().is_empty() {
            continue;
        }
        let v: Value = serde_json::from_str(&line).expect("case json");
        let case = v.as_object().expect("case object").clone();
        let mut out = case.clone();
        match case["kind"].as_str().expect("kind") {
            "file" => {
                out.insert("runs".into(), Value::Array(case_file(&case, dir.path(), false)));
            }
            "csv" => {
                out.insert("runs".into(), Value::Array(case_file(&case, dir.path(), true)));
            }
            "iter" => {
                out.insert("runs".into(), Value::Array(case_seq(&case, false)));
            }
            "channel" => {
                out.insert("runs".into(), Value::Array(case_seq(&case, true)));
            }
            "range" => case_range(&case, &mut out),
            k => panic!("unknown case kind {k}"),
        }
        serde_json::to_writer(&mut w, &Value::Object(out)).expect("write");
        w.write_all(b"\n").expect("write");
    }
    w.flush().expect("flush");
}

fn main() {
    let args: Vec<String> = std::env::args().collect();
    if args.len() == 4 && args[1] == "run" {
        install_panic_hook();
        cmd_run(&args[2], &args[3]);
    } else {
        eprintln!("usage: vhs run <cases.ndjson> <out.ndjson>");
        std::process::exit(2);
    }
}
